#!/bin/bash
# dev helper: run a check against a seeded patch on a scratch copy of /repo (never touches /repo).
# usage: dev/seedtest.sh <patch.diff> <property id> [more ids...]
set -e
P=$(readlink -f "$1"); shift
HERE=$(dirname "$(dirname "$(readlink -f "$0")")")   # the framework copy this script belongs to (a worktree or /verif)
D=$(mktemp -d /tmp/seedrun.XXXXXX)
rsync -a --exclude target --exclude .git /repo/ $D/
(cd $D && patch -p1 -s < "$P") || { echo "PATCH DID NOT APPLY"; rm -rf $D; exit 3; }
cd "$HERE"
for id in "$@"; do
  VERIF_OUT=$D/_out VERIF_REPO=$D ./check $id 2>&1 | grep -E "^(OK|VIOLATION|UNDECIDED|KNOWN)" | cut -c1-260
done
rm -rf $D
