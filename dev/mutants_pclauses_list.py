"""Mutants for dev/mutants_pclauses.py: (name, kind, property id to check, repo-relative file, old text, new text, what it models).
kind 'benign'  = the property statement still holds (expected verdict UNDECIDED or OK, never VIOLATION);
kind 'harmful' = the property is broken (expected VIOLATION on a p_* clause / invariant / closure clause / assert / precondition)."""
K = 'frost-core/src/keys.rs'
D = 'frost-core/src/keys/dkg.rs'
RF = 'frost-core/src/keys/refresh.rs'
RP = 'frost-core/src/keys/repairable.rs'
E = 'frost-core/src/error.rs'
B = 'frost-core/src/batch.rs'
SER = 'frost-core/src/serialization.rs'
SIG = 'frost-core/src/signature.rs'
IDF = 'frost-core/src/identifier.rs'
SK = 'frost-core/src/signing_key.rs'
VK = 'frost-core/src/verifying_key.rs'
R1 = 'frost-core/src/round1.rs'
R2 = 'frost-core/src/round2.rs'
RR = 'frost-rerandomized/src/lib.rs'

MUTANTS = []


def m(*a):
    MUTANTS.append(a)


# ---------------------------------------------------------------------------------------------------------------------
# keys.rs :: validate_num_of_signers
m('vns_guards_exchanged', 'benign', 'C06', K,
  '    if min_signers < 2 {\n        return Err(Error::InvalidMinSigners);\n    }\n\n    if max_signers < 2 {\n        return Err(Error::InvalidMaxSigners);\n    }\n',
  '    if max_signers < 2 {\n        return Err(Error::InvalidMaxSigners);\n    }\n\n    if min_signers < 2 {\n        return Err(Error::InvalidMinSigners);\n    }\n',
  'the two independent range guards exchanged (other error when both numbers are < 2)')
m('vns_other_error_value', 'benign', 'C07', K,
  '    if min_signers > max_signers {\n        return Err(Error::InvalidMinSigners);\n    }\n\n    Ok(())',
  '    if min_signers > max_signers {\n        return Err(Error::InvalidMaxSigners);\n    }\n\n    Ok(())',
  't > n reported as InvalidMaxSigners (the property says "refused")')
m('vns_off_by_one', 'harmful', 'C06', K,
  '    if min_signers > max_signers {\n        return Err(Error::InvalidMinSigners);\n    }\n\n    Ok(())',
  '    if min_signers >= max_signers {\n        return Err(Error::InvalidMinSigners);\n    }\n\n    Ok(())',
  't == n refused')
m('vns_min_one_accepted', 'harmful', 'C06', K,
  '    if min_signers < 2 {\n        return Err(Error::InvalidMinSigners);\n    }\n\n    if max_signers < 2 {',
  '    if min_signers < 1 {\n        return Err(Error::InvalidMinSigners);\n    }\n\n    if max_signers < 2 {',
  't == 1 accepted')
m('vns_order_guard_dropped', 'harmful', 'C10', K,
  '    if min_signers > max_signers {\n        return Err(Error::InvalidMinSigners);\n    }\n\n    Ok(())', '    Ok(())',
  't > n accepted')

# keys.rs :: generate_secret_shares
m('gss_guards_exchanged', 'benign', 'C06', K,
  '    let (coefficients, commitment) =\n        generate_secret_polynomial(secret, max_signers, min_signers, coefficients)?;\n\n    let identifiers_set: BTreeSet<_> = identifiers.iter().collect();\n    if identifiers_set.len() != identifiers.len() {\n        return Err(Error::DuplicatedIdentifier);\n    }\n',
  '    let identifiers_set: BTreeSet<_> = identifiers.iter().collect();\n    if identifiers_set.len() != identifiers.len() {\n        return Err(Error::DuplicatedIdentifier);\n    }\n\n    let (coefficients, commitment) =\n        generate_secret_polynomial(secret, max_signers, min_signers, coefficients)?;\n',
  'duplicate-identifier check made before the parameter / degree checks')
m('gss_duplicates_accepted', 'harmful', 'C06', K,
  '    if identifiers_set.len() != identifiers.len() {\n        return Err(Error::DuplicatedIdentifier);\n    }\n\n    for id in identifiers {',
  '    if identifiers_set.len() > identifiers.len() {\n        return Err(Error::DuplicatedIdentifier);\n    }\n\n    for id in identifiers {',
  'duplicate identifiers accepted (comparison that is never true)')
m('gss_wrong_identifier_in_share', 'harmful', 'C06', K,
  '            identifier: *id,\n            signing_share,\n            commitment: commitment.clone(),',
  '            identifier: identifiers[0],\n            signing_share,\n            commitment: commitment.clone(),',
  'every share labelled with the first identifier')

# keys.rs :: SecretShare::verify
m('ssv_empty_commitment_checked_first', 'benign', 'C06', K,
  '        let f_result = <C::Group>::generator() * self.signing_share.to_scalar();\n        let result = evaluate_vss(self.identifier, &self.commitment);\n',
  '        let _group_key = self.commitment.verifying_key()?;\n        let f_result = <C::Group>::generator() * self.signing_share.to_scalar();\n        let result = evaluate_vss(self.identifier, &self.commitment);\n',
  'empty commitment refused before the VSS equation is checked (other error for a mismatching share with an empty commitment)')
m('ssv_returns_lhs', 'benign', 'C06', K,
  '            VerifyingShare::new(result),\n            self.commitment.verifying_key()?,',
  '            VerifyingShare::new(f_result),\n            self.commitment.verifying_key()?,',
  'verifying share taken from the left-hand side of the (just checked) equation')
m('ssv_check_inverted', 'harmful', 'C06', K,
  '        if !(f_result == result) {', '        if f_result == result {', 'VSS check inverted')
m('ssv_mismatch_not_refused', 'harmful', 'C06', K,
  '            return Err(Error::InvalidSecretShare { culprit: None });\n', '', 'mismatching share accepted')
m('ssv_mismatch_other_variant', 'harmful', 'C08', K,
  '            return Err(Error::InvalidSecretShare { culprit: None });\n', '            return Err(Error::IncorrectCommitment);\n',
  'mismatch reported with a variant dkg::part3 cannot attribute to the sender')

# keys.rs :: KeyPackage::try_from
m('kpt_extra_early_refusal', 'benign', 'C06', K,
  '        let (verifying_share, verifying_key) = secret_share.verify()?;\n\n        Ok(KeyPackage {',
  '        if secret_share.commitment.coefficients().is_empty() {\n            return Err(Error::MissingCommitment);\n        }\n        let (verifying_share, verifying_key) = secret_share.verify()?;\n\n        Ok(KeyPackage {',
  'defensive early refusal of an empty commitment (refused later anyway, possibly with another error)')
m('kpt_wrong_threshold', 'harmful', 'C06', K,
  '            min_signers: secret_share.commitment.min_signers(),\n        })', '            min_signers: 2,\n        })',
  'recorded threshold is a constant')
m('kpt_check_skipped', 'harmful', 'C06', K,
  '        let (verifying_share, verifying_key) = secret_share.verify()?;\n\n        Ok(KeyPackage {',
  '        let verifying_share = VerifyingShare::from(secret_share.signing_share);\n        let verifying_key = secret_share.commitment.verifying_key()?;\n\n        Ok(KeyPackage {',
  'share not verified against the commitment')

# keys.rs :: split
m('split_guards_exchanged', 'benign', 'C06', K,
  '    validate_num_of_signers(min_signers, max_signers)?;\n\n    if let IdentifierList::Custom(identifiers) = &identifiers {\n        if identifiers.len() != max_signers as usize {\n            return Err(Error::IncorrectNumberOfIdentifiers);\n        }\n    }\n',
  '    if let IdentifierList::Custom(identifiers) = &identifiers {\n        if identifiers.len() != max_signers as usize {\n            return Err(Error::IncorrectNumberOfIdentifiers);\n        }\n    }\n\n    validate_num_of_signers(min_signers, max_signers)?;\n',
  'identifier-count check made before the (n, t) check')
m('split_count_guard_weakened', 'harmful', 'C06', K,
  '        if identifiers.len() != max_signers as usize {\n            return Err(Error::IncorrectNumberOfIdentifiers);\n        }\n    }\n\n    let verifying_key = VerifyingKey::from(key);',
  '        if identifiers.len() < max_signers as usize {\n            return Err(Error::IncorrectNumberOfIdentifiers);\n        }\n    }\n\n    let verifying_key = VerifyingKey::from(key);',
  'more identifiers than n accepted')
m('split_wrong_threshold_recorded', 'harmful', 'C06', K,
  '        min_signers: Some(min_signers),\n    };\n\n    // Apply post-processing', '        min_signers: Some(max_signers),\n    };\n\n    // Apply post-processing',
  'public key package records n as the threshold')
m('split_one_coefficient_too_many', 'harmful', 'C03', K,
  '    let coefficients = generate_coefficients::<C, R>(min_signers as usize - 1, rng);\n\n    let secret_shares = match identifiers {',
  '    let coefficients = generate_coefficients::<C, R>(min_signers as usize, rng);\n\n    let secret_shares = match identifiers {',
  't coefficients drawn instead of t-1')

# keys.rs :: generate_with_dealer
m('gwd_extra_early_refusal', 'benign', 'C06', K,
  '    let key = SigningKey::new(rng);\n    split(&key, max_signers, min_signers, identifiers, rng)',
  '    if min_signers < 2 {\n        return Err(Error::InvalidMinSigners);\n    }\n    let key = SigningKey::new(rng);\n    split(&key, max_signers, min_signers, identifiers, rng)',
  't < 2 refused before the key is drawn (same refusal, nothing consumed from the source)')
m('gwd_n_t_exchanged', 'harmful', 'C06', K,
  '    let key = SigningKey::new(rng);\n    split(&key, max_signers, min_signers, identifiers, rng)',
  '    let key = SigningKey::new(rng);\n    split(&key, min_signers, max_signers, identifiers, rng)', 'n and t exchanged in the call of split')
m('gwd_key_not_drawn', 'harmful', 'C16', K,
  '    let key = SigningKey::new(rng);\n    split(&key, max_signers, min_signers, identifiers, rng)',
  '    let key = SigningKey {\n        scalar: <<C::Group as Group>::Field>::one(),\n    };\n    split(&key, max_signers, min_signers, identifiers, rng)',
  'the key is a constant, not a draw')

# keys.rs :: reconstruct
m('rec_guards_exchanged', 'benign', 'C03', K,
  '    if key_packages.len() < min_signers as usize {\n        return Err(Error::IncorrectNumberOfShares);\n    }\n\n    let mut secret = <<C::Group as Group>::Field>::zero();\n\n    let identifiers: BTreeSet<_> = key_packages\n        .iter()\n        .map(|s| s.identifier())\n        .cloned()\n        .collect();\n\n    if identifiers.len() != key_packages.len() {\n        return Err(Error::DuplicatedIdentifier);\n    }\n',
  '    let mut secret = <<C::Group as Group>::Field>::zero();\n\n    let identifiers: BTreeSet<_> = key_packages\n        .iter()\n        .map(|s| s.identifier())\n        .cloned()\n        .collect();\n\n    if identifiers.len() != key_packages.len() {\n        return Err(Error::DuplicatedIdentifier);\n    }\n\n    if key_packages.len() < min_signers as usize {\n        return Err(Error::IncorrectNumberOfShares);\n    }\n',
  'duplicate check made before the threshold check')
m('rec_threshold_off_by_one_strict', 'harmful', 'C06', K,
  '    if key_packages.len() < min_signers as usize {\n        return Err(Error::IncorrectNumberOfShares);', '    if key_packages.len() <= min_signers as usize {\n        return Err(Error::IncorrectNumberOfShares);',
  'exactly t packages refused')
m('rec_threshold_off_by_one_lax', 'harmful', 'C03', K,
  '    if key_packages.len() < min_signers as usize {\n        return Err(Error::IncorrectNumberOfShares);', '    if key_packages.len() + 1 < min_signers as usize {\n        return Err(Error::IncorrectNumberOfShares);',
  't-1 packages accepted')
m('rec_duplicates_accepted', 'harmful', 'C06', K,
  '    if identifiers.len() != key_packages.len() {\n        return Err(Error::DuplicatedIdentifier);\n    }\n\n    // Compute the Lagrange coefficients', '    // Compute the Lagrange coefficients',
  'duplicate holders accepted')

# replacements for keys mutants that hit an `at "<guard line>"` anchor (a mutated anchor line is a lost anchor = undecided by design)
MUTANTS[:] = [x for x in MUTANTS if x[0] not in ('split_one_coefficient_too_many', 'rec_threshold_off_by_one_strict', 'rec_threshold_off_by_one_lax', 'rec_duplicates_accepted')]
m('split_default_ids_of_t', 'harmful', 'C06', K,
  '            let identifiers = default_identifiers(max_signers);', '            let identifiers = default_identifiers(min_signers);',
  'default identifier list built for t instead of n participants')
m('rec_too_few_not_refused', 'harmful', 'C03', K,
  '    if key_packages.len() < min_signers as usize {\n        return Err(Error::IncorrectNumberOfShares);\n    }', '    if key_packages.len() < min_signers as usize {\n    }',
  'fewer packages than the recorded threshold accepted')
m('rec_duplicates_not_refused', 'harmful', 'C06', K,
  '    if identifiers.len() != key_packages.len() {\n        return Err(Error::DuplicatedIdentifier);\n    }', '    if identifiers.len() != key_packages.len() {\n    }',
  'duplicate holders accepted')
m('rec_lagrange_at_own_point', 'harmful', 'C06', K,
  '            compute_lagrange_coefficient(&identifiers, None, key_package.identifier)?;', '            compute_lagrange_coefficient(&identifiers, Some(key_package.identifier), key_package.identifier)?;',
  'interpolation evaluated at the holder\'s own point instead of 0')

# ---------------------------------------------------------------------------------------------------------------------
# dkg.rs :: verify_proof_of_knowledge
m('vpok_extra_early_refusal', 'benign', 'C08', D,
  '    let ell = identifier;\n    let R_ell = proof_of_knowledge.R;',
  '    if commitment.coefficients().is_empty() {\n        return Err(Error::IncorrectCommitment);\n    }\n    let ell = identifier;\n    let R_ell = proof_of_knowledge.R;',
  'empty commitment refused first, with another error value')
m('vpok_check_inverted', 'harmful', 'C08', D,
  '    if R_ell != <C::Group>::generator() * mu_ell - phi_ell0.to_element() * c_ell.0 {', '    if R_ell == <C::Group>::generator() * mu_ell - phi_ell0.to_element() * c_ell.0 {',
  'proof check inverted')
m('vpok_wrong_sign', 'harmful', 'C07', D,
  '    if R_ell != <C::Group>::generator() * mu_ell - phi_ell0.to_element() * c_ell.0 {', '    if R_ell != <C::Group>::generator() * mu_ell + phi_ell0.to_element() * c_ell.0 {',
  'wrong sign in the verification equation')
m('vpok_names_nobody', 'harmful', 'C08', D,
  '        return Err(Error::InvalidProofOfKnowledge { culprit: ell });', '        return Err(Error::InvalidSignature);',
  'invalid proof refused with an error that names nobody')

# dkg.rs :: part1
m('part1_extra_early_refusal', 'benign', 'C07', D,
  '    validate_num_of_signers::<C>(min_signers, max_signers)?;\n\n    let secret: SigningKey<C> = SigningKey::new(&mut rng);',
  '    if max_signers < min_signers {\n        return Err(Error::InvalidMaxSigners);\n    }\n    validate_num_of_signers::<C>(min_signers, max_signers)?;\n\n    let secret: SigningKey<C> = SigningKey::new(&mut rng);',
  'n < t refused first with another error value')
m('part1_one_coefficient_too_many', 'harmful', 'C07', D,
  '    let coefficients = generate_coefficients::<C, R>(min_signers as usize - 1, &mut rng);\n\n    let (coefficients, commitment) =\n        generate_secret_polynomial(&secret,',
  '    let coefficients = generate_coefficients::<C, R>(min_signers as usize, &mut rng);\n\n    let (coefficients, commitment) =\n        generate_secret_polynomial(&secret,',
  't coefficients drawn instead of t-1')
m('part1_n_t_exchanged', 'harmful', 'C07', D,
  '        commitment.clone(),\n        min_signers,\n        max_signers,\n    );\n    let package = round1::Package {', '        commitment.clone(),\n        max_signers,\n        min_signers,\n    );\n    let package = round1::Package {',
  'n and t exchanged in the secret package')

# dkg.rs :: part2
m('part2_guards_exchanged', 'benign', 'C08', D,
  '    if round1_packages.len() != (secret_package.max_signers - 1) as usize {\n        return Err(Error::IncorrectNumberOfPackages);\n    }\n\n    if round1_packages.contains_key(&secret_package.identifier) {\n        return Err(Error::UnknownIdentifier);\n    }\n',
  '    if round1_packages.contains_key(&secret_package.identifier) {\n        return Err(Error::UnknownIdentifier);\n    }\n\n    if round1_packages.len() != (secret_package.max_signers - 1) as usize {\n        return Err(Error::IncorrectNumberOfPackages);\n    }\n',
  'own-identifier check made before the count check')
m('part2_other_error_value', 'benign', 'C08', D,
  '    if round1_packages.contains_key(&secret_package.identifier) {\n        return Err(Error::UnknownIdentifier);\n    }\n\n    for package in round1_packages.values() {',
  '    if round1_packages.contains_key(&secret_package.identifier) {\n        return Err(Error::IncorrectPackage);\n    }\n\n    for package in round1_packages.values() {',
  'contribution under the own identifier refused with another error value')
m('part2_surplus_accepted', 'harmful', 'C08', D,
  '    if round1_packages.len() != (secret_package.max_signers - 1) as usize {\n        return Err(Error::IncorrectNumberOfPackages);\n    }\n\n    if round1_packages.contains_key(&secret_package.identifier) {',
  '    if round1_packages.len() < (secret_package.max_signers - 1) as usize {\n        return Err(Error::IncorrectNumberOfPackages);\n    }\n\n    if round1_packages.contains_key(&secret_package.identifier) {',
  'surplus round-one contribution accepted')
m('part2_own_id_accepted', 'harmful', 'C08', D,
  '    if round1_packages.contains_key(&secret_package.identifier) {\n        return Err(Error::UnknownIdentifier);\n    }\n\n    for package in round1_packages.values() {', '    for package in round1_packages.values() {',
  'contribution under the own identifier accepted')
m('part2_proof_not_verified', 'harmful', 'C08', D,
  '        verify_proof_of_knowledge(\n            ell,\n            &round1_package.commitment,\n            &round1_package.proof_of_knowledge,\n        )?;\n', '',
  'proofs of knowledge not verified')
m('part2_proof_for_other_identifier', 'harmful', 'C08', D,
  '        verify_proof_of_knowledge(\n            ell,', '        verify_proof_of_knowledge(\n            secret_package.identifier,',
  'proof verified for the recipient\'s identifier instead of the sender\'s')

# dkg.rs :: part3
m('part3_guards_exchanged', 'benign', 'C08', D,
  '    if round1_packages.len() != (round2_secret_package.max_signers - 1) as usize {\n        return Err(Error::IncorrectNumberOfPackages);\n    }\n    if round1_packages.contains_key(&round2_secret_package.identifier) {\n        return Err(Error::UnknownIdentifier);\n    }\n',
  '    if round1_packages.contains_key(&round2_secret_package.identifier) {\n        return Err(Error::UnknownIdentifier);\n    }\n    if round1_packages.len() != (round2_secret_package.max_signers - 1) as usize {\n        return Err(Error::IncorrectNumberOfPackages);\n    }\n',
  'own-identifier check made before the count check')
m('part3_extra_early_refusal', 'benign', 'C09', D,
  '    if round1_packages.len() != (round2_secret_package.max_signers - 1) as usize {\n        return Err(Error::IncorrectNumberOfPackages);\n    }\n    if round1_packages.contains_key(&round2_secret_package.identifier) {',
  '    if round2_packages.len() != (round2_secret_package.max_signers - 1) as usize {\n        return Err(Error::IncorrectNumberOfPackages);\n    }\n    if round1_packages.len() != (round2_secret_package.max_signers - 1) as usize {\n        return Err(Error::IncorrectNumberOfPackages);\n    }\n    if round1_packages.contains_key(&round2_secret_package.identifier) {',
  'wrong number of round-two packages refused first (refused later anyway)')
m('part3_wrong_culprit', 'harmful', 'C08', D,
  '                    culprit: Some(*sender_identifier),', '                    culprit: Some(round2_secret_package.identifier),',
  'the recipient is named instead of the sender')
m('part3_redundant_guard_dropped', 'benign', 'C08', D,
  '    if round2_packages.contains_key(&round2_secret_package.identifier) {\n        return Err(Error::UnknownIdentifier);\n    }\n', '',
  'own identifier among the round-two senders no longer refused on its own: still refused (the two sender sets must be equal), other error value')
m('part3_own_id_accepted', 'harmful', 'C08', D,
  '    if round1_packages.contains_key(&round2_secret_package.identifier) {\n        return Err(Error::UnknownIdentifier);\n    }\n    if round2_packages.contains_key(&round2_secret_package.identifier) {\n        return Err(Error::UnknownIdentifier);\n    }\n', '',
  'contributions filed under the own identifier accepted (both guards dropped)')
m('part3_surplus_round1_accepted', 'harmful', 'C08', D,
  '    if round1_packages.len() != (round2_secret_package.max_signers - 1) as usize {\n        return Err(Error::IncorrectNumberOfPackages);\n    }\n    if round1_packages.contains_key(&round2_secret_package.identifier) {',
  '    if round1_packages.len() < (round2_secret_package.max_signers - 1) as usize {\n        return Err(Error::IncorrectNumberOfPackages);\n    }\n    if round1_packages.contains_key(&round2_secret_package.identifier) {',
  'surplus round-one contribution accepted')
m('part3_share_checked_at_sender', 'harmful', 'C09', D,
  '            identifier: round2_secret_package.identifier,\n            signing_share: f_ell_i,', '            identifier: ell,\n            signing_share: f_ell_i,',
  'share verified at the sender\'s identifier (a share computed for another recipient passes)')
m('part3_wrong_sign', 'harmful', 'C07', D,
  '        signing_share = signing_share + f_ell_i.to_scalar();\n    }\n\n    signing_share = signing_share + round2_secret_package.secret_share();\n    let signing_share = SigningShare::new(signing_share);\n\n    // Round 2, Step 4',
  '        signing_share = signing_share - f_ell_i.to_scalar();\n    }\n\n    signing_share = signing_share + round2_secret_package.secret_share();\n    let signing_share = SigningShare::new(signing_share);\n\n    // Round 2, Step 4',
  'received shares subtracted')

# error.rs :: Error::culprits
m('culprits_arms_exchanged', 'benign', 'C08', E,
  '            Error::InvalidSignatureShare { culprits } => culprits.clone(),\n            Error::InvalidProofOfKnowledge { culprit } => vec![*culprit],',
  '            Error::InvalidProofOfKnowledge { culprit } => vec![*culprit],\n            Error::InvalidSignatureShare { culprits } => culprits.clone(),',
  'two match arms exchanged (no behaviour change)')
m('culprits_pok_names_nobody', 'harmful', 'C08', E,
  '            Error::InvalidProofOfKnowledge { culprit } => vec![*culprit],', '            Error::InvalidProofOfKnowledge { culprit } => vec![],',
  'invalid proof of knowledge blames nobody')
m('culprits_sigshare_names_nobody', 'harmful', 'C08', E,
  '            Error::InvalidSignatureShare { culprits } => culprits.clone(),', '            Error::InvalidSignatureShare { culprits } => vec![],',
  'invalid signature share blames nobody')

# ---------------------------------------------------------------------------------------------------------------------
# refresh.rs :: compute_refreshing_shares
m('crs_guards_exchanged', 'benign', 'C10', RF,
  '    let signers = identifiers.len() as u16;\n    validate_num_of_signers(min_signers, signers)?;\n\n    if identifiers\n        .iter()\n        .any(|i| !pub_key_package.verifying_shares().contains_key(i))\n    {\n        return Err(Error::UnknownIdentifier);\n    }\n',
  '    if identifiers\n        .iter()\n        .any(|i| !pub_key_package.verifying_shares().contains_key(i))\n    {\n        return Err(Error::UnknownIdentifier);\n    }\n\n    let signers = identifiers.len() as u16;\n    validate_num_of_signers(min_signers, signers)?;\n',
  'unknown-participant check made before the (n, t) check')
m('crs_other_error_value', 'benign', 'C10', RF,
  '        .ok_or(Error::InvalidMinSigners)?;\n\n    let signers = identifiers.len() as u16;', '        .ok_or(Error::IncorrectNumberOfShares)?;\n\n    let signers = identifiers.len() as u16;',
  'missing threshold record refused with another error value')
m('crs_threshold_defaulted', 'harmful', 'C10', RF,
  '    let min_signers = pub_key_package\n        .min_signers\n        .ok_or(Error::InvalidMinSigners)?;', '    let min_signers = pub_key_package\n        .min_signers\n        .unwrap_or(2);',
  'missing threshold record silently replaced by 2')
m('crs_wrong_sign', 'harmful', 'C10', RF,
  '                    refreshing_verifying_share.to_element() + verifying_share.to_element();', '                    refreshing_verifying_share.to_element() - verifying_share.to_element();',
  'verifying shares updated with the wrong sign')
m('crs_identity_not_stripped', 'harmful', 'C10', RF,
  '        share.commitment.0.remove(0);\n        refreshing_shares_minus_identity.push(share);', '        refreshing_shares_minus_identity.push(share);',
  'identity commitment left in the refreshing shares')

# refresh.rs :: refresh_share
m('rs_guards_exchanged', 'benign', 'C10', RF,
  '    let refreshed_share_package = KeyPackage::<C>::try_from(refreshing_share)?;\n\n    if refreshed_share_package.min_signers() != current_key_package.min_signers() {',
  '    if refreshing_share.commitment.min_signers() != *current_key_package.min_signers() {\n        return Err(Error::InvalidMinSigners);\n    }\n    let refreshed_share_package = KeyPackage::<C>::try_from(refreshing_share)?;\n\n    if refreshed_share_package.min_signers() != current_key_package.min_signers() {',
  'threshold compared before the share is verified')
m('rs_threshold_check_dropped', 'harmful', 'C10', RF,
  '    if refreshed_share_package.min_signers() != current_key_package.min_signers() {\n        return Err(Error::InvalidMinSigners);\n    }\n', '',
  'refresh with another threshold accepted')
m('rs_wrong_sign', 'harmful', 'C10', RF,
  '        refreshed_share_package.signing_share.to_scalar()\n            + current_key_package.signing_share.to_scalar(),', '        refreshed_share_package.signing_share.to_scalar()\n            - current_key_package.signing_share.to_scalar(),',
  'old share subtracted')
m('rs_stale_verifying_share', 'harmful', 'C10', RF,
  '    new_key_package.verifying_share = signing_share.into();\n', '', 'verifying share not re-derived (finding F1 reverted)')

# refresh.rs :: refresh_dkg_part1
m('rp1_extra_early_refusal', 'benign', 'C10', RF,
  '    validate_num_of_signers::<C>(min_signers, max_signers)?;\n', '    if max_signers < min_signers {\n        return Err(Error::InvalidMaxSigners);\n    }\n    validate_num_of_signers::<C>(min_signers, max_signers)?;\n',
  'n < t refused first with another error value')
m('rp1_identity_not_stripped', 'harmful', 'C10', RF,
  '    coeff_comms.remove(0);\n', '', 'identity commitment published')
m('rp1_nonzero_constant_term', 'harmful', 'C10', RF,
  '        scalar: <<C::Group as Group>::Field>::zero(),\n    };\n\n    // Round 1, Step 1', '        scalar: <<C::Group as Group>::Field>::one(),\n    };\n\n    // Round 1, Step 1',
  'refreshing polynomial with constant term 1')

# refresh.rs :: refresh_dkg_part2
m('rp2_other_error_value', 'benign', 'C10', RF,
  '    if round1_packages.len() != (secret_package.max_signers - 1) as usize {\n        return Err(Error::IncorrectNumberOfPackages);', '    if round1_packages.len() != (secret_package.max_signers - 1) as usize {\n        return Err(Error::IncorrectPackage);',
  'wrong number of contributions refused with another error value')
m('rp2_longer_commitment_accepted', 'harmful', 'C10', RF,
  '        if refreshing_share_commitments.clone().len() != secret_package.min_signers as usize {', '        if refreshing_share_commitments.clone().len() < secret_package.min_signers as usize {',
  'contribution for a larger threshold accepted')
m('rp2_missing_contribution_accepted', 'harmful', 'C10', RF,
  '    if round1_packages.len() != (secret_package.max_signers - 1) as usize {\n        return Err(Error::IncorrectNumberOfPackages);', '    if round1_packages.len() > (secret_package.max_signers - 1) as usize {\n        return Err(Error::IncorrectNumberOfPackages);',
  'missing contribution accepted')
m('rp2_identity_left_in_own_commitment', 'harmful', 'C10', RF,
  '    secret_package.commitment.0.remove(0);\n', '', 'own commitment handed on with the identity in front')

# refresh.rs :: refresh_dkg_shares
m('rds_threshold_check_moved', 'benign', 'C10', RF,
  '    if round2_secret_package.min_signers() != old_key_package.min_signers() {\n        return Err(Error::InvalidMinSigners);\n    }\n\n    // Add identity commitment back into the round2_secret_package\n    let mut commitment = round2_secret_package.commitment.0.clone();\n    commitment.insert(0, CoefficientCommitment::new(C::Group::identity()));\n    let round2_secret_package = round2::SecretPackage::new(\n        round2_secret_package.identifier,\n        VerifiableSecretSharingCommitment::<C>::new(commitment),\n        round2_secret_package.secret_share.0,\n        round2_secret_package.min_signers,\n        round2_secret_package.max_signers,\n    );\n\n    // Add identity commitment back into round1_packages\n    let mut new_round_1_packages = BTreeMap::new();\n    for (sender_identifier, round1_package) in round1_packages {\n        // The identity commitment needs to be added to the VSS commitment for every round 1 package\n        let identity_commitment: Vec<CoefficientCommitment<C>> =\n            vec![CoefficientCommitment::new(C::Group::identity())];\n\n        let refreshing_share_commitments: Vec<CoefficientCommitment<C>> = identity_commitment\n            .into_iter()\n            .chain(round1_package.commitment.0.clone())\n            .collect();\n\n        let new_commitments =\n            VerifiableSecretSharingCommitment::<C>::new(refreshing_share_commitments);\n\n        let new_round_1_package = Package {\n            header: round1_package.header,\n            commitment: new_commitments,\n            proof_of_knowledge: round1_package.proof_of_knowledge,\n        };\n\n        new_round_1_packages.insert(*sender_identifier, new_round_1_package);\n    }\n\n    if new_round_1_packages.len() != (round2_secret_package.max_signers - 1) as usize {\n        return Err(Error::IncorrectNumberOfPackages);\n    }\n    if new_round_1_packages.len() != round2_packages.len() {\n        return Err(Error::IncorrectNumberOfPackages);\n    }\n    if new_round_1_packages\n        .keys()\n        .any(|id| !round2_packages.contains_key(id))\n    {\n        return Err(Error::IncorrectPackage);\n    }\n\n    let mut signing_share = <<C::Group as Group>::Field>::zero();\n',
  '\n    // Add identity commitment back into the round2_secret_package\n    let mut commitment = round2_secret_package.commitment.0.clone();\n    commitment.insert(0, CoefficientCommitment::new(C::Group::identity()));\n    let round2_secret_package = round2::SecretPackage::new(\n        round2_secret_package.identifier,\n        VerifiableSecretSharingCommitment::<C>::new(commitment),\n        round2_secret_package.secret_share.0,\n        round2_secret_package.min_signers,\n        round2_secret_package.max_signers,\n    );\n\n    // Add identity commitment back into round1_packages\n    let mut new_round_1_packages = BTreeMap::new();\n    for (sender_identifier, round1_package) in round1_packages {\n        // The identity commitment needs to be added to the VSS commitment for every round 1 package\n        let identity_commitment: Vec<CoefficientCommitment<C>> =\n            vec![CoefficientCommitment::new(C::Group::identity())];\n\n        let refreshing_share_commitments: Vec<CoefficientCommitment<C>> = identity_commitment\n            .into_iter()\n            .chain(round1_package.commitment.0.clone())\n            .collect();\n\n        let new_commitments =\n            VerifiableSecretSharingCommitment::<C>::new(refreshing_share_commitments);\n\n        let new_round_1_package = Package {\n            header: round1_package.header,\n            commitment: new_commitments,\n            proof_of_knowledge: round1_package.proof_of_knowledge,\n        };\n\n        new_round_1_packages.insert(*sender_identifier, new_round_1_package);\n    }\n\n    if new_round_1_packages.len() != (round2_secret_package.max_signers - 1) as usize {\n        return Err(Error::IncorrectNumberOfPackages);\n    }\n    if new_round_1_packages.len() != round2_packages.len() {\n        return Err(Error::IncorrectNumberOfPackages);\n    }\n    if new_round_1_packages\n        .keys()\n        .any(|id| !round2_packages.contains_key(id))\n    {\n        return Err(Error::IncorrectPackage);\n    }\n\n    if round2_secret_package.min_signers() != old_key_package.min_signers() {\n        return Err(Error::InvalidMinSigners);\n    }\n    let mut signing_share = <<C::Group as Group>::Field>::zero();\n',
  'threshold check made after the package-count checks')
m('rds_other_error_value', 'benign', 'C10', RF,
  '                .ok_or(Error::UnknownIdentifier)?', '                .ok_or(Error::IncorrectPackage)?', 'unknown participant refused with another error value')
m('rds_lower_threshold_accepted', 'harmful', 'C10', RF,
  '    if round2_secret_package.min_signers() != old_key_package.min_signers() {', '    if round2_secret_package.min_signers() < old_key_package.min_signers() {',
  'refresh run with a larger threshold accepted')
m('rds_shares_not_verified', 'harmful', 'C10', RF,
  '        let _ = secret_share.verify()?;\n', '', 'refreshing shares not verified (non-zero constant term accepted)')
m('rds_old_share_not_added', 'harmful', 'C10', RF,
  '    signing_share = signing_share + old_signing_share;\n', '', 'old signing share not added')

# ---------------------------------------------------------------------------------------------------------------------
# repairable.rs :: repair_share_part1
m('rep1_guards_exchanged', 'benign', 'C11', RP,
  '    if helpers.len() < *key_package_i.min_signers() as usize {\n        return Err(Error::IncorrectNumberOfIdentifiers);\n    }\n    if !helpers.contains(&key_package_i.identifier) {\n        return Err(Error::UnknownIdentifier);\n    }\n',
  '    if !helpers.contains(&key_package_i.identifier) {\n        return Err(Error::UnknownIdentifier);\n    }\n    if helpers.len() < *key_package_i.min_signers() as usize {\n        return Err(Error::IncorrectNumberOfIdentifiers);\n    }\n',
  'membership check made before the helper-count check')
m('rep1_other_error_value', 'benign', 'C11', RP,
  '    if helpers.len() < *key_package_i.min_signers() as usize {\n        return Err(Error::IncorrectNumberOfIdentifiers);', '    if helpers.len() < *key_package_i.min_signers() as usize {\n        return Err(Error::IncorrectNumberOfShares);',
  'too few helpers refused with another error value')
m('rep1_exactly_t_refused', 'harmful', 'C11', RP,
  '    if helpers.len() < *key_package_i.min_signers() as usize {', '    if helpers.len() <= *key_package_i.min_signers() as usize {', 'exactly t helpers refused')
m('rep1_t_minus_1_accepted', 'harmful', 'C11', RP,
  '    if helpers.len() < *key_package_i.min_signers() as usize {', '    if helpers.len() + 1 < *key_package_i.min_signers() as usize {', 't-1 helpers accepted')
m('rep1_duplicates_accepted', 'harmful', 'C11', RP,
  '    if xset.len() != helpers.len() {\n        return Err(Error::DuplicatedIdentifier);\n    }\n', '', 'duplicate helpers accepted')

# repairable.rs :: compute_last_random_value
m('clrv_extra_early_refusal', 'benign', 'C11', RP,
  '    // Calculate Lagrange Coefficient for helper_i\n    let zeta_i =', '    if !helpers.contains(&key_package_i.identifier) {\n        return Err(Error::IncorrectNumberOfIdentifiers);\n    }\n    // Calculate Lagrange Coefficient for helper_i\n    let zeta_i =',
  'calling helper missing from the set: refused first, with another error value')
m('clrv_wrong_sign', 'harmful', 'C11', RP,
  '        Delta::new(lhs - sum_i_deltas),', '        Delta::new(lhs + sum_i_deltas),', 'correcting value with the wrong sign')
m('clrv_lagrange_at_zero', 'harmful', 'C11', RP,
  '        compute_lagrange_coefficient(helpers, Some(participant), key_package_i.identifier)?;', '        compute_lagrange_coefficient(helpers, None, key_package_i.identifier)?;',
  'Lagrange coefficient evaluated at 0 instead of the repaired identifier')

# repairable.rs :: repair_share_part3
m('rep3_other_error_value', 'benign', 'C11', RP,
  '            .ok_or(Error::InvalidMinSigners)?,', '            .ok_or(Error::IncorrectNumberOfShares)?,', 'missing threshold record refused with another error value')
m('rep3_threshold_defaulted', 'harmful', 'C03', RP,
  '            .ok_or(Error::InvalidMinSigners)?,', '            .unwrap_or(2),', 'missing threshold record silently replaced by 2')
m('rep3_wrong_sign', 'harmful', 'C11', RP,
  '        share = share + s.to_scalar();', '        share = share - s.to_scalar();', 'sigmas subtracted')

# ---------------------------------------------------------------------------------------------------------------------
# frost-rerandomized (unit frost_rerandomized, C17)
m('rr_regen_other_error_value', 'benign', 'C17', RR,
  '        .ok_or(Error::SerializationError)?;\n        Ok(Self(SerializableScalar(randomizer)))\n    }\n}', '        .ok_or(Error::InvalidSignature)?;\n        Ok(Self(SerializableScalar(randomizer)))\n    }\n}',
  'refusing hash reported with another error value')
m('rr_regen_preimage_swapped', 'harmful', 'C17', RR,
  '                randomizer_seed,\n                &encode_group_commitments(signing_commitments)?,\n            ]', '                &encode_group_commitments(signing_commitments)?,\n                randomizer_seed,\n            ]',
  'randomizer = hash(commitments || seed)')
m('rr_regen_doubled', 'harmful', 'C17', RR,
  '        Ok(Self(SerializableScalar(randomizer)))\n    }\n}', '        Ok(Self(SerializableScalar(randomizer + randomizer)))\n    }\n}', 'randomizer doubled')
m('rr_pregen_other_error_value', 'benign', 'C17', RR,
  '        let randomizer =\n            Randomizer::regenerate_from_seed_and_commitments(randomizer_seed, signing_commitments)?;\n        Ok(Self::from_randomizer(group_verifying_key, randomizer))',
  '        let randomizer = match Randomizer::regenerate_from_seed_and_commitments(randomizer_seed, signing_commitments) {\n            Ok(r) => r,\n            Err(_) => return Err(Error::SerializationError),\n        };\n        Ok(Self::from_randomizer(group_verifying_key, randomizer))',
  'every failure to regenerate reported as SerializationError')
m('rr_pregen_wrong_randomizer', 'harmful', 'C17', RR,
  '            Randomizer::regenerate_from_seed_and_commitments(randomizer_seed, signing_commitments)?;\n        Ok(Self::from_randomizer(group_verifying_key, randomizer))',
  '            Randomizer::regenerate_from_seed_and_commitments(randomizer_seed, signing_commitments)?;\n        Ok(Self::from_randomizer(group_verifying_key, Randomizer::from_scalar(randomizer.to_scalar() + randomizer.to_scalar())))',
  'parameters for twice the regenerated randomizer')
m('rr_pregen_fixed_seed', 'harmful', 'C17', RR,
  '            Randomizer::regenerate_from_seed_and_commitments(randomizer_seed, signing_commitments)?;\n        Ok(Self::from_randomizer(group_verifying_key, randomizer))',
  '            Randomizer::regenerate_from_seed_and_commitments(&[], signing_commitments)?;\n        Ok(Self::from_randomizer(group_verifying_key, randomizer))',
  'seed ignored')
m('rr_new_other_error_value', 'benign', 'C17', RR,
  '        Ok((\n            Self::regenerate_from_seed_and_commitments(&randomizer_seed, signing_commitments)?,\n            randomizer_seed,\n        ))',
  '        let randomizer = match Self::regenerate_from_seed_and_commitments(&randomizer_seed, signing_commitments) {\n            Ok(r) => r,\n            Err(_) => return Err(Error::SerializationError),\n        };\n        Ok((randomizer, randomizer_seed))',
  'every failure to derive the randomizer reported as SerializationError')
m('rr_new_seed_not_drawn', 'harmful', 'C17', RR,
  '        rng.fill_bytes(&mut randomizer_seed);\n', '', 'seed is all zeros, nothing drawn')
m('rr_new_other_seed_returned', 'harmful', 'C17', RR,
  '            Self::regenerate_from_seed_and_commitments(&randomizer_seed, signing_commitments)?,\n            randomizer_seed,\n        ))',
  '            Self::regenerate_from_seed_and_commitments(&randomizer_seed, signing_commitments)?,\n            alloc::vec![0; ns],\n        ))',
  'the returned seed is not the one the randomizer was derived from')
m('rr_pnew_other_error_value', 'benign', 'C17', RR,
  '        let (randomizer, randomizer_seed) =\n            Randomizer::new_from_commitments(rng, signing_commitments)?;',
  '        let (randomizer, randomizer_seed) = match Randomizer::new_from_commitments(rng, signing_commitments) {\n            Ok(p) => p,\n            Err(_) => return Err(Error::SerializationError),\n        };',
  'every failure reported as SerializationError')
m('rr_pnew_wrong_randomizer', 'harmful', 'C17', RR,
  '            Self::from_randomizer(group_verifying_key, randomizer),\n            randomizer_seed,',
  '            Self::from_randomizer(group_verifying_key, Randomizer::from_scalar(randomizer.to_scalar() + randomizer.to_scalar())),\n            randomizer_seed,',
  'parameters for twice the randomizer of the returned seed')
m('rr_pnew_other_seed_returned', 'harmful', 'C17', RR,
  '            Self::from_randomizer(group_verifying_key, randomizer),\n            randomizer_seed,\n        ))',
  '            Self::from_randomizer(group_verifying_key, randomizer),\n            alloc::vec![0; 32],\n        ))',
  'a constant seed is returned')
m('rr_sign_extra_early_refusal', 'benign', 'C17', RR,
  '    let randomized_params =\n        RandomizedParams::from_randomizer(key_package.verifying_key(), randomizer);\n',
  '    if signing_package.signing_commitment(key_package.identifier()).is_none() {\n        return Err(Error::MissingCommitment);\n    }\n    let randomized_params =\n        RandomizedParams::from_randomizer(key_package.verifying_key(), randomizer);\n',
  'missing own commitment refused first (refused by core signing anyway; wins over the threshold refusal now)')
m('rr_sign_unrandomized_package', 'harmful', 'C17', RR,
  '    let randomized_key_package = key_package.randomize(&randomized_params)?;\n    frost::round2::sign(signing_package, signer_nonces, &randomized_key_package)\n}\n\n/// Re-randomized FROST signing using the given `randomizer_seed`',
  '    let randomized_key_package = key_package.randomize(&randomized_params)?;\n    frost::round2::sign(signing_package, signer_nonces, key_package)\n}\n\n/// Re-randomized FROST signing using the given `randomizer_seed`',
  'signs with the ORIGINAL key package')
m('rr_sign_params_for_other_key', 'harmful', 'C17', RR,
  '        RandomizedParams::from_randomizer(key_package.verifying_key(), randomizer);\n',
  '        RandomizedParams::from_randomizer(&frost::VerifyingKey::new(key_package.verifying_share().to_element()), randomizer);\n',
  'randomized group key derived from the verifying SHARE')
m('rr_signseed_extra_early_refusal', 'benign', 'C17', RR,
  '    let randomized_params = RandomizedParams::regenerate_from_seed_and_commitments(\n        key_package.verifying_key(),\n        randomizer_seed,',
  '    if signing_package.signing_commitment(key_package.identifier()).is_none() {\n        return Err(Error::MissingCommitment);\n    }\n    let randomized_params = RandomizedParams::regenerate_from_seed_and_commitments(\n        key_package.verifying_key(),\n        randomizer_seed,',
  'missing own commitment refused first')
m('rr_signseed_unrandomized_package', 'harmful', 'C17', RR,
  '    let randomized_key_package = key_package.randomize(&randomized_params)?;\n    frost::round2::sign(signing_package, signer_nonces, &randomized_key_package)\n}\n\n/// Re-randomized FROST signature share aggregation',
  '    let randomized_key_package = key_package.randomize(&randomized_params)?;\n    frost::round2::sign(signing_package, signer_nonces, key_package)\n}\n\n/// Re-randomized FROST signature share aggregation',
  'signs with the ORIGINAL key package')
m('rr_signseed_seed_ignored', 'harmful', 'C17', RR,
  '        key_package.verifying_key(),\n        randomizer_seed,\n        signing_package.signing_commitments(),', '        key_package.verifying_key(),\n        &[],\n        signing_package.signing_commitments(),',
  'seed ignored')
m('rr_agg_extra_early_refusal', 'benign', 'C17', RR,
  '    let randomized_public_key_package = pubkeys.randomize(randomized_params)?;\n    frost::aggregate(',
  '    if let Some(min_signers) = pubkeys.min_signers() {\n        if signature_shares.len() < min_signers as usize {\n            return Err(Error::IncorrectNumberOfShares);\n        }\n    }\n    let randomized_public_key_package = pubkeys.randomize(randomized_params)?;\n    frost::aggregate(',
  'too few shares refused first (refused by core aggregation anyway; wins over the participant-set refusal now)')
m('rr_agg_unrandomized_package', 'harmful', 'C17', RR,
  '    frost::aggregate(\n        signing_package,\n        signature_shares,\n        &randomized_public_key_package,\n    )', '    frost::aggregate(\n        signing_package,\n        signature_shares,\n        pubkeys,\n    )',
  'aggregates with the ORIGINAL public key package')
m('rr_agg_params_ignored', 'harmful', 'C17', RR,
  '    let randomized_public_key_package = pubkeys.randomize(randomized_params)?;\n    frost::aggregate(',
  '    let randomized_public_key_package = pubkeys.randomize(&RandomizedParams::from_randomizer(pubkeys.verifying_key(), Randomizer::from_scalar(<<C::Group as Group>::Field as Field>::one())))?;\n    frost::aggregate(',
  'aggregates with parameters for the randomizer 1')
m('rr_aggc_extra_early_refusal', 'benign', 'C17', RR,
  '    let randomized_public_key_package = pubkeys.randomize(randomized_params)?;\n    frost::aggregate_custom(',
  '    if let Some(min_signers) = pubkeys.min_signers() {\n        if signature_shares.len() < min_signers as usize {\n            return Err(Error::IncorrectNumberOfShares);\n        }\n    }\n    let randomized_public_key_package = pubkeys.randomize(randomized_params)?;\n    frost::aggregate_custom(',
  'too few shares refused first')
m('rr_aggc_unrandomized_package', 'harmful', 'C17', RR,
  '        signature_shares,\n        &randomized_public_key_package,\n        cheater_detection,', '        signature_shares,\n        pubkeys,\n        cheater_detection,',
  'aggregates with the ORIGINAL public key package')
m('rr_aggc_detection_disabled', 'harmful', 'C17', RR,
  '        &randomized_public_key_package,\n        cheater_detection,\n    )', '        &randomized_public_key_package,\n        CheaterDetection::Disabled,\n    )',
  'cheater detection silently disabled')

# ---------------------------------------------------------------------------------------------------------------------
# codecs (C12; checked with VERIF_NO_RT=1, so every C12 run also carries the reason "concrete validation runner unavailable":
# a benign mutant is one whose only OTHER reason is "exact-result clause .. fails while every property-level clause holds")
m('cd_sk_zero_other_error_value', 'benign', 'C12', SK,
  '            return Err(Error::MalformedSigningKey);', '            return Err(FieldError::InvalidZeroScalar.into());', 'zero signing key refused with another error value')
m('cd_sk_zero_accepted', 'harmful', 'C12', SK,
  '        if scalar == <<C::Group as Group>::Field as Field>::zero() {\n            return Err(Error::MalformedSigningKey);\n        }\n', '', 'zero signing key accepted')
m('cd_sk_other_scalar', 'harmful', 'C12', SK,
  '        Ok(Self { scalar })\n    }\n\n    /// Return the underlying scalar.', '        Ok(Self { scalar: scalar + scalar })\n    }\n\n    /// Return the underlying scalar.', 'from_scalar stores twice the scalar')
m('cd_sk_deserialize_skips_zero_check', 'harmful', 'C12', SK,
  '        Self::from_scalar(SerializableScalar::deserialize(bytes)?.0)', '        Ok(Self { scalar: SerializableScalar::deserialize(bytes)?.0 })', 'SigningKey::deserialize accepts the zero key')
m('cd_sk_deserialize_other_error_value', 'benign', 'C12', SK,
  '        Self::from_scalar(SerializableScalar::deserialize(bytes)?.0)',
  '        match SerializableScalar::<C>::deserialize(bytes) {\n            Ok(s) => Self::from_scalar(s.0),\n            Err(_) => Err(Error::MalformedSigningKey),\n        }',
  'every undecodable key string reported as MalformedSigningKey')
m('cd_sk_deserialize_other_value', 'harmful', 'C12', SK,
  '        Self::from_scalar(SerializableScalar::deserialize(bytes)?.0)', '        Self::from_scalar(SerializableScalar::deserialize(bytes)?.0 + <<C::Group as Group>::Field as Field>::one())', 'decoded key is off by one')
m('cd_id_zero_other_error_value', 'benign', 'C12', IDF,
  '            Err(FieldError::InvalidZeroScalar.into())\n        } else {\n            Ok(Self(SerializableScalar(scalar)))', '            Err(Error::MalformedIdentifier)\n        } else {\n            Ok(Self(SerializableScalar(scalar)))', 'zero identifier refused with another error value')
m('cd_id_zero_accepted', 'harmful', 'C12', IDF,
  '        if scalar == <<C::Group as Group>::Field>::zero() {\n            Err(FieldError::InvalidZeroScalar.into())\n        } else {\n            Ok(Self(SerializableScalar(scalar)))\n        }', '        Ok(Self(SerializableScalar(scalar)))',
  'zero identifier accepted')
m('cd_id_check_inverted', 'harmful', 'C12', IDF,
  '        if scalar == <<C::Group as Group>::Field>::zero() {\n            Err(FieldError', '        if scalar != <<C::Group as Group>::Field>::zero() {\n            Err(FieldError', 'only the zero identifier accepted')
m('cd_id_derive_other_error_value', 'benign', 'C12', IDF,
  '.ok_or(Error::IdentifierDerivationNotSupported)?;', '.ok_or(Error::MalformedIdentifier)?;', 'missing HID reported with another error value')
m('cd_id_derive_skips_zero_check', 'harmful', 'C12', IDF,
  '        let scalar = C::HID(s).ok_or(Error::IdentifierDerivationNotSupported)?;\n        Self::new(scalar)', '        let scalar = C::HID(s).ok_or(Error::IdentifierDerivationNotSupported)?;\n        Ok(Self(SerializableScalar(scalar)))',
  'derive accepts a zero hash')
m('cd_id_derive_other_value', 'harmful', 'C12', IDF,
  '        let scalar = C::HID(s).ok_or(Error::IdentifierDerivationNotSupported)?;\n        Self::new(scalar)', '        let scalar = C::HID(s).ok_or(Error::IdentifierDerivationNotSupported)?;\n        Self::new(scalar + scalar)',
  'derive returns twice the hash')
m('cd_id_deserialize_other_error_value', 'benign', 'C12', IDF,
  '        Self::new(SerializableScalar::deserialize(bytes)?.0)',
  '        match SerializableScalar::<C>::deserialize(bytes) {\n            Ok(s) => Self::new(s.0),\n            Err(_) => Err(Error::MalformedIdentifier),\n        }',
  'every undecodable identifier string reported as MalformedIdentifier')
m('cd_id_deserialize_skips_zero_check', 'harmful', 'C12', IDF,
  '        Self::new(SerializableScalar::deserialize(bytes)?.0)', '        Ok(Self(SerializableScalar::deserialize(bytes)?))', 'Identifier::deserialize accepts zero')
m('cd_id_deserialize_other_value', 'harmful', 'C12', IDF,
  '        Self::new(SerializableScalar::deserialize(bytes)?.0)', '        Self::new(SerializableScalar::deserialize(bytes)?.0 + <<C::Group as Group>::Field>::one())', 'decoded identifier is off by one')
m('cd_sig_wrong_len_other_error_value', 'benign', 'C12', SIG,
  '        if bytes.len() != R_bytes_len + z_bytes_len {\n            return Err(Error::MalformedSignature);', '        if bytes.len() != R_bytes_len + z_bytes_len {\n            return Err(Error::InvalidSignature);',
  'wrong-length signature refused with another error value')
m('cd_sig_z_decoded_first', 'benign', 'C12', SIG,
  '        Ok(Self {\n            R: <C::Group>::deserialize(&R_serialization)?,\n            z: <<C::Group as Group>::Field>::deserialize(&z_serialization)?,\n        })',
  '        let z = <<C::Group as Group>::Field>::deserialize(&z_serialization)?;\n        let R = <C::Group>::deserialize(&R_serialization)?;\n        Ok(Self { R, z })',
  'z decoded before R (other error when both halves are bad)')
m('cd_sig_accepts_longer', 'harmful', 'C12', SIG,
  '        if bytes.len() != R_bytes_len + z_bytes_len {', '        if bytes.len() < R_bytes_len + z_bytes_len {', 'trailing bytes accepted')
m('cd_sig_z_wrong_offset', 'harmful', 'C12', SIG,
  '                .get(R_bytes_len..R_bytes_len + z_bytes_len)', '                .get(0..z_bytes_len)', 'z taken from offset 0')
m('cd_sigser_other_error_value', 'benign', 'C12', SIG,
  '        let R_serialization = <C::Group>::serialize(&self.R)?;\n        let z_serialization = <<C::Group as Group>::Field>::serialize(&self.z);\n\n        let R_bytes',
  '        let R_serialization = match <C::Group>::serialize(&self.R) {\n            Ok(s) => s,\n            Err(_) => return Err(Error::MalformedSignature),\n        };\n        let z_serialization = <<C::Group as Group>::Field>::serialize(&self.z);\n\n        let R_bytes',
  'identity R refused with another error value')
m('cd_sigser_z_then_R', 'harmful', 'C12', SIG,
  '        bytes.extend(R_bytes);\n        bytes.extend(z_bytes);', '        bytes.extend(z_bytes);\n        bytes.extend(R_bytes);', 'signature encoded as z || R')
m('cd_sigser_other_z', 'harmful', 'C12', SIG,
  '        let z_serialization = <<C::Group as Group>::Field>::serialize(&self.z);\n\n        let R_bytes', '        let z_serialization = <<C::Group as Group>::Field>::serialize(&(self.z + self.z));\n\n        let R_bytes', 'signature encoded with twice the response')
m('cd_vss_whole_other_error_value', 'benign', 'C12', K,
  '            return Err(Error::InvalidCoefficient);', '            return Err(Error::IncorrectNumberOfCommitments);', 'trailing bytes refused with another error value')
m('cd_vss_whole_remainder_ignored', 'harmful', 'C12', K,
  '        if !serialized_coefficient_commitments.remainder().is_empty() {\n            return Err(Error::InvalidCoefficient);\n        }\n', '', 'trailing bytes ignored')
m('cd_vss_whole_check_inverted', 'harmful', 'C12', K,
  '        if !serialized_coefficient_commitments.remainder().is_empty() {', '        if serialized_coefficient_commitments.remainder().is_empty() {', 'only strings WITH trailing bytes accepted')
m('cd_share_other_error_value', 'benign', 'C12', K,
  '        Ok(Self(SerializableScalar::deserialize(bytes)?))\n    }\n\n    /// Serialize to bytes\n    pub fn serialize(&self) -> Vec<u8> {\n        self.0.serialize()\n    }\n\n    /// Computes the signing share from a list of coefficients.',
  '        match SerializableScalar::<C>::deserialize(bytes) {\n            Ok(s) => Ok(Self(s)),\n            Err(_) => Err(Error::MalformedSigningKey),\n        }\n    }\n\n    /// Serialize to bytes\n    pub fn serialize(&self) -> Vec<u8> {\n        self.0.serialize()\n    }\n\n    /// Computes the signing share from a list of coefficients.',
  'every undecodable share string reported as MalformedSigningKey')
m('cd_share_other_value', 'harmful', 'C12', K,
  '        Ok(Self(SerializableScalar::deserialize(bytes)?))\n    }\n\n    /// Serialize to bytes\n    pub fn serialize(&self) -> Vec<u8> {\n        self.0.serialize()\n    }\n\n    /// Computes the signing share from a list of coefficients.',
  '        Ok(Self(SerializableScalar(SerializableScalar::deserialize(bytes)?.0 + <<C::Group as Group>::Field>::one())))\n    }\n\n    /// Serialize to bytes\n    pub fn serialize(&self) -> Vec<u8> {\n        self.0.serialize()\n    }\n\n    /// Computes the signing share from a list of coefficients.',
  'decoded share is off by one')
m('cd_share_garbage_accepted', 'harmful', 'C12', K,
  '        Ok(Self(SerializableScalar::deserialize(bytes)?))\n    }\n\n    /// Serialize to bytes\n    pub fn serialize(&self) -> Vec<u8> {\n        self.0.serialize()\n    }\n\n    /// Computes the signing share from a list of coefficients.',
  '        match SerializableScalar::<C>::deserialize(bytes) {\n            Ok(s) => Ok(Self(s)),\n            Err(_) => Ok(Self(SerializableScalar(<<C::Group as Group>::Field>::one()))),\n        }\n    }\n\n    /// Serialize to bytes\n    pub fn serialize(&self) -> Vec<u8> {\n        self.0.serialize()\n    }\n\n    /// Computes the signing share from a list of coefficients.',
  'undecodable strings decode to 1')
m('cd_vk_other_error_value', 'benign', 'C12', VK,
  '        Ok(Self::new(SerializableElement::deserialize(bytes)?.0))',
  '        match SerializableElement::<C>::deserialize(bytes) {\n            Ok(e) => Ok(Self::new(e.0)),\n            Err(_) => Err(Error::MalformedVerifyingKey),\n        }',
  'every undecodable key string reported as MalformedVerifyingKey')
m('cd_vk_other_value', 'harmful', 'C12', VK,
  '        Ok(Self::new(SerializableElement::deserialize(bytes)?.0))', '        Ok(Self::new(SerializableElement::deserialize(bytes)?.0 + <C::Group>::generator()))', 'decoded key shifted by G')
m('cd_vk_garbage_accepted', 'harmful', 'C12', VK,
  '        Ok(Self::new(SerializableElement::deserialize(bytes)?.0))',
  '        match SerializableElement::<C>::deserialize(bytes) {\n            Ok(e) => Ok(Self::new(e.0)),\n            Err(_) => Ok(Self::new(<C::Group>::generator())),\n        }',
  'undecodable strings decode to G')
m('cd_scalar_other_value', 'harmful', 'C12', SER,
  '        let scalar = <<C::Group as Group>::Field>::deserialize(&serialized)?;\n        Ok(Self(scalar))', '        let scalar = <<C::Group as Group>::Field>::deserialize(&serialized)?;\n        Ok(Self(scalar + scalar))',
  'decoded scalar doubled')
m('cd_scalar_garbage_accepted', 'harmful', 'C12', SER,
  '        let scalar = <<C::Group as Group>::Field>::deserialize(&serialized)?;\n        Ok(Self(scalar))',
  '        let scalar = match <<C::Group as Group>::Field>::deserialize(&serialized) {\n            Ok(s) => s,\n            Err(_) => <<C::Group as Group>::Field>::zero(),\n        };\n        Ok(Self(scalar))',
  'out-of-range scalar strings decode to 0')
m('cd_scalar_decode_error_other_value', 'benign', 'C12', SER,
  '        let scalar = <<C::Group as Group>::Field>::deserialize(&serialized)?;\n        Ok(Self(scalar))',
  '        let scalar = match <<C::Group as Group>::Field>::deserialize(&serialized) {\n            Ok(s) => s,\n            Err(_) => return Err(Error::MalformedSigningKey),\n        };\n        Ok(Self(scalar))',
  'out-of-range scalar refused with another error value')
m('cd_element_other_value', 'harmful', 'C12', SER,
  '        let scalar = <C::Group as Group>::deserialize(&serialized)?;\n        Ok(Self(scalar))', '        let scalar = <C::Group as Group>::deserialize(&serialized)?;\n        Ok(Self(scalar + scalar))',
  'decoded element doubled')
m('cd_element_garbage_accepted', 'harmful', 'C12', SER,
  '        let scalar = <C::Group as Group>::deserialize(&serialized)?;\n        Ok(Self(scalar))',
  '        let scalar = match <C::Group as Group>::deserialize(&serialized) {\n            Ok(s) => s,\n            Err(_) => <C::Group as Group>::generator(),\n        };\n        Ok(Self(scalar))',
  'undecodable element strings decode to G')
m('cd_element_decode_error_other_value', 'benign', 'C12', SER,
  '        let scalar = <C::Group as Group>::deserialize(&serialized)?;\n        Ok(Self(scalar))',
  '        let scalar = match <C::Group as Group>::deserialize(&serialized) {\n            Ok(s) => s,\n            Err(_) => return Err(Error::MalformedVerifyingKey),\n        };\n        Ok(Self(scalar))',
  'undecodable element refused with another error value')

# batch.rs (C19)
m('bt_empty_other_error_value', 'benign', 'C19', B,
  '        if n == 0 {\n            return Err(Error::InvalidSignature);', '        if n == 0 {\n            return Err(Error::IncorrectNumberOfShares);', 'empty batch refused with another error value')
m('bt_failed_other_error_value', 'benign', 'C19', B,
  '            Ok(())\n        } else {\n            Err(Error::InvalidSignature)\n        }', '            Ok(())\n        } else {\n            Err(Error::MalformedSignature)\n        }', 'failing batch refused with another error value')
m('bt_empty_accepted', 'harmful', 'C19', B,
  '        if n == 0 {\n            return Err(Error::InvalidSignature);\n        }\n', '', 'empty batch accepted')
m('bt_no_cofactor', 'harmful', 'C19', B,
  '        if (check * <C::Group>::cofactor()) == <C::Group>::identity() {', '        if check == <C::Group>::identity() {', 'cofactor not cleared')
m('bt_blinder_reused', 'harmful', 'C16', B,
  '            VK_coeffs.push(<<C::Group as Group>::Field>::zero() + (blind * item.c.0));', '            VK_coeffs.push(<<C::Group as Group>::Field>::zero() + item.c.0);', 'key coefficient without the blinder')
m('bt_item_other_error_value', 'benign', 'C19', B,
  '        let c = <C>::challenge(&sig.R, &vk, &msg)?;\n\n        Ok(Self {',
  '        let c = match <C>::challenge(&sig.R, &vk, &msg) {\n            Ok(c) => c,\n            Err(_) => return Err(Error::InvalidSignature),\n        };\n\n        Ok(Self {',
  'missing challenge reported as InvalidSignature')
m('bt_item_challenge_for_other_key', 'harmful', 'C19', B,
  '        let c = <C>::challenge(&sig.R, &vk, &msg)?;\n\n        Ok(Self {', '        let c = <C>::challenge(&sig.R, &VerifyingKey::new(sig.R), &msg)?;\n\n        Ok(Self {',
  'challenge computed for the key R')
m('bt_item_keeps_other_signature', 'harmful', 'C19', B,
  '            vk: *vk,\n            sig: *sig,\n            c,', '            vk: *vk,\n            sig: Signature { R: sig.R, z: sig.z + sig.z },\n            c,', 'item stores a different response')

# keys.rs :: generate_secret_polynomial (internal helper with two refusals in a row)
m('gsp_guards_exchanged', 'benign', 'C06', K,
  '    validate_num_of_signers(min_signers, max_signers)?;\n\n    if coefficients.len() != min_signers as usize - 1 {\n        return Err(Error::InvalidCoefficients);\n    }\n',
  '    if min_signers < 1 || coefficients.len() != min_signers as usize - 1 {\n        return Err(Error::InvalidCoefficients);\n    }\n\n    validate_num_of_signers(min_signers, max_signers)?;\n',
  'degree check made before the (n, t) check')
m('gsp_degree_guard_weakened', 'harmful', 'C03', K,
  '    if coefficients.len() != min_signers as usize - 1 {\n        return Err(Error::InvalidCoefficients);', '    if coefficients.len() > min_signers as usize - 1 {\n        return Err(Error::InvalidCoefficients);',
  'polynomial of lower degree accepted')
m('gsp_secret_appended', 'harmful', 'C06', K,
  '    coefficients.insert(0, secret.scalar);', '    coefficients.push(secret.scalar);', 'the secret becomes the LEADING coefficient')


# ---------------------------------------------------------------------------------------------------------------------
# the remaining one-line codec wrappers (C12): per wrapper one benign (another error value) and two harmful (another value; garbage accepted /
# identity encoded).  `old` = (text, n, total): the n-th of `total` occurrences of the text in the file.
SC = '        Ok(Self(SerializableScalar::deserialize(bytes)?))'
EL = '        Ok(Self(SerializableElement::deserialize(bytes)?))'
for (nm, f, n, tot) in (('nonce', R1, 0, 1), ('delta', RP, 0, 2), ('sigma', RP, 1, 2)):
    m('cw_%s_other_error_value' % nm, 'benign', 'C12', f, (SC, n, tot),
      '        match SerializableScalar::<C>::deserialize(bytes) {\n            Ok(s) => Ok(Self(s)),\n            Err(_) => Err(Error::MalformedSigningKey),\n        }',
      'every undecodable string reported as MalformedSigningKey')
    m('cw_%s_other_value' % nm, 'harmful', 'C12', f, (SC, n, tot),
      '        Ok(Self(SerializableScalar(SerializableScalar::<C>::deserialize(bytes)?.0 + <<C::Group as Group>::Field>::one())))', 'decoded value is off by one')
    m('cw_%s_garbage_accepted' % nm, 'harmful', 'C12', f, (SC, n, tot),
      '        match SerializableScalar::<C>::deserialize(bytes) {\n            Ok(s) => Ok(Self(s)),\n            Err(_) => Ok(Self(SerializableScalar(<<C::Group as Group>::Field>::one()))),\n        }',
      'undecodable strings decode to 1')
SS = '            share: SerializableScalar::deserialize(bytes)?,'
m('cw_sigshare_other_error_value', 'benign', 'C12', R2, SS,
  '            share: match SerializableScalar::<C>::deserialize(bytes) {\n                Ok(s) => s,\n                Err(_) => return Err(Error::MalformedSignature),\n            },',
  'every undecodable string reported as MalformedSignature')
m('cw_sigshare_other_value', 'harmful', 'C12', R2, SS,
  '            share: SerializableScalar(SerializableScalar::<C>::deserialize(bytes)?.0 + <<C::Group as Group>::Field>::one()),', 'decoded share is off by one')
m('cw_sigshare_garbage_accepted', 'harmful', 'C12', R2, SS,
  '            share: match SerializableScalar::<C>::deserialize(bytes) {\n                Ok(s) => s,\n                Err(_) => SerializableScalar(<<C::Group as Group>::Field>::one()),\n            },',
  'undecodable strings decode to 1')
for (nm, f, n, tot) in (('vshare', K, 0, 2), ('coeffcomm', K, 1, 2), ('noncecomm', R1, 0, 1)):
    m('cw_%s_other_error_value' % nm, 'benign', 'C12', f, (EL, n, tot),
      '        match SerializableElement::<C>::deserialize(bytes) {\n            Ok(e) => Ok(Self(e)),\n            Err(_) => Err(Error::MalformedVerifyingKey),\n        }',
      'every undecodable string reported as MalformedVerifyingKey')
    m('cw_%s_other_value' % nm, 'harmful', 'C12', f, (EL, n, tot),
      '        Ok(Self(SerializableElement(SerializableElement::<C>::deserialize(bytes)?.0 + <C::Group>::generator())))', 'decoded element shifted by G')
    m('cw_%s_garbage_accepted' % nm, 'harmful', 'C12', f, (EL, n, tot),
      '        match SerializableElement::<C>::deserialize(bytes) {\n            Ok(e) => Ok(Self(e)),\n            Err(_) => Ok(Self(SerializableElement(<C::Group>::generator()))),\n        }',
      'undecodable strings decode to G')
# identity-refusing encoders
ES = '        self.0.serialize()\n'
for (nm, f, n, tot) in (('vshare', K, 1, 3), ('coeffcomm', K, 2, 3), ('noncecomm', R1, 1, 2)):
    m('cw_%s_ser_other_error_value' % nm, 'benign', 'C12', f, (ES, n, tot),
      '        match self.0.serialize() {\n            Ok(v) => Ok(v),\n            Err(_) => Err(Error::MalformedVerifyingKey),\n        }\n', 'identity refused with another error value')
    m('cw_%s_ser_other_value' % nm, 'harmful', 'C12', f, (ES, n, tot),
      '        SerializableElement::<C>(self.0.0 + self.0.0).serialize()\n', 'twice the element is encoded')
    m('cw_%s_ser_identity_encoded' % nm, 'harmful', 'C12', f, (ES, n, tot),
      '        match self.0.serialize() {\n            Ok(v) => Ok(v),\n            Err(_) => Ok(Vec::new()),\n        }\n', 'the identity is encoded as the empty string')
m('cw_vk_ser_other_error_value', 'benign', 'C12', VK, '        self.element.serialize()\n',
  '        match self.element.serialize() {\n            Ok(v) => Ok(v),\n            Err(_) => Err(Error::MalformedVerifyingKey),\n        }\n', 'identity refused with another error value')
m('cw_vk_ser_other_value', 'harmful', 'C12', VK, '        self.element.serialize()\n',
  '        SerializableElement::<C>(self.element.0 + self.element.0).serialize()\n', 'twice the element is encoded')
m('cw_vk_ser_identity_encoded', 'harmful', 'C12', VK, '        self.element.serialize()\n',
  '        match self.element.serialize() {\n            Ok(v) => Ok(v),\n            Err(_) => Ok(Vec::new()),\n        }\n', 'the identity is encoded as the empty string')
# Signature::serialize / deserialize (hook calls) and the default hook bodies
m('cw_sig_ser_other_error_value', 'benign', 'C12', SIG, '        <C>::serialize_signature(self)\n',
  '        match <C>::serialize_signature(self) {\n            Ok(v) => Ok(v),\n            Err(_) => Err(Error::MalformedSignature),\n        }\n', 'identity R refused with another error value')
m('cw_sig_ser_other_value', 'harmful', 'C12', SIG, '        <C>::serialize_signature(self)\n',
  '        <C>::serialize_signature(&Signature { R: self.R, z: self.z + self.z })\n', 'another response is encoded')
m('cw_sig_ser_identity_encoded', 'harmful', 'C12', SIG, '        <C>::serialize_signature(self)\n',
  '        match <C>::serialize_signature(self) {\n            Ok(v) => Ok(v),\n            Err(_) => Ok(Vec::new()),\n        }\n', 'identity R encoded as the empty string')
m('cw_sig_deser_other_error_value', 'benign', 'C12', SIG, '        C::deserialize_signature(bytes)\n',
  '        match C::deserialize_signature(bytes) {\n            Ok(s) => Ok(s),\n            Err(_) => Err(Error::InvalidSignature),\n        }\n', 'every undecodable string reported as InvalidSignature')
m('cw_sig_deser_other_value', 'harmful', 'C12', SIG, '        C::deserialize_signature(bytes)\n',
  '        match C::deserialize_signature(bytes) {\n            Ok(s) => Ok(Signature { R: s.R, z: s.z + s.z }),\n            Err(e) => Err(e),\n        }\n', 'decoded response doubled')
m('cw_sig_deser_garbage_accepted', 'harmful', 'C12', SIG, '        C::deserialize_signature(bytes)\n',
  '        match C::deserialize_signature(bytes) {\n            Ok(s) => Ok(s),\n            Err(_) => Ok(Signature { R: <C::Group>::generator(), z: <<C::Group as Group>::Field>::zero() }),\n        }\n', 'undecodable strings decode to (G, 0)')
T = 'frost-core/src/traits.rs'
m('cw_hook_ser_other_error_value', 'benign', 'C12', T, '        signature.default_serialize()\n',
  '        match signature.default_serialize() {\n            Ok(v) => Ok(v),\n            Err(_) => Err(Error::MalformedSignature),\n        }\n', 'default hook: identity R refused with another error value')
m('cw_hook_ser_identity_encoded', 'harmful', 'C12', T, '        signature.default_serialize()\n',
  '        match signature.default_serialize() {\n            Ok(v) => Ok(v),\n            Err(_) => Ok(Vec::new()),\n        }\n', 'default hook: identity R encoded as the empty string')
m('cw_hook_ser_other_value', 'harmful', 'C12', T, '        signature.default_serialize()\n',
  '        Signature::<Self> { R: signature.R, z: signature.z + signature.z }.default_serialize()\n', 'default hook: another response is encoded')
m('cw_hook_deser_other_error_value', 'benign', 'C12', T, '        Signature::<Self>::default_deserialize(bytes)\n',
  '        match Signature::<Self>::default_deserialize(bytes) {\n            Ok(s) => Ok(s),\n            Err(_) => Err(Error::InvalidSignature),\n        }\n', 'default hook: every undecodable string reported as InvalidSignature')
m('cw_hook_deser_garbage_accepted', 'harmful', 'C12', T, '        Signature::<Self>::default_deserialize(bytes)\n',
  '        match Signature::<Self>::default_deserialize(bytes) {\n            Ok(s) => Ok(s),\n            Err(_) => Ok(Signature { R: <Self::Group>::generator(), z: <<Self::Group as Group>::Field>::zero() }),\n        }\n', 'default hook: undecodable strings decode to (G, 0)')
m('cw_hook_deser_other_value', 'harmful', 'C12', T, '        Signature::<Self>::default_deserialize(bytes)\n',
  '        match Signature::<Self>::default_deserialize(bytes) {\n            Ok(s) => Ok(Signature { R: s.R, z: s.z + s.z }),\n            Err(e) => Err(e),\n        }\n', 'default hook: decoded response doubled')
