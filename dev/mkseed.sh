#!/bin/bash
# dev helper: prepare a scratch worktree and a prompt for a seeding agent.  usage: [SEED_PROMPT=file] [SUFFIX=b] dev/mkseed.sh <ID> [N]
ID=$1; N=${2:-3}; W=/tmp/wt/$ID$SUFFIX
mkdir -p /tmp/wt
[ -f /tmp/wt/SEED_PROMPT.txt ] || cp /verif/dev/SEED_PROMPT.txt /tmp/wt/SEED_PROMPT.txt
git -C /repo worktree remove --force $W 2>/dev/null; rm -rf $W
git -C /repo worktree add -q --detach $W HEAD || exit 3
cp -r /repo/target $W/target
python3 - "$ID" "$N" "$W" "${SEED_PROMPT:-/tmp/wt/SEED_PROMPT.txt}" <<'PY'
import json, sys
pid, n, wt, tmpl = sys.argv[1:5]
for l in open('/verif/properties.jsonl'):
    d = json.loads(l)
    if d['id'] == pid:
        prop = '%s: %s\n\n%s\n\nQuantifier: %s\n' % (pid, d.get('title', ''), d.get('statement', ''), (lambda q: q.get('text') if isinstance(q, dict) else q)(d.get('quantifier', '')))
t = open(tmpl).read().replace('{WT}', wt).replace('{PROP}', prop).replace('{N}', n).replace('{ID}', pid)
open(wt + '.prompt.txt', 'w').write(t)
PY
echo $W.prompt.txt
