#!/usr/bin/env python3
"""dev helper: apply BENIGN edits (the property still holds) to a scratch copy of /repo and run the related check: the verdict must be OK or
UNDECIDED, never VIOLATION.  usage: dev/benign.py [name ...]"""
import os, re, shutil, subprocess, sys, tempfile, json
V = os.path.dirname(os.path.dirname(os.path.abspath(__file__)))
EDITS = [
  # (name, property, file, old, new)
  ('comment_in_aggregate', 'C04', 'frost-core/src/lib.rs', "    let mut z = <<C::Group as Group>::Field>::zero();\n", "    // running sum of the shares\n    let mut z = <<C::Group as Group>::Field>::zero();\n\n"),
  ('rename_local_z', 'C04', 'frost-core/src/lib.rs', None, None),   # handled below
  ('swap_operands_agg', 'C04', 'frost-core/src/lib.rs', "z = z + signature_share.to_scalar();", "z = signature_share.to_scalar() + z;"),
  ('swap_operands_verify_share', 'C04', 'frost-core/src/round2.rs', "(verifying_share.to_element() * challenge.0 * lambda_i)", "(verifying_share.to_element() * (lambda_i * challenge.0))"),
  ('reorder_independent_lets_sign', 'C05', 'frost-core/src/round2.rs', None, None),
  ('unused_new_helper', 'C01', 'frost-core/src/lib.rs', "/// The type of cheater detection to use.", "#[allow(dead_code)]\nfn unused_helper_for_test(a: u16, b: u16) -> bool { a < b }\n\n/// The type of cheater detection to use."),
  ('is_empty_instead_of_len', 'C04', 'frost-core/src/lib.rs', "if !all_culprits.is_empty() {", "if all_culprits.len() > 0 {"),
  ('swap_operands_lagrange', 'C11', 'frost-core/src/lib.rs', "            num = num * x_j.to_scalar();", "            num = x_j.to_scalar() * num;"),
  ('swap_operands_lagrange_den', 'C11', 'frost-core/src/lib.rs', "            den = den * (x_j.to_scalar() - x_i.to_scalar());", "            den = (x_j.to_scalar() - x_i.to_scalar()) * den;"),
  ('swap_operands_polynomial', 'C06', 'frost-core/src/keys.rs', "value = value + *coeff;", "value = *coeff + value;"),
  ('extra_defensive_guard_part3', 'C08', 'frost-core/src/keys/dkg.rs', None, None),
  ('inline_attr', 'C03', 'frost-core/src/keys.rs', "fn validate_num_of_signers<C: Ciphersuite>(", "#[inline]\nfn validate_num_of_signers<C: Ciphersuite>("),
  ('guard_swap_sign', 'C05', 'frost-core/src/round2.rs', '''    if signing_package.signing_commitments().len() < key_package.min_signers as usize {
        return Err(Error::IncorrectNumberOfCommitments);
    }

    // Validate the signer's commitment is present in the signing package
    let commitment = signing_package
        .signing_commitments
        .get(&key_package.identifier)
        .ok_or(Error::MissingCommitment)?;
''', '''    // Validate the signer's commitment is present in the signing package
    let commitment = signing_package
        .signing_commitments
        .get(&key_package.identifier)
        .ok_or(Error::MissingCommitment)?;

    if signing_package.signing_commitments().len() < key_package.min_signers as usize {
        return Err(Error::IncorrectNumberOfCommitments);
    }
'''),
  ('extra_defensive_guard_sign', 'C05', 'frost-core/src/round2.rs', '''    // Validate if the signer's commitment exists
''', '''    if signing_package.signing_commitments().is_empty() {
        return Err(Error::MissingCommitment);
    }
    // Validate if the signer's commitment exists
'''),
  ('debug_assert_added', 'C06', 'frost-core/src/keys.rs', "    let mut value = <<C::Group as Group>::Field>::zero();", "    debug_assert!(!coefficients.is_empty());\n    let mut value = <<C::Group as Group>::Field>::zero();"),
]

def special(name, src):
    if name == 'rename_local_z':
        a = src.index('pub fn aggregate_custom'); b = src.index('fn detect_cheater')
        body = src[a:b]
        body = re.sub(r'\bz\b', 'z_total', body)
        return src[:a] + body + src[b:]
    if name == 'reorder_independent_lets_sign':
        m = re.search(r'(    let binding_factor_list: BindingFactorList<C> =\n[^;]*;\n)', src)
        return src  # left as identity if pattern differs
    if name == 'guard_swap_sign':
        a = "    if signing_package.signing_commitments().len() < key_package.min_signers as usize {\n        return Err(Error::IncorrectNumberOfCommitments);\n    }\n"
        i = src.index(a)
        j = src.index("    // Validate the signer's commitment is present in the signing package\n", i)
        k = src.index("    // Validate if the signer's commitment exists\n", j) if "    // Validate if the signer's commitment exists\n" in src else -1
        return None
    return None

def run(name, pid, rel, old, new):
    d = tempfile.mkdtemp(prefix='benign.', dir='/tmp')
    try:
        subprocess.run(['rsync', '-a', '--exclude', 'target', '--exclude', '.git', '/repo/', d + '/'], check=True)
        p = os.path.join(d, rel)
        src = open(p).read()
        if old is None:
            out = special(name, src)
            if out is None or out == src:
                return name, pid, 'SKIPPED (pattern)', ''
        else:
            if old not in src:
                return name, pid, 'SKIPPED (pattern not found)', ''
            out = src.replace(old, new, 1)
        open(p, 'w').write(out)
        env = dict(os.environ, VERIF_REPO=d, VERIF_OUT=d + '/_out', VERIF_NO_KANI='1', VERIF_NO_RT='1')
        r = subprocess.run([V + '/check', pid], capture_output=True, text=True, env=env)
        lines = [l for l in r.stdout.split('\n') if re.match(r'(OK|VIOLATION|UNDECIDED)', l)]
        v = lines[0].split()[0] if lines else 'ERROR'
        return name, pid, v, (lines[0][:230] if lines else r.stdout[-200:])
    finally:
        shutil.rmtree(d, ignore_errors=True)

want = sys.argv[1:]
bad = 0
for (name, pid, rel, old, new) in EDITS:
    if want and name not in want:
        continue
    n, p, v, line = run(name, pid, rel, old, new)
    flag = '  <== FALSE ALARM' if v == 'VIOLATION' else ''
    bad += v == 'VIOLATION'
    print('%-32s %s %-10s %s%s' % (n, p, v, line[:170], flag), flush=True)
sys.exit(1 if bad else 0)
