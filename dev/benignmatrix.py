#!/usr/bin/env python3
"""dev helper: run every independent BENIGN change (benign/<ID>_<k>/patch.diff: the property still holds) against the FULL check of its
property on a scratch copy.  The verdict must be OK or UNDECIDED; a VIOLATION is a false alarm.  Writes benign/MATRIX.json and MATRIX.md."""
import json, os, re, subprocess, sys, glob, concurrent.futures as cf
V = os.path.dirname(os.path.dirname(os.path.abspath(__file__)))
jobs = int(sys.argv[sys.argv.index('-j') + 1]) if '-j' in sys.argv else 2
args = [a for a in sys.argv[1:] if not a.startswith('-') and not a.isdigit()]
seeds = sorted(d for d in glob.glob(V + '/benign/C*_*') if os.path.exists(d + '/patch.diff'))
if args:
    seeds = [d for d in seeds if os.path.basename(d).split('_')[0] in args or os.path.basename(d) in args]


def run(d):
    sid = os.path.basename(d); pid = sid.split('_')[0]
    meta = json.load(open(d + '/meta.json')) if os.path.exists(d + '/meta.json') else {}
    p = subprocess.run([V + '/dev/seedtest.sh', d + '/patch.diff', pid], capture_output=True, text=True, env=dict(os.environ, VERIF_RT_BUDGET='30'))
    lines = [l for l in p.stdout.split('\n') if re.match(r'(OK|VIOLATION|UNDECIDED|PATCH)', l)]
    v = lines[0].split()[0] if lines else 'ERROR'
    r = dict(change=sid, property=pid, kind=meta.get('kind'), summary=(meta.get('summary') or '')[:220], verdict=v, lines=[l[:300] for l in lines[:4]])
    print(sid, v, (lines[0][:200] if lines else p.stdout[-200:]), flush=True)
    return r


with cf.ThreadPoolExecutor(max_workers=jobs) as ex:
    res = list(ex.map(run, seeds))
prev = {}
mp = V + '/benign/MATRIX.json'
if os.path.exists(mp):
    prev = {r['change']: r for r in json.load(open(mp))}
for r in res:
    prev[r['change']] = r
allr = [prev[k] for k in sorted(prev)]
json.dump(allr, open(mp, 'w'), indent=1)
with open(V + '/benign/MATRIX.md', 'w') as f:
    f.write('| change | kind | verdict of the full check | what it does |\n|---|---|---|---|\n')
    for r in allr:
        f.write('| %s | %s | %s | %s |\n' % (r['change'], (r.get('kind') or '').replace('|', '/')[:60],
                                      r['verdict'] + (' `%s`' % r['lines'][0][:110] if r['verdict'] != 'OK' and r['lines'] else ''),
                                      r['summary'].replace('|', '/').replace('\n', ' ')[:170]))
    f.write('\n%d independent benign changes: %d OK, %d UNDECIDED, %d VIOLATION (false alarms).\n' % (
        len(allr), sum(r['verdict'] == 'OK' for r in allr), sum(r['verdict'] == 'UNDECIDED' for r in allr), sum(r['verdict'] == 'VIOLATION' for r in allr)))
print('done', len(allr), 'false alarms:', [r['change'] for r in allr if r['verdict'] == 'VIOLATION'])
