#!/usr/bin/env python3
"""dev helper: extract a unit and show every Verus failure (all functions), concisely.  usage: dev/v.py [unit] [-f substr] [-v]"""
import sys, os, time, json, re
V = os.path.dirname(os.path.dirname(os.path.abspath(__file__)))
sys.path.insert(0, V + '/driver'); sys.path.insert(0, V + '/extract')
import extract as EX, verus_run as VR
from driver_main import load_unit_cfg
args = sys.argv[1:]
unit = 'frost_core'
filt = None
verbose = '-v' in args
if '-f' in args: filt = args[args.index('-f') + 1]
for a in args:
    if not a.startswith('-') and a != filt: unit = a
cfg = load_unit_cfg(unit); cfg['crate_name'] = 'unit'
try:
    text, meta = EX.build_unit(cfg)
except Exception as e:
    print('EXTRACT ERROR:', e); sys.exit(2)
b = V + '/build/dev_' + unit
os.makedirs(b, exist_ok=True)
open(b + '/unit.rs', 'w').write(text)
extra = []
if filt:
    pass
t = time.time()
r = VR.run_verus(b + '/unit.rs', b + '/vlog', extra=extra)
fails, cerr = VR.classify(r, b + '/unit.rs', meta['fn_lines'], meta['clause_lines'])
for d in cerr[:8]:
    print('COMPILE/OTHER ERROR:', (d.get('rendered') or d['message'])[:1800])
for f in fails:
    print('FAIL %s  [%s]' % (f.obligation, f.message))
    if verbose or len(fails) <= 6:
        print('   ' + '\n   '.join((f.rendered or '').split('\n')[:22]))
slow = sorted(((st['time_us'], nm) for nm, st in r.fn_status.items()), reverse=True)[:5]
print('verified=%d errors=%d wall=%.1fs smt=%dms slowest: %s' % (r.verified, r.errors, time.time() - t, r.smt_ms, ', '.join('%s %.1fs' % (n.replace('unit::', ''), u / 1e6) for u, n in slow)))
if r.json is None: print(r.raw_stderr[-3000:])
