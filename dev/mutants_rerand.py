#!/usr/bin/env python3
"""dev helper (C17, contracts/rerandomized.vc): apply each mutant to a scratch copy of the repository (rsync of $VERIF_REPO without
target/.git under /tmp/mutF) and show which named clause of unit frost_rerandomized catches it.
usage: dev/mutants_rerand.py [name ...]      (/repo is never touched; /tmp/mutF is removed afterwards)"""
import os, re, shutil, subprocess, sys
V = os.path.dirname(os.path.dirname(os.path.abspath(__file__)))
REPO = os.environ.get('VERIF_REPO', '/repo')
SCRATCH = '/tmp/mutF'
REL = 'frost-rerandomized/src/lib.rs'

# name, old text, new text, what it models
MUTANTS = [
    ('kp_share_minus_randomizer',
     'SigningShare::new(signing_share.to_scalar() + randomized_params.randomizer.to_scalar());',
     'SigningShare::new(signing_share.to_scalar() - randomized_params.randomizer.to_scalar());',
     'key package: signing share - randomizer instead of +'),
    ('kp_group_key_not_shifted',
     '            randomized_verifying_share,\n            randomized_params.randomized_verifying_key,\n            *self.min_signers(),',
     '            randomized_verifying_share,\n            *self.verifying_key(),\n            *self.min_signers(),',
     'key package: keeps the original group key'),
    ('kp_verifying_share_shifted_by_generator',
     'let randomized_verifying_share = VerifyingShare::<C>::new(\n            verifying_share.to_element() + randomized_params.randomizer_element,\n        );\n\n        let signing_share',
     'let randomized_verifying_share = VerifyingShare::<C>::new(\n            verifying_share.to_element() + <C::Group as Group>::generator(),\n        );\n\n        let signing_share',
     'key package: verifying share + G instead of + randomizer element'),
    ('pkp_shares_shifted_by_generator',
     '                    VerifyingShare::<C>::new(\n                        verifying_share.to_element() + randomized_params.randomizer_element,\n                    ),',
     '                    VerifyingShare::<C>::new(\n                        verifying_share.to_element() + <C::Group as Group>::generator(),\n                    ),',
     'public key package: every share + G instead of + randomizer element'),
    ('pkp_group_key_not_shifted',
     '            randomized_verifying_shares,\n            randomized_params.randomized_verifying_key,\n            self.min_signers(),',
     '            randomized_verifying_shares,\n            *self.verifying_key(),\n            self.min_signers(),',
     'public key package: keeps the original group key'),
    ('pkp_threshold_dropped',
     '            randomized_params.randomized_verifying_key,\n            self.min_signers(),\n        ))',
     '            randomized_params.randomized_verifying_key,\n            None,\n        ))',
     'public key package: threshold forgotten (aggregate would accept fewer shares)'),
    ('hash_only_the_seed',
     '            &[\n                randomizer_seed,\n                &encode_group_commitments(signing_commitments)?,\n            ]\n            .concat(),\n        )\n        .ok_or(Error::SerializationError)?;\n        Ok(Self(SerializableScalar(randomizer)))\n    }\n}',
     '            randomizer_seed,\n        )\n        .ok_or(Error::SerializationError)?;\n        Ok(Self(SerializableScalar(randomizer)))\n    }\n}',
     'randomizer = hash(seed): not bound to the commitment set'),
    ('preimage_order_swapped',
     '                randomizer_seed,\n                &encode_group_commitments(signing_commitments)?,\n            ]\n            .concat(),\n        )\n        .ok_or(Error::SerializationError)?;\n        Ok(Self(SerializableScalar(randomizer)))\n    }\n}',
     '                &encode_group_commitments(signing_commitments)?,\n                randomizer_seed,\n            ]\n            .concat(),\n        )\n        .ok_or(Error::SerializationError)?;\n        Ok(Self(SerializableScalar(randomizer)))\n    }\n}',
     'regenerate hashes commitments || seed'),
    ('hash_refusal_other_error',
     '            .concat(),\n        )\n        .ok_or(Error::SerializationError)?;\n        Ok(Self(SerializableScalar(randomizer)))\n    }\n}',
     '            .concat(),\n        )\n        .ok_or(Error::InvalidSignature)?;\n        Ok(Self(SerializableScalar(randomizer)))\n    }\n}',
     'regenerate reports a refusing hash as InvalidSignature (benign w.r.t. C17: only the exact clause `value` fails -> verdict undecided, see dev/mutants_pclauses.py)'),
    ('params_key_minus_element',
     'let randomized_verifying_key_element = verifying_key_element + randomizer_element;',
     'let randomized_verifying_key_element = verifying_key_element - randomizer_element;',
     'from_randomizer: Y - alpha*G'),
    ('params_element_from_key',
     'let randomizer_element = <C::Group as Group>::generator() * randomizer.to_scalar();',
     'let randomizer_element = group_verifying_key.to_element() * randomizer.to_scalar();',
     'from_randomizer: randomizer element = Y * alpha instead of G * alpha'),
    ('aggregate_unrandomized_package',
     '    let randomized_public_key_package = pubkeys.randomize(randomized_params)?;\n    frost::aggregate(\n        signing_package,\n        signature_shares,\n        &randomized_public_key_package,\n    )',
     '    let randomized_public_key_package = pubkeys.randomize(randomized_params)?;\n    frost::aggregate(\n        signing_package,\n        signature_shares,\n        pubkeys,\n    )',
     'aggregate with the ORIGINAL public key package'),
    ('aggregate_custom_ignores_strategy',
     '        &randomized_public_key_package,\n        cheater_detection,\n    )',
     '        &randomized_public_key_package,\n        CheaterDetection::Disabled,\n    )',
     'aggregate_custom always disables cheater detection'),
    ('sign_seed_unrandomized_package',
     '    let randomized_key_package = key_package.randomize(&randomized_params)?;\n    frost::round2::sign(signing_package, signer_nonces, &randomized_key_package)\n}\n\n/// Re-randomized FROST signature share aggregation with the given\n/// [`RandomizedParams`].',
     '    let randomized_key_package = key_package.randomize(&randomized_params)?;\n    frost::round2::sign(signing_package, signer_nonces, key_package)\n}\n\n/// Re-randomized FROST signature share aggregation with the given\n/// [`RandomizedParams`].',
     'sign_with_randomizer_seed signs with the ORIGINAL key package'),
    ('coordinator_seed_not_drawn',
     '        rng.fill_bytes(&mut randomizer_seed);\n', '',
     'new_from_commitments: seed stays all-zero (rng never read)'),
    ('coordinator_returns_other_seed',
     '            Self::regenerate_from_seed_and_commitments(&randomizer_seed, signing_commitments)?,\n            randomizer_seed,',
     '            Self::regenerate_from_seed_and_commitments(&randomizer_seed[1..], signing_commitments)?,\n            randomizer_seed,',
     'new_from_commitments derives the randomizer from a different seed than the one it hands out'),
    ('params_regenerate_other_key',
     '        Ok(Self::from_randomizer(group_verifying_key, randomizer))\n    }\n}',
     '        Ok(Self::from_randomizer(&VerifyingKey::new(<C::Group as Group>::generator()), randomizer))\n    }\n}',
     'participant regenerates the parameters for a different group key'),
]


def prepare():
    shutil.rmtree(SCRATCH, ignore_errors=True)
    subprocess.run(['rsync', '-a', '--exclude', 'target', '--exclude', '.git', REPO.rstrip('/') + '/', SCRATCH + '/'], check=True)


def run(name, old, new, what, pristine):
    p = os.path.join(SCRATCH, REL)
    if pristine.count(old) != 1:
        return name, what, ['MUTATION NOT APPLICABLE (%d matches)' % pristine.count(old)]
    open(p, 'w').write(pristine.replace(old, new))
    r = subprocess.run([sys.executable, os.path.join(V, 'dev/v.py'), 'frost_rerandomized'], env=dict(os.environ, VERIF_REPO=SCRATCH), capture_output=True, text=True)
    open(p, 'w').write(pristine)
    out = r.stdout + r.stderr
    fails = sorted(set(m.group(1).strip() for m in re.finditer(r'^FAIL (.*?)\s+\[', out, re.M)))
    other = [ln[:200] for ln in out.split('\n') if ln.startswith('COMPILE/OTHER ERROR') or ln.startswith('EXTRACT ERROR')]
    tail = [ln for ln in out.split('\n') if ln.startswith('verified=')]
    return name, what, fails + other + tail


if __name__ == '__main__':
    want = sys.argv[1:]
    prepare()
    pristine = open(os.path.join(SCRATCH, REL)).read()
    bad = 0
    try:
        for m in MUTANTS:
            if want and m[0] not in want:
                continue
            name, what, res = run(m[0], m[1], m[2], m[3], pristine)
            named = [x for x in res if ' :: ' in x and ('ensures[' in x or 'requires[' in x or 'closure' in x or 'invariant[' in x)]
            anonymous = [x for x in res if x.startswith('unit line') or 'EXTRACT ERROR' in x or 'COMPILE' in x or 'NOT APPLICABLE' in x]
            caught = bool(named) and not anonymous
            print('%s %-40s %s' % ('CAUGHT ' if caught else 'MISSED ', name, what))
            for x in res:
                print('        ' + x)
            bad += 0 if caught else 1
    finally:
        shutil.rmtree(SCRATCH, ignore_errors=True)
    sys.exit(1 if bad else 0)
