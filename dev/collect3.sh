#!/bin/bash
# dev helper: collect hold-out (wave-3) seeds of property $1 from /tmp/wt/$1c/SEEDED2 into /verif/seeded3 and remove the worktree
p=$1
for k in 1 2 3; do if [ -f /tmp/wt/${p}c/SEEDED2/${p}_$k/patch.diff ]; then mkdir -p /verif/seeded3/${p}_$k; cp /tmp/wt/${p}c/SEEDED2/${p}_$k/{patch.diff,seeded_demo.rs,meta.json} /verif/seeded3/${p}_$k/ 2>/dev/null; fi; done
git -C /repo worktree remove --force /tmp/wt/${p}c
