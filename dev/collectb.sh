#!/bin/bash
# dev helper: collect the benign patches of property $1 from /tmp/wt/$1h/BENIGN into /verif/benign and remove the worktree
p=$1
for k in 1 2 3 4; do if [ -f /tmp/wt/${p}h/BENIGN/${p}_$k/patch.diff ]; then mkdir -p /verif/benign/${p}_$k; cp /tmp/wt/${p}h/BENIGN/${p}_$k/{patch.diff,meta.json} /verif/benign/${p}_$k/; fi; done
git -C /repo worktree remove --force /tmp/wt/${p}h
