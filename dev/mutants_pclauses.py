#!/usr/bin/env python3
"""dev helper: validation of the property-level (p_*) clauses (DESIGN 8.3, "property-level vs exact clauses").

For every function that has p_* clauses: BENIGN behaviour changes (the property still holds: two independent guards exchanged, an
extra early refusal of input that is refused anyway, another error value where the property only says "rejected") must NOT be
reported as a violation (expected UNDECIDED, exit 2, or OK); HARMFUL changes (dropped guard, off-by-one, wrong variable, wrong sign,
skipped check, wrong culprit) must be a VIOLATION on a p_* clause or on an invariant / closure clause / assert / precondition.

usage: dev/mutants_pclauses.py [-j N] [name-substring ...]
Each mutant runs `./check <ID>` (deductive layer only: VERIF_NO_KANI=1 VERIF_NO_RT=1) on its own scratch copy /tmp/mutK/<name> of
$VERIF_REPO (default /repo, never touched).  Exit status 1 if a verdict is not the expected one."""
import os, re, shutil, subprocess, sys
from concurrent.futures import ThreadPoolExecutor
V = os.path.dirname(os.path.dirname(os.path.abspath(__file__)))
REPO = os.environ.get('VERIF_REPO', '/repo')
SCRATCH = '/tmp/mutK'
sys.path.insert(0, os.path.join(V, 'dev'))
from mutants_pclauses_list import MUTANTS  # noqa: E402   (name, kind, property id, repo-relative file, old, new, what)


def apply_mutation(s, old, new):
    """`old` is a text that occurs exactly once, or (text, n, total): its n-th (0-based) of exactly `total` occurrences."""
    if isinstance(old, tuple):
        text, n, total = old
        if s.count(text) != total:
            return None
        i = -1
        for _ in range(n + 1):
            i = s.index(text, i + 1)
        return s[:i] + new + s[i + len(text):]
    if s.count(old) != 1:
        return None
    return s.replace(old, new)


def run(m):
    name, kind, pid, rel, old, new, what = m
    d = os.path.join(SCRATCH, name)
    shutil.rmtree(d, ignore_errors=True)
    subprocess.run(['rsync', '-a', '--exclude', 'target', '--exclude', '.git', REPO + '/', d + '/'], check=True)
    p = os.path.join(d, rel)
    s = open(p).read()
    s2 = apply_mutation(s, old, new)
    if s2 is None:
        shutil.rmtree(d, ignore_errors=True)
        return m, 'N/A', ['MUTATION NOT APPLICABLE']
    open(p, 'w').write(s2)
    env = dict(os.environ, VERIF_OUT=os.path.join(d, '_out'), VERIF_REPO=d, VERIF_NO_KANI='1', VERIF_NO_RT='1')
    r = subprocess.run([os.path.join(V, 'check'), pid], env=env, capture_output=True, text=True, cwd=V)
    out = r.stdout + r.stderr
    lines = [ln for ln in out.split('\n') if re.match(r'^(OK|VIOLATION|UNDECIDED|KNOWN)', ln)]
    verdict = {0: 'OK', 1: 'VIOLATION', 2: 'UNDECIDED'}.get(r.returncode, 'rc=%d' % r.returncode)
    brief = []
    for ln in lines:
        mo = re.search(r'obligation="([^"]*)"', ln)
        if mo:
            brief.append('V ' + mo.group(1))
        else:
            mo = re.search(r'reason=(.*)$', ln)
            brief.append(('U ' + mo.group(1)[:150]) if mo else ln[:150])
    shutil.rmtree(d, ignore_errors=True)
    return m, verdict, brief


def expected_ok(kind, verdict, brief):
    if kind == 'benign':
        # undecided BECAUSE of the rule (not because the mutant lost an anchor or is not accepted by Verus, which would prove nothing)
        trivial = any(('lost anchor' in b) or ('Verus rejected' in b) or ('not supported' in b) for b in brief)
        return verdict == 'OK' or (verdict == 'UNDECIDED' and not trivial and any('exact-result clause' in b for b in brief))
    if verdict != 'VIOLATION':
        return False
    # a harmful change must be decided by a property-level clause or an internal obligation, not by an exact clause alone
    def deciding(b):
        mo = re.search(r':: ensures\[([^\]]*)\]', b)   # function-level clause (closureK_ensures[..] / loopK_invariant[..] are internal)
        return (mo is None) or mo.group(1).startswith('p_')
    return any(b.startswith('V ') and deciding(b) for b in brief)


if __name__ == '__main__':
    args = sys.argv[1:]
    jobs = 4
    if '-j' in args:
        i = args.index('-j'); jobs = int(args[i + 1]); del args[i:i + 2]
    sel = [m for m in MUTANTS if not args or any(a in m[0] for a in args)]
    os.makedirs(SCRATCH, exist_ok=True)
    bad = 0
    with ThreadPoolExecutor(max_workers=jobs) as ex:
        for m, verdict, brief in ex.map(run, sel):
            ok = expected_ok(m[1], verdict, brief)
            bad += 0 if ok else 1
            print('%s %-8s %-4s %-44s %-10s %s' % ('ok  ' if ok else 'BAD ', m[1], m[2], m[0], verdict, m[6]))
            for b in brief[:6]:
                print('            ' + b)
            sys.stdout.flush()
    sys.exit(1 if bad else 0)
