#!/bin/bash
# dev helper: collect wave-2 seeds of property $1 from /tmp/wt/$1b/SEEDED2 into /verif/seeded2 and remove the worktree
p=$1
for k in 1 2 3; do mkdir -p /verif/seeded2/${p}_$k; cp /tmp/wt/${p}b/SEEDED2/${p}_$k/{patch.diff,seeded_demo.rs,meta.json} /verif/seeded2/${p}_$k/ 2>/dev/null; done
git -C /repo worktree remove --force /tmp/wt/${p}b
