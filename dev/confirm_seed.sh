#!/bin/bash
# Confirm a seeded change in a scratch worktree of /repo: (1) patch applies and the existing suite passes with it,
# (2) the demonstration fails with the patch, (3) passes without.  Appends the outcome to <dir>/confirm.json.
# usage: dev/confirm_seed.sh /verif/seeded/<id>
S=$(readlink -f "$1"); ID=$(basename $S)
W=/tmp/wt/confirm_$ID
git -C /repo worktree remove --force $W 2>/dev/null; rm -rf $W
git -C /repo worktree add -q --detach $W HEAD || exit 3
cp -r /repo/target $W/target
cd $W
DEMO_PATH=$(grep -o "frost-[a-z0-9-]*/tests/[a-z_0-9]*\.rs" $S/seeded_demo.rs | head -1)
[ -z "$DEMO_PATH" ] && DEMO_PATH=frost-ed25519/tests/seeded_demo.rs
CRATE=$(echo $DEMO_PATH | cut -d/ -f1); TESTNAME=$(basename $DEMO_PATH .rs)
if ! git apply $S/patch.diff; then echo "{\"id\":\"$ID\",\"applies\":false}" > $S/confirm.json; cd /; git -C /repo worktree remove --force $W; exit 1; fi
cargo test --workspace --no-fail-fast --offline > /tmp/confirm_$ID.suite.log 2>&1; SUITE=$?
NFAIL=$(grep -c "^test .* FAILED" /tmp/confirm_$ID.suite.log)
cp $S/seeded_demo.rs $DEMO_PATH
cargo test -p $CRATE --test $TESTNAME --offline > /tmp/confirm_$ID.demo_with.log 2>&1; WITH=$?
git apply -R $S/patch.diff
cargo test -p $CRATE --test $TESTNAME --offline > /tmp/confirm_$ID.demo_without.log 2>&1; WITHOUT=$?
cat > $S/confirm.json <<EOT
{"id": "$ID", "applies": true, "repo_head": "$(git -C /repo rev-parse --short HEAD)", "suite_exit_with_patch": $SUITE, "suite_failed_tests": $NFAIL,
 "demo": "$DEMO_PATH", "demo_exit_with_patch": $WITH, "demo_exit_without_patch": $WITHOUT,
 "confirmed": $([ $SUITE -eq 0 ] && [ $WITH -ne 0 ] && [ $WITHOUT -eq 0 ] && echo true || echo false),
 "ran": ["git apply patch.diff", "cargo test --workspace --no-fail-fast --offline", "cargo test -p $CRATE --test $TESTNAME --offline (with patch)", "git apply -R patch.diff", "cargo test -p $CRATE --test $TESTNAME --offline (without patch)"]}
EOT
cd /; git -C /repo worktree remove --force $W; rm -rf $W
cat $S/confirm.json
