#!/usr/bin/env python3
"""dev helper: canary run -- every verified function must fail its injected assert(false)."""
import sys, os
V = os.path.dirname(os.path.dirname(os.path.abspath(__file__)))
sys.path.insert(0, V + '/driver'); sys.path.insert(0, V + '/extract')
import extract as EX, verus_run as VR
from driver_main import load_unit_cfg
unit = sys.argv[1] if len(sys.argv) > 1 else 'frost_core'
cfg = load_unit_cfg(unit); cfg['crate_name'] = 'unit'; cfg['canary'] = True
text, meta = EX.build_unit(cfg)
b = V + '/build/canary_' + unit
os.makedirs(b, exist_ok=True)
open(b + '/unit.rs', 'w').write(text)
r = VR.run_verus(b + '/unit.rs', b + '/vlog')
bad = []
n = 0
for f in meta['functions']:
    if f['mode'] == 'verified':
        n += 1
        st = r.fn_status.get(VR.resolve_name(r, f['verus_name']))
        if st is None or st['success']:
            bad.append(f['key'])
print('canary: %d verified-mode functions, %d did NOT fail (must be 0): %s' % (n, len(bad), bad))
sys.exit(1 if bad else 0)
