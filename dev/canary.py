#!/usr/bin/env python3
"""dev helper: canary run -- every verified function must fail its injected assert(false)."""
import sys, os
V = os.path.dirname(os.path.dirname(os.path.abspath(__file__)))
sys.path.insert(0, V + '/driver'); sys.path.insert(0, V + '/extract')
import extract as EX, verus_run as VR
from driver_main import load_unit_cfg
args = [a for a in sys.argv[1:] if not a.startswith('-')]
unit = args[0] if args else 'frost_core'
lemmas = '--lemmas' in sys.argv
cfg = load_unit_cfg(unit); cfg['crate_name'] = 'unit'; cfg['canary'] = not lemmas; cfg['lemma_canary'] = lemmas
text, meta = EX.build_unit(cfg)
b = V + '/build/canary_' + unit + ('_lemmas' if lemmas else '')
os.makedirs(b, exist_ok=True)
open(b + '/unit.rs', 'w').write(text)
r = VR.run_verus(b + '/unit.rs', b + '/vlog')
bad = []
n = 0
if lemmas:
    import re
    names = re.findall(r'/\*@LCANARY (\w+)\*/', text)
    for nm in names:
        n += 1
        hits = [(k, st) for k, st in r.fn_status.items() if k.split('::')[-1] == nm]
        if not hits or any(st['success'] for k, st in hits):
            bad.append(nm)
    if r.json is None or not names:
        print(r.raw_stderr[-3000:])
        bad.append('(verus did not run)')
    print('lemma canary: %d proof fns, %d did NOT fail (must be 0): %s' % (n, len(bad), bad))
    sys.exit(1 if bad else 0)
for f in meta['functions']:
    if f['mode'] == 'verified':
        n += 1
        st = r.fn_status.get(VR.resolve_name(r, f['verus_name']))
        if st is None or st['success']:
            bad.append(f['key'])
print('canary: %d verified-mode functions, %d did NOT fail (must be 0): %s' % (n, len(bad), bad))
sys.exit(1 if bad else 0)
