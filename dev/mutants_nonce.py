#!/usr/bin/env python3
"""dev helper: mutation self-test for the C15/C16 contracts (contracts/nonce.vc, generate_with_dealer in contracts/keys.vc).

Each mutant is applied to a scratch copy of /repo/frost-core (never to /repo), the unit is re-extracted with
VERIF_REPO pointing at the copy and verified; the script prints the failing obligations (function :: clause[name]).
A mutant is KILLED if at least one named contract clause fails, UNDECIDED if the extractor loses an anchor (exit-2 class),
SURVIVED if everything still verifies.   usage: dev/mutants_nonce.py [name-substring]
"""
import os, shutil, subprocess, sys, re
V = os.path.dirname(os.path.dirname(os.path.abspath(__file__)))
SRC = os.environ.get('VERIF_REPO_ORIG', '/repo')
SCR = os.environ.get('VERIF_MUT_DIR', '/tmp/mutA')

# (name, file, old text, new text, what the mutation means)
MUTANTS = [
    ('binding_reuses_hiding', 'round1.rs',
     '        let binding = Nonce::<C>::new(secret, rng);\n',
     '        let binding = hiding;\n',
     'binding nonce is the hiding nonce (no further 32 bytes drawn)'),
    ('share_not_hashed', 'round1.rs',
     '        Self::from_scalar(C::H3(input.as_slice()))\n',
     '        Self::from_scalar(C::H3(random_bytes.as_slice()))\n',
     'nonce = H3(random_bytes) only: not hedged with the signing share'),
    ('bytes_not_hashed', 'round1.rs',
     '        Self::from_scalar(C::H3(input.as_slice()))\n',
     '        Self::from_scalar(C::H3(secret_enc.as_slice()))\n',
     'nonce = H3(enc(share)) only: deterministic, random bytes ignored'),
    ('bytes_share_swapped', 'round1.rs',
     '        let input: Vec<u8> = random_bytes\n            .iter()\n            .chain(secret_enc.iter())\n',
     '        let input: Vec<u8> = secret_enc\n            .iter()\n            .chain(random_bytes.iter())\n',
     'H3(enc(share) || random_bytes): order of the RFC preimage swapped (inside the outlined std idiom)'),
    ('constant_bytes', 'round1.rs',
     '        rng.fill_bytes(&mut random_bytes[..]);\n',
     '',
     'random source never read: nonce bytes are the constant zero array'),
    ('short_read', 'round1.rs',
     '        rng.fill_bytes(&mut random_bytes[..]);\n',
     '        rng.fill_bytes(&mut random_bytes[..16]);\n',
     'only 16 of the 32 nonce bytes are random'),
    ('same_pair_twice', 'round1.rs',
     '    for _ in 0..num_nonces {\n        let nonces = SigningNonces::new(secret, rng);\n        signing_commitments.push(SigningCommitments::from(&nonces));\n        signing_nonces.push(nonces);\n',
     '    let nonces0 = SigningNonces::new(secret, rng);\n    for _ in 0..num_nonces {\n        let nonces = nonces0.clone();\n        signing_commitments.push(SigningCommitments::from(&nonces));\n        signing_nonces.push(nonces);\n',
     'preprocess draws ONE pair and pushes it k times'),
    ('commitment_of_other_pair', 'round1.rs',
     '        signing_commitments.push(SigningCommitments::from(&nonces));\n',
     '        signing_commitments.push(SigningCommitments::new((&nonces.binding).into(), (&nonces.hiding).into()));\n',
     'published commitments have hiding/binding exchanged'),
    ('commit_two_pairs', 'round1.rs',
     'preprocess(1, secret, rng);',
     'preprocess(2, secret, rng);',
     'commit() draws two pairs and returns the second'),
    ('commit_zero_pairs', 'round1.rs',
     'preprocess(1, secret, rng);',
     'preprocess(0, secret, rng);',
     'commit() asks for zero pairs: the expect()s panic'),
    ('commitment_identity', 'round1.rs',
     '        Self::new(<C::Group>::generator() * nonce.to_scalar())\n',
     '        Self::new(<C::Group>::identity() * nonce.to_scalar())\n',
     'nonce commitment is not the generator times the nonce'),
    ('rnz_no_zero_check', 'lib.rs',
     '        if scalar != <<C::Group as Group>::Field>::zero() {\n            return scalar;\n        }\n',
     '        if true {\n            return scalar;\n        }\n',
     'random_nonzero returns the first draw even if it is zero'),
    ('rnz_inverted_check', 'lib.rs',
     '        if scalar != <<C::Group as Group>::Field>::zero() {\n',
     '        if scalar == <<C::Group as Group>::Field>::zero() {\n',
     'random_nonzero returns the first ZERO draw'),
    ('key_not_rejection_sampled', 'signing_key.rs',
     '        let scalar = random_nonzero::<C, R>(rng);\n',
     '        let scalar = <<C::Group as Group>::Field>::random(rng);\n',
     'SigningKey::new takes a plain draw (may be zero)'),
    ('dealer_key_drawn_twice', 'keys.rs',
     '    let key = SigningKey::new(rng);\n    split(&key, max_signers, min_signers, identifiers, rng)\n',
     '    let _discarded: SigningKey<C> = SigningKey::new(rng);\n    let key = SigningKey::new(rng);\n    split(&key, max_signers, min_signers, identifiers, rng)\n',
     'generate_with_dealer discards a key draw: layout of the consumed segment changes'),
    ('dealer_fixed_key', 'keys.rs',
     '    let key = SigningKey::new(rng);\n    split(&key, max_signers, min_signers, identifiers, rng)\n',
     '    let key = SigningKey { scalar: <<C::Group as Group>::Field>::one() };\n    split(&key, max_signers, min_signers, identifiers, rng)\n',
     'generate_with_dealer uses a fixed key instead of drawing one'),
    ('nonce_bytes_overwritten', 'round1.rs',
     '        rng.fill_bytes(&mut random_bytes[..]);\n',
     '        rng.fill_bytes(&mut random_bytes[..]);\n        random_bytes = [0; 32];\n',
     '32 bytes are drawn but then discarded: the hashed bytes are constant'),
    ('hook_commitment_wrong', 'traits.rs',
     '        let R = <Self::Group>::generator() * k;\n',
     '        let R = <Self::Group>::generator() * (k + k);\n',
     'generate_nonce returns a commitment to 2k'),
    ('serialize_le', 'serialization.rs',
     '        <<C::Group as Group>::Field>::serialize(&self.0)\n            .as_ref()\n            .to_vec()\n',
     '        <<C::Group as Group>::Field>::little_endian_serialize(&self.0)\n            .as_ref()\n            .to_vec()\n',
     'SerializableScalar::serialize uses the other byte order'),
]

# harmless edits: the check must stay at 0 failures (same tuple layout; expected verdict SURVIVED)
HARMLESS = [
    ('eq_pushes_reordered', 'round1.rs',
     '        signing_commitments.push(SigningCommitments::from(&nonces));\n        signing_nonces.push(nonces);\n',
     '        let c = SigningCommitments::from(&nonces);\n        signing_nonces.push(nonces);\n        signing_commitments.push(c);\n',
     'independent statements reordered'),
    ('eq_local_renamed', 'lib.rs',
     '        let scalar = <<C::Group as Group>::Field>::random(rng);\n\n        if scalar != <<C::Group as Group>::Field>::zero() {\n            return scalar;\n',
     '        let s = <<C::Group as Group>::Field>::random(rng);\n\n        if s != <<C::Group as Group>::Field>::zero() {\n            return s;\n',
     'local renamed in random_nonzero'),
    ('eq_operand_renamed', 'round1.rs',
     '        let secret_enc = secret.0.serialize();\n\n        let input: Vec<u8> = random_bytes\n            .iter()\n            .chain(secret_enc.iter())\n',
     '        let enc = secret.0.serialize();\n\n        let input: Vec<u8> = random_bytes\n            .iter()\n            .chain(enc.iter())\n',
     'operand of the outlined idiom renamed'),
]


def run(name, rel, old, new, what):
    shutil.rmtree(SCR, ignore_errors=True)
    os.makedirs(SCR)
    shutil.copytree(os.path.join(SRC, 'frost-core'), os.path.join(SCR, 'frost-core'))
    p = os.path.join(SCR, 'frost-core/src', rel)
    s = open(p).read()
    if s.count(old) != 1:
        print('%-28s MUTATION NOT APPLICABLE (%d matches)' % (name, s.count(old)))
        return 'n/a'
    open(p, 'w').write(s.replace(old, new))
    env = dict(os.environ, VERIF_REPO=SCR)
    out = subprocess.run([sys.executable, os.path.join(V, 'dev/v.py')], capture_output=True, text=True, env=env).stdout
    fails = re.findall(r'^FAIL (.*?)  \[(.*?)\]', out, re.M)
    extract = re.findall(r'^EXTRACT ERROR: (.*)$', out, re.M)
    comp = re.findall(r'^COMPILE/OTHER ERROR: (.*)$', out, re.M)
    named = [f for f in fails if re.search(r'(ensures|invariant|requires)\[', f[0])]
    if extract:
        verdict = 'UNDECIDED'
    elif comp:
        verdict = 'COMPILE-ERROR'
    elif named:
        verdict = 'KILLED'
    elif fails:
        verdict = 'KILLED(unnamed)'
    else:
        verdict = 'SURVIVED'
    print('%-28s %-10s %s' % (name, verdict, what))
    for f in fails:
        print('      FAIL %s  [%s]' % f)
    for e in extract:
        print('      EXTRACT ERROR: %s' % e[:200])
    for e in comp[:2]:
        print('      COMPILE ERROR: %s' % e[:300])
    return verdict


if __name__ == '__main__':
    sel = sys.argv[1] if len(sys.argv) > 1 else ''
    res = [run(*m) for m in MUTANTS if sel in m[0]]
    eqv = [run(*m) for m in HARMLESS if sel in m[0]]
    shutil.rmtree(SCR, ignore_errors=True)
    print('summary: mutants', {v: res.count(v) for v in sorted(set(res))}, ' harmless edits', {v: eqv.count(v) for v in sorted(set(eqv))})
    sys.exit(0 if all(v in ('KILLED', 'UNDECIDED') for v in res) and all(v == 'SURVIVED' for v in eqv) else 1)
