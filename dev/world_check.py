#!/usr/bin/env python3
"""Re-derive the list of WORLD-DEPENDENT frost-core contract clauses (units/frost_secp256k1_tr.py: CFG['strip_clauses'] + the override blocks of
contracts_tr/core_generic.vc) and compare it with what the unit configuration records.

The frost-core modules are verified with the contracts of contracts/*.vc but WITHOUT the default-world axiom (and with the generic form of the
signature-codec hooks, contracts_tr/hooks_generic.vc).  Every named clause that fails is world-dependent; it is stripped and the run repeated until
no named clause fails (callers of a stripped clause surface in the next round).  A function whose proof then still fails on an unnamed obligation
(a hint that needs the world) must be in the recorded list with all its clauses or have an override block.  Exit 0 iff derived == recorded."""
import os, sys, copy, shutil, tempfile
V = os.path.dirname(os.path.dirname(os.path.abspath(__file__)))
sys.path.insert(0, V + '/driver'); sys.path.insert(0, V + '/extract')
import extract as EX, verus_run as VR
from driver_main import load_unit_cfg
base = load_unit_cfg('frost_secp256k1_tr'); base['crate_name'] = 'unit'
recorded = {}
for k, v in base['strip_clauses'].items():
    recorded[k] = v
tmp = tempfile.mkdtemp(prefix='worldchk')
shutil.copy(os.path.join(V, 'contracts_tr', 'hooks_generic.vc'), tmp)
overridden = set(c.key for c in EX.load_contracts([os.path.join(V, 'contracts_tr')]) if c.key.startswith('frost-core/'))
cfg0 = copy.deepcopy(base)
cfg0['modules'] = [m for m in cfg0['modules'] if m[0] != 'secp256k1_tr']
cfg0['contract_dirs'] = [os.path.join(V, 'contracts'), tmp]
cfg0['prelude_files'] = [p for p in cfg0['prelude_files'] if p not in ('prelude/k256_model.rs', 'lemmas/vspec_tr.rs', 'lemmas/vworld_tr.rs')]
cfg0['postlude_files'] = []
cfg0['foreign_prefixes'] = []
strip = {}
b = V + '/build/worldchk'
os.makedirs(b, exist_ok=True)
rounds = 0
unnamed = set()
try:
    while True:
        rounds += 1
        cfg = copy.deepcopy(cfg0); cfg['strip_clauses'] = {k: sorted(v) for k, v in strip.items()}
        text, meta = EX.build_unit(cfg)
        open(b + '/unit.rs', 'w').write(text)
        r = VR.run_verus(b + '/unit.rs', b + '/vlog')
        fails, cerr = VR.classify(r, b + '/unit.rs', meta['fn_lines'], meta['clause_lines'])
        if cerr or r.json is None:
            print('world_check: the unit does not compile:', (cerr[0].get('message') if cerr else r.raw_stderr[-400:])); sys.exit(2)
        new = 0
        unnamed = set()
        for f in fails:
            if f.clause and f.clause[1] == 'ensures' and f.clause[0] == f.fn_key:
                s = strip.setdefault(f.fn_key, set())
                if f.clause[2] not in s:
                    s.add(f.clause[2]); new += 1
            else:
                unnamed.add(f.fn_key)
        print('round %d: %d failing obligations, %d new world-dependent clauses' % (rounds, len(fails), new))
        if not new or rounds > 8:
            break
finally:
    shutil.rmtree(tmp, ignore_errors=True)
ok = True
for k in sorted(set(strip) | set(recorded) | unnamed):
    d = sorted(strip.get(k, ()))
    rec = recorded.get(k)
    how = 'override block' if k in overridden else ('stripped entirely' if rec == '*' else 'clauses stripped: %s' % rec)
    good = (k in overridden) or rec == '*' or (rec is not None and set(d) == set(rec) and k not in unnamed)
    if rec is None and not d and k in unnamed and k in overridden:
        good = True
    print('%s %-70s derived %s%s -> recorded: %s' % ('ok ' if good else 'BAD', VR.short(k), d, ' +unnamed proof obligations' if k in unnamed else '', how if (rec is not None or k in overridden) else 'NOTHING'))
    ok = ok and good
print('world_check: %s' % ('derived list == recorded list' if ok else 'MISMATCH'))
sys.exit(0 if ok else 1)
