#!/usr/bin/env python3
"""dev helper (C12, contracts/codec.vc; shows the raw failing clauses -- the VERDICT rule for exact vs p_* clauses is exercised by
dev/mutants_pclauses.py): apply each mutant to a scratch copy of frost-core and show which named clause catches it.
usage: dev/mutants_codec.py [name ...]      (scratch copies under /tmp/mutD_<name>; /repo is never touched)"""
import os, re, shutil, subprocess, sys
V = os.path.dirname(os.path.dirname(os.path.abspath(__file__)))
REPO = os.environ.get('VERIF_REPO', '/repo')

# name, file (below frost-core/src), old text, new text, what it models
MUTANTS = [
    ('id_zero_check_dropped', 'identifier.rs',
     'if scalar == <<C::Group as Group>::Field>::zero() {\n            Err(FieldError::InvalidZeroScalar.into())\n        } else {\n            Ok(Self(SerializableScalar(scalar)))\n        }',
     'Ok(Self(SerializableScalar(scalar)))', 'Identifier::new accepts the zero scalar'),
    ('sk_zero_check_dropped', 'signing_key.rs',
     'if scalar == <<C::Group as Group>::Field as Field>::zero() {\n            return Err(Error::MalformedSigningKey);\n        }\n', '',
     'SigningKey::from_scalar accepts the zero scalar'),
    ('sig_z_then_R', 'signature.rs',
     'bytes.extend(R_bytes);\n        bytes.extend(z_bytes);', 'bytes.extend(z_bytes);\n        bytes.extend(R_bytes);',
     'signature encoded as z || R'),
    ('sig_accepts_longer', 'signature.rs',
     'if bytes.len() != R_bytes_len + z_bytes_len {', 'if bytes.len() < R_bytes_len + z_bytes_len {',
     'default_deserialize accepts trailing bytes'),
    ('sig_z_wrong_offset', 'signature.rs',
     '.get(R_bytes_len..R_bytes_len + z_bytes_len)', '.get(0..z_bytes_len)', 'z taken from offset 0 instead of Ne'),
    ('vss_remainder_ignored', 'keys.rs',
     'if !serialized_coefficient_commitments.remainder().is_empty() {\n            return Err(Error::InvalidCoefficient);\n        }\n', '',
     'deserialize_whole ignores trailing bytes'),
    # ---- further mutants
    ('id_deserialize_bypasses_new', 'identifier.rs',
     'Self::new(SerializableScalar::deserialize(bytes)?.0)', 'Ok(Self(SerializableScalar::deserialize(bytes)?))',
     'Identifier::deserialize skips the zero check'),
    ('sk_deserialize_bypasses_from_scalar', 'signing_key.rs',
     'Self::from_scalar(SerializableScalar::deserialize(bytes)?.0)', 'Ok(Self { scalar: SerializableScalar::deserialize(bytes)?.0 })',
     'SigningKey::deserialize skips the zero check'),
    ('scalar_wrong_len_other_error', 'serialization.rs',
     'bytes.try_into().map_err(|_| FieldError::MalformedScalar)?;\n        let scalar = <<C::Group as Group>::Field>::deserialize',
     'bytes.try_into().map_err(|_| FieldError::InvalidZeroScalar)?;\n        let scalar = <<C::Group as Group>::Field>::deserialize',
     'wrong-length scalar reported as InvalidZeroScalar (benign w.r.t. C12, which says "rejected"; still decided: the closure clause pins the value)'),
    ('sig_R_wrong_offset', 'signature.rs',
     'bytes.get(0..R_bytes_len)', 'bytes.get(z_bytes_len..z_bytes_len + R_bytes_len)', 'R taken from offset Ns instead of 0'),
    ('vss_serialize_skips_first', 'keys.rs',
     'self.0\n            .iter()\n            .map(|cc| cc.serialize())', 'self.0\n            .iter()\n            .skip(1)\n            .map(|cc| cc.serialize())',
     'commitment vector encoding drops the constant-term commitment'),
    ('sig_share_serialize_le', 'round2.rs',
     'pub fn serialize(&self) -> Vec<u8> {\n        self.share.serialize()',
     'pub fn serialize(&self) -> Vec<u8> {\n        <<C::Group as Group>::Field>::little_endian_serialize(&self.share.0).as_ref().to_vec()',
     'SignatureShare encoded with the little-endian codec'),
    ('vk_deserialize_wrong_unwrap', 'verifying_key.rs',
     'Ok(Self::new(SerializableElement::deserialize(bytes)?.0))', 'Ok(Self::new(SerializableElement::deserialize(bytes)?.0 + <C::Group>::generator()))',
     'VerifyingKey::deserialize returns a different element'),
]


def run(name, rel, old, new, what):
    d = '/tmp/mutD_' + name
    shutil.rmtree(d, ignore_errors=True)
    os.makedirs(d)
    shutil.copytree(os.path.join(REPO, 'frost-core'), os.path.join(d, 'frost-core'))
    p = os.path.join(d, 'frost-core/src', rel)
    s = open(p).read()
    if s.count(old) != 1:
        return name, what, ['MUTATION NOT APPLICABLE (%d matches)' % s.count(old)]
    open(p, 'w').write(s.replace(old, new))
    r = subprocess.run([sys.executable, os.path.join(V, 'dev/v.py')], env=dict(os.environ, VERIF_REPO=d), capture_output=True, text=True)
    out = r.stdout + r.stderr
    fails = sorted(set(m.group(1).strip() for m in re.finditer(r'^FAIL (.*?)\s+\[', out, re.M)))
    other = [ln[:160] for ln in out.split('\n') if ln.startswith('COMPILE/OTHER ERROR') or ln.startswith('EXTRACT ERROR')]
    tail = [ln for ln in out.split('\n') if ln.startswith('verified=')]
    shutil.rmtree(d, ignore_errors=True)
    return name, what, fails + other + tail


if __name__ == '__main__':
    want = sys.argv[1:]
    bad = 0
    for m in MUTANTS:
        if want and m[0] not in want:
            continue
        name, what, res = run(*m)
        caught = any(' :: ' in x and ('ensures[' in x or 'requires[' in x or 'closure' in x) for x in res)
        print('%s %-36s %s' % ('CAUGHT ' if caught else 'MISSED ', name, what))
        for x in res:
            print('        ' + x)
        bad += 0 if caught else 1
    sys.exit(1 if bad else 0)
