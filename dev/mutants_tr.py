#!/usr/bin/env python3
"""C18 mutation self-test: each mutant of frost-secp256k1-tr/src/lib.rs (applied to a scratch copy of the repository) must make the unit
`frost_secp256k1_tr` FAIL on a NAMED clause.  usage: dev/mutants_tr.py [M03 M07 ...]   (a scratch copy of the repository is created in /tmp/mutG and removed afterwards)"""
import os, subprocess, sys, shutil
V = os.path.dirname(os.path.dirname(os.path.abspath(__file__)))
SCR = '/tmp/mutG'
ONLY = sys.argv[1:]      # optional: run only the mutants whose name starts with one of these ids
F = 'frost-secp256k1-tr/src/lib.rs'
M = [
 ('M01 nonces negated when R is EVEN',
  '        let signer_nonces = if !group_commitment.has_even_y() {\n            negate_nonces(signer_nonces)',
  '        let signer_nonces = if group_commitment.has_even_y() {\n            negate_nonces(signer_nonces)'),
 ('M02 verify_share forgets to negate the commitment share',
  '                -group_commitment_share.to_element(),', '                group_commitment_share.to_element(),'),
 ('M03 KeyPackage::tweak without even-Y normalisation',
  '            let key_package = self.into_even_y(None);', '            let key_package = self;'),
 ('M04 pre_sign drops into_even_y',
  '            Cow::Owned(key_package.clone().into_even_y(None)),', '            Cow::Owned(key_package.clone()),'),
 ('M05 challenge hashes the compressed key instead of x-only',
  '        preimage.extend_from_slice(&verifying_key.to_element().to_affine().x());',
  '        preimage.extend_from_slice(&<Self::Group>::serialize(&verifying_key.to_element())?);'),
 ('M06 post_dkg without tweak',
  '            key_package.tweak::<&[u8]>(None),\n            public_key_package.tweak::<&[u8]>(None),', '            key_package,\n            public_key_package,'),
 ('M07 wrong tag in the taproot tweak (root branch)',
  '        Some(root) => {\n            let mut hasher = tagged_hash("TapTweak");', '        Some(root) => {\n            let mut hasher = tagged_hash("TapTweek");'),
 ('M08 wrong tag in the challenge hash H2',
  '        let mut hasher = tagged_hash("BIP0340/challenge");', '        let mut hasher = tagged_hash("BIP0340/nonce");'),
 ('M09 serialize_signature copies R from offset 0 (tag byte included)',
  '        bytes[..32].copy_from_slice(&R_bytes[1..]);', '        bytes[..32].copy_from_slice(&R_bytes[0..]);'),
 ('M10 serialize_signature: z written at offset 33',
  '        bytes[32..].copy_from_slice(&z_bytes);', '        bytes[33..].copy_from_slice(&z_bytes);'),
 ('M11 deserialize_signature lifts to ODD Y (tag 0x03)',
  '        R_bytes[0] = 0x02;', '        R_bytes[0] = 0x03;'),
 ('M12 PublicKeyPackage::into_even_y does not negate the verifying shares',
  '                        let vs = VerifyingShare::new(-vs.to_element());', '                        let vs = VerifyingShare::new(vs.to_element());'),
 ('M13 KeyPackage::into_even_y does not negate the signing share',
  '                let signing_share = SigningShare::new(-self.signing_share().to_scalar());', '                let signing_share = SigningShare::new(self.signing_share().to_scalar());'),
 ('M14 negate_nonces negates only the hiding nonce',
  '        negate_nonce(signing_nonces.binding()),', '        *signing_nonces.binding(),'),
 ('M15 generate_nonce: parity test inverted',
  '        if R.to_affine().y_is_odd().into() {', '        if (!R.to_affine().y_is_odd()).into() {'),
 ('M16 PublicKeyPackage::tweak does not shift the verifying shares by t*G',
  '                    let vs = VerifyingShare::new(vs.to_element() + tp);', '                    let vs = VerifyingShare::new(vs.to_element());'),
 ('M17 pre_verify does not normalise R',
  '        let signature = signature.into_even_y(None);', '        let signature = *signature;'),
 ('M18 compute_signature_share tests the parity of the KEY instead of the group commitment',
  '        let signer_nonces = if !group_commitment.has_even_y() {\n            negate_nonces(signer_nonces)',
  '        let signer_nonces = if !key_package.has_even_y() {\n            negate_nonces(signer_nonces)'),
 ('M19 KeyPackage::tweak adds t to the key but not to the signing share',
  '            let signing_share = SigningShare::new(key_package.signing_share().to_scalar() + t);', '            let signing_share = SigningShare::new(key_package.signing_share().to_scalar());'),
 ('M20 tweak hashes the root BEFORE the key',
  '            hasher.update(public_key.to_affine().x());\n            hasher.update(root.as_ref());\n', '            hasher.update(root.as_ref());\n            hasher.update(public_key.to_affine().x());\n'),
 ('M21 aggregate_with_tweak aggregates with the UNTWEAKED package',
  '    let public_key_package = public_key_package.clone().tweak(merkle_root);\n    frost::aggregate(signing_package, signature_shares, &public_key_package)',
  '    let _unused = public_key_package.clone().tweak(merkle_root);\n    frost::aggregate(signing_package, signature_shares, public_key_package)'),
 ('M23 single_sign does not normalise the secret key to even Y',
  '        let signing_key = signing_key.clone().into_even_y(None);\n        signing_key.default_sign(rng, message)', '        let signing_key = signing_key.clone();\n        signing_key.default_sign(rng, message)'),
 ('M22 tweak ignores the root (same tweak as key-path-only)',
  '            hasher.update(root.as_ref());\n', '            let _ignored = root.as_ref();\n'),
]
shutil.rmtree(SCR, ignore_errors=True)
subprocess.check_call(['rsync', '-a', '--exclude', 'target', '--exclude', '.git', os.environ.get('VERIF_REPO_SRC', '/repo') + '/', SCR + '/'])
orig = open(os.path.join(SCR, F)).read()
rows = []
try:
    for name, old, new in M:
        if ONLY and not any(name.startswith(o) for o in ONLY):
            continue
        if orig.count(old) != 1:
            rows.append((name, 'MUTATION DOES NOT APPLY (%d matches)' % orig.count(old), ''))
            continue
        open(os.path.join(SCR, F), 'w').write(orig.replace(old, new))
        p = subprocess.run([sys.executable, os.path.join(V, 'dev', 'v.py'), 'frost_secp256k1_tr'], capture_output=True, text=True, env=dict(os.environ, VERIF_REPO=SCR))
        out = p.stdout
        fails = sorted(set(l[5:].split('  [')[0].strip() for l in out.split('\n') if l.startswith('FAIL ')))
        other = [l for l in out.split('\n') if l.startswith('EXTRACT ERROR') or l.startswith('COMPILE/OTHER')]
        named = [f for f in fails if '[' in f]
        verdict = 'CAUGHT' if named else ('undecided' if other else ('caught-unnamed' if fails else 'MISSED'))
        rows.append((name, verdict, '; '.join(fails[:4]) + (' ' + other[0][:160] if other else '')))
finally:
    shutil.rmtree(SCR, ignore_errors=True)
w = max(len(r[0]) for r in rows)
bad = 0
for r in rows:
    print('%-*s  %-14s %s' % (w, r[0], r[1], r[2]))
    bad += r[1] != 'CAUGHT'
print('%d mutants, %d not caught on a named clause' % (len(rows), bad))
sys.exit(1 if bad else 0)
