#!/usr/bin/env python3
"""dev helper: run every seeded change (seeded/<ID>_<k>/patch.diff) against the check of its property on a scratch copy of /repo and
record the verdicts: first the deductive layer alone (Verus + Kani, VERIF_NO_RT=1), then -- if that did not report a violation --
the full check with the concrete replay search.  Writes seeded/MATRIX.json and seeded/MATRIX.md.  usage: dev/seedmatrix.py [ID ...] [-j N]"""
import json, os, re, subprocess, sys, glob, concurrent.futures as cf
V = os.path.dirname(os.path.dirname(os.path.abspath(__file__)))
args = [a for a in sys.argv[1:] if not a.startswith('-')]
jobs = int(sys.argv[sys.argv.index('-j') + 1]) if '-j' in sys.argv else 3
args = [a for a in args if not a.isdigit()]
seeds = sorted(d for d in glob.glob(V + '/seeded/C*_*') + glob.glob(V + '/seeded2/C*_*') + glob.glob(V + '/seeded3/C*_*') + glob.glob(V + '/seeded4/C*_*') if os.path.exists(d + '/patch.diff'))
if args:
    seeds = [d for d in seeds if os.path.basename(d).split('_')[0] in args or (os.path.basename(d) in args and '/seeded/' in d) or ('w2' in args and '/seeded2/' in d) or ('w3' in args and '/seeded3/' in d) or ('w4' in args and '/seeded4/' in d) or ('/seeded4/' in d and os.path.basename(d) + '_w4' in args) or ('/seeded3/' in d and os.path.basename(d) + '_w3' in args) or ('/seeded2/' in d and os.path.basename(d) + '_w2' in args)]
prev = {}
mp = V + '/seeded/MATRIX.json'
if os.path.exists(mp):
    prev = {r['seed']: r for r in json.load(open(mp))}

def verdict(out):
    for ln in out.split('\n'):
        m = re.match(r'(OK|VIOLATION|UNDECIDED)\b.*?(?:obligation="([^"]*)"|reason=(.*))?$', ln)
        if m:
            return m.group(1), (m.group(2) or m.group(3) or '')[:160], ('no-failing-input-found' not in ln) if m.group(1) == 'VIOLATION' else None
    return 'ERROR', out[-200:], None

def run(d):
    sid = os.path.basename(d); pid = sid.split('_')[0]
    if '/seeded2/' in d:
        sid = sid + '_w2'
    if '/seeded3/' in d:
        sid = sid + '_w3'   # hold-out wave: produced after the last change to the machinery
    if '/seeded4/' in d:
        sid = sid + '_w4'   # second hold-out wave (C05, C11, C19)
    meta = json.load(open(d + '/meta.json')) if os.path.exists(d + '/meta.json') else {}
    conf = json.load(open(d + '/confirm.json')).get('confirmed') if os.path.exists(d + '/confirm.json') else None
    r = dict(seed=sid, property=pid, summary=(meta.get('summary') or '')[:200], files=meta.get('files_changed'), confirmed=conf)
    env = dict(os.environ, VERIF_NO_RT='1')
    p = subprocess.run([V + '/dev/seedtest.sh', d + '/patch.diff', pid], capture_output=True, text=True, env=env)
    v, what, inp = verdict(p.stdout)
    r['deductive'] = dict(verdict=v, what=what)
    if v != 'VIOLATION':
        env = dict(os.environ, VERIF_RT_BUDGET='40')
        env.pop('VERIF_NO_RT', None)
        p = subprocess.run([V + '/dev/seedtest.sh', d + '/patch.diff', pid], capture_output=True, text=True, env=env)
        v2, what2, inp2 = verdict(p.stdout)
        r['full'] = dict(verdict=v2, what=what2, concrete_input=inp2)
    else:
        r['full'] = dict(verdict=v, what=what, concrete_input=inp)
    print(sid, r['deductive']['verdict'], '->', r['full']['verdict'], r['full']['what'][:90], flush=True)
    return r

with cf.ThreadPoolExecutor(max_workers=jobs) as ex:
    res = list(ex.map(run, seeds))
for r in res:
    prev[r['seed']] = r
allr = [prev[k] for k in sorted(prev)]
json.dump(allr, open(mp, 'w'), indent=1)
with open(V + '/seeded/MATRIX.md', 'w') as f:
    f.write('| seed | confirmed | deductive layer (Verus+Kani) | full check (with concrete replay search) | what the change does |\n|---|---|---|---|---|\n')
    for r in allr:
        f.write('| %s | %s | %s %s | %s %s | %s |\n' % (r['seed'], r['confirmed'], r['deductive']['verdict'], '`%s`' % r['deductive']['what'][:80] if r['deductive']['what'] else '',
                                              r['full']['verdict'], '`%s`' % r['full']['what'][:80] if r['full']['what'] else '', r['summary'].replace('|', '/').replace('\n', ' ')[:160]))
    n = len(allr); d = sum(1 for r in allr if r['deductive']['verdict'] == 'VIOLATION'); fu = sum(1 for r in allr if r['full']['verdict'] == 'VIOLATION')
    f.write('\n%d seeded changes; deductive layer alone reports %d, full check reports %d; the rest is undecided (exit 2) or missed (OK).\n' % (n, d, fu))
print('done', len(allr))
