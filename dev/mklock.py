#!/usr/bin/env python3
"""dev helper: (re)write contracts/shape.lock.json = number of loops / closures of every function under contract, taken from the
tree the contracts were written for (run it on the pinned, unmodified repo only).  usage: dev/mklock.py [unit ...]"""
import sys, os, json
V = os.path.dirname(os.path.dirname(os.path.abspath(__file__)))
sys.path.insert(0, V + '/driver'); sys.path.insert(0, V + '/extract')
import extract as EX
from driver_main import load_unit_cfg
units = [a for a in sys.argv[1:]] or ['frost_core']
path = V + '/contracts/shape.lock.json'
lock = json.load(open(path)) if os.path.exists(path) else {}
tpath = V + '/contracts/trusted_text.lock.json'
tlock = json.load(open(tpath)) if os.path.exists(tpath) else dict(assumed_functions={}, files={})
tlock.setdefault('known_functions', {})
fpath = V + '/contracts/fn_text.lock.json'
ftext = json.load(open(fpath)) if os.path.exists(fpath) else {}
import re
from rustlex import strip_comments
for u in units:
    cfg = load_unit_cfg(u); cfg['crate_name'] = 'unit'; cfg['shape_lock'] = None
    text, meta = EX.build_unit(cfg)
    for f in meta['functions']:
        if f.get('contract_file') and 'shape' in f:
            lock[f['key']] = f['shape']
        if f['mode'] == 'assumed' and 'norm_sha' in f and f.get('contract_file') and 'E9' not in f.get('rules', []):
            tlock['assumed_functions'][f['key']] = f['norm_sha']
    tlock['known_functions'][u] = sorted(f['key'] for f in meta['functions'])
    tlock.setdefault('types', {}).update(meta.get('types', {}))
    _files = {}
    for f in meta['functions']:
        if f.get('contract_file') and f.get('file') and f.get('lines'):
            try:
                if f['file'] not in _files:
                    _files[f['file']] = open(os.path.join(os.environ.get('VERIF_REPO', '/repo'), f['file'])).read().split('\n')
                src = '\n'.join(_files[f['file']][f['lines'][0] - 1:f['lines'][1]])
                ftext[f['key']] = re.sub(r'\s+', ' ', strip_comments(src)).strip()
            except Exception:
                pass
    for rel in cfg.get('trusted_files', {}):
        tlock['files'][rel] = EX.norm_sha(open(os.path.join(os.environ.get('VERIF_REPO', '/repo'), rel)).read())
json.dump(lock, open(path, 'w'), indent=0, sort_keys=True)
json.dump(tlock, open(tpath, 'w'), indent=0, sort_keys=True)
json.dump(ftext, open(fpath, 'w'), indent=0, sort_keys=True)
print('wrote', path, len(lock), 'functions;', tpath, len(tlock['assumed_functions']), 'assumed functions,', len(tlock['files']), 'files')
