#!/bin/bash
# Sensitivity self-test on REAL defects that were fixed in /repo: reverse-apply a fix commit in a scratch copy
# and check that run_rt.py <PROPERTY> reports it again (RT-FAIL + replay).
#   selftest_reverts.sh [TARGET_DIR] [PROPERTY:COMMIT ...]      default: C12:d3f017b C12:fe60530 C10:7024286
TD=${1:-/var/tmp/rt-target-I}; shift
HERE=$(cd "$(dirname "$0")" && pwd)
LIST=${*:-C12:d3f017b C12:fe60530 C10:7024286}
MUT=/var/tmp/rtmut
for pc in $LIST; do
  id=${pc%%:*}; c=${pc##*:}
  rm -rf $MUT; rsync -a --exclude target --exclude .git /repo/ $MUT/
  # cargo's freshness check is mtime based ("a source newer than the last build"): a file RESTORED by rsync carries its old mtime, so a crate
  # that the previous mutant changed and this one does not would silently keep the previous mutant's artefact.  Make every crate root new.
  touch $MUT/frost-*/src/lib.rs
  if ! git -C /repo show $c | (cd $MUT && patch -s -R -p1) >/dev/null 2>&1; then echo "$pc REVERT-DOES-NOT-APPLY"; continue; fi
  out=$TD/revert-$id-$c.json; rm -f $out
  r=$(python3 $HERE/run_rt.py $id --repo $MUT --target-dir $TD --budget-s ${BUDGET:-20} --seed ${SEED:-1} --out $out --quiet 2>/dev/null | tail -1)
  verdict=${r%% *}
  if [ "$verdict" = "RT-FAIL" ]; then
    rr=$(python3 $HERE/run_rt.py $id --repo $MUT --target-dir $TD --replay $out --quiet 2>/dev/null | tail -1)
    echo "revert-$c($id) $verdict replay=${rr%% *} :: $(echo "$r" | cut -c1-500)"
  else
    echo "revert-$c($id) $verdict :: $(echo "$r" | cut -c1-300)"
  fi
done
rm -rf $MUT
