#!/bin/bash
# Sensitivity self-test: for each seeded known-bad patch /verif/seeded/<ID>_<k>/patch.diff, apply it to a scratch
# copy of /repo and check that run_rt.py <ID> finds a failing input and that --replay reproduces it.
#   selftest_seeded.sh [TARGET_DIR] [ID_k ...]          (default: all seeds; results to stdout, one line each)
#   env: SEEDED_DIR (default /verif/seeded; the second wave is /verif/seeded2), MUT (scratch copy), BUDGET, SEED,
#        PROP (run this property instead of the seed's own, e.g. PROP=C16 for seeded2/C19_2)
TD=${1:-/var/tmp/rt-target-I}; shift
HERE=$(cd "$(dirname "$0")" && pwd)
SD=${SEEDED_DIR:-/verif/seeded}
SEEDS=${*:-$(cd $SD && ls -d */ | tr -d /)}
MUT=${MUT:-/var/tmp/rtmut}
for s in $SEEDS; do
  id=${PROP:-${s%%_*}}
  rm -rf $MUT; rsync -a --exclude target --exclude .git /repo/ $MUT/
  # cargo's freshness check is mtime based ("a source newer than the last build"): a file RESTORED by rsync carries its old mtime, so a crate
  # that the previous mutant changed and this one does not would silently keep the previous mutant's artefact.  Make every crate root new.
  touch $MUT/frost-*/src/lib.rs
  if ! (cd $MUT && patch -s -p1 < $SD/$s/patch.diff) >/dev/null 2>&1; then echo "$s PATCH-DOES-NOT-APPLY"; continue; fi
  out=$TD/seeded-$s${PROP:+-as-$PROP}.json; rm -f $out
  t0=$(date +%s)
  r=$(python3 $HERE/run_rt.py $id --repo $MUT --target-dir $TD --budget-s ${BUDGET:-20} --seed ${SEED:-1} --out $out --quiet 2>/dev/null | tail -1)
  rc=$?
  t1=$(date +%s)
  verdict=${r%% *}
  if [ "$verdict" = "RT-FAIL" ]; then
    rr=$(python3 $HERE/run_rt.py $id --repo $MUT --target-dir $TD --replay $out --quiet 2>/dev/null | tail -1)
    echo "$s $verdict replay=${rr%% *} time=$((t1-t0))s :: $(echo "$r" | cut -c1-400)"
  else
    echo "$s $verdict time=$((t1-t0))s :: $(echo "$r" | cut -c1-300)"
  fi
done
rm -rf $MUT
