use crate::Scenario;
pub fn scenarios() -> Vec<Scenario> { vec![] }
