//! C06: trusted-dealer key generation.  Every share verifies and converts into a consistent key
//! package, all parties see the same group key, the threshold is recorded, the shares are
//! evaluations of ONE polynomial of degree exactly t-1 whose value at zero is the key (any t shares
//! reconstruct it); altered shares are rejected and invalid parameters are refused.

use std::collections::{BTreeMap, BTreeSet};

use frost_core as fc;
use frost_core::keys::{self, IdentifierList, KeyPackage, SecretShare, VerifiableSecretSharingCommitment};
use frost_core::Group;
use serde_json::json;

use crate::c07::key_package_consistent;
use crate::common::*;
use crate::rng::TestRng;
use crate::{scn, Scenario};

pub fn scenarios() -> Vec<Scenario> {
    vec![
        scn!(scenario_dealer_output, 12),
        scn!(scenario_altered_share_rejected, 6),
        scn!(scenario_invalid_parameters_refused, 6),
        scn!(scenario_largest_group, 1),
        crate::wrap::scn_dealer(4),
    ]
}

#[allow(clippy::type_complexity)]
fn deal<C: Suite>(
    rng: &mut TestRng,
    p: &Params,
    ids: &[Id<C>],
    notes: &mut Notes,
    strict: bool,
) -> Result<(BTreeMap<Id<C>, SecretShare<C>>, keys::PublicKeyPackage<C>, Option<fc::SigningKey<C>>), Stop> {
    let use_split = rng.chance(50);
    notes.insert("entry_point".into(), json!(if use_split { "split" } else { "generate_with_dealer" }));
    let list = if p.id_scheme == "default" {
        IdentifierList::Default
    } else {
        IdentifierList::Custom(ids)
    };
    if use_split {
        let sk = fc::SigningKey::<C>::new(rng);
        let (s, pk) = step(strict, keys::split::<C, _>(&sk, p.n, p.t, list, rng), "split with valid parameters")?;
        Ok((s, pk, Some(sk)))
    } else {
        let (s, pk) = step(
            strict,
            keys::generate_with_dealer::<C, _>(p.n, p.t, list, rng),
            "generate_with_dealer with valid parameters",
        )?;
        Ok((s, pk, None))
    }
}

/// Independent evaluation of the VSS equation: sum_k id^k * C_k.
fn eval_commitment<C: Suite>(id: &Id<C>, c: &VerifiableSecretSharingCommitment<C>) -> Result<El<C>, Stop> {
    let x = id_scalar::<C>(id)?;
    let list = need(c.serialize(), "commitment serialize")?;
    let mut acc = <Gr<C> as Group>::identity();
    let mut pow = one::<C>();
    for cb in list {
        let ck = need(keys::CoefficientCommitment::<C>::deserialize(&cb), "coefficient")?;
        acc = acc + ck.value() * pow;
        pow = pow * x;
    }
    Ok(acc)
}

pub fn scenario_dealer_output<C: Suite>(rng: &mut TestRng, p: &Params, notes: &mut Notes) -> Verdict {
    let ids = make_ids::<C>(&p.ids)?;
    let (shares, pkp, sk) = deal::<C>(rng, p, &ids, notes, true)?;
    let id_set: BTreeSet<Id<C>> = ids.iter().copied().collect();
    check(
        shares.keys().copied().collect::<BTreeSet<_>>() == id_set && shares.len() == p.n as usize,
        "the dealer issues exactly one share per requested identifier",
        format!("{:?}", ids_hex::<C>(&ids)),
        format!("{:?}", shares.keys().map(id_hex::<C>).collect::<Vec<_>>()),
    )?;
    check(
        pkp.verifying_shares().keys().copied().collect::<BTreeSet<_>>() == id_set,
        "the public key package lists exactly the requested identifiers",
        format!("{:?}", ids_hex::<C>(&ids)),
        format!("{:?}", pkp.verifying_shares().keys().map(id_hex::<C>).collect::<Vec<_>>()),
    )?;
    if let Some(sk) = &sk {
        let vk = fc::VerifyingKey::<C>::from(sk);
        // the Taproot suite may hand out the negated key? no: split() keeps the key; compare directly
        check(
            &vk == pkp.verifying_key(),
            "split(): the group key is the public key of the key that was split",
            hex(&vkey_bytes::<C>(&vk)),
            hex(&vkey_bytes::<C>(pkp.verifying_key())),
        )?;
    }
    let first_commitment = match shares.values().next() {
        Some(s) => s.commitment().clone(),
        None => return fail("the dealer issues shares", p.n.to_string(), "0"),
    };
    let clen = first_commitment.serialize().map(|v| v.len()).unwrap_or(0);
    check(
        clen == p.t as usize,
        "the published commitment has exactly min_signers coefficients",
        p.t.to_string(),
        clen.to_string(),
    )?;
    let mut kps: BTreeMap<Id<C>, KeyPackage<C>> = BTreeMap::new();
    for (id, share) in &shares {
        check(share.identifier() == id, "share is filed under its own identifier", id_hex::<C>(id), id_hex::<C>(share.identifier()))?;
        check(
            share.commitment() == &first_commitment,
            "all shares carry the same commitment",
            "equal commitments",
            "different commitments",
        )?;
        // independent VSS check
        let lhs = base_mul::<C>(&share_scalar::<C>(share.signing_share())?);
        let rhs = eval_commitment::<C>(id, share.commitment())?;
        check(
            lhs == rhs,
            "share value times generator equals the commitment evaluated at the identifier (independent evaluation)",
            hex(&elem_bytes::<C>(&rhs)),
            hex(&elem_bytes::<C>(&lhs)),
        )?;
        let (vs, vk) = must(share.verify(), &format!("SecretShare::verify of the honest share of {}", id_hex::<C>(id)))?;
        check(
            &vk == pkp.verifying_key(),
            "every share verifies to the same group key",
            hex(&vkey_bytes::<C>(pkp.verifying_key())),
            hex(&vkey_bytes::<C>(&vk)),
        )?;
        check(
            pkp.verifying_shares().get(id) == Some(&vs),
            "SecretShare::verify returns the participant's entry of the public key package",
            format!("{:?}", pkp.verifying_shares().get(id).map(|v| hex(&vshare_bytes::<C>(v)))),
            hex(&vshare_bytes::<C>(&vs)),
        )?;
        let kp = must(KeyPackage::<C>::try_from(share.clone()), "KeyPackage::try_from(honest share)")?;
        key_package_consistent::<C>(&kp, &pkp, id, p.t, "dealer key package")?;
        kps.insert(*id, kp);
    }
    // any t shares (and t+1, and all) reconstruct the key; t-1 do not
    let recon = |k: usize, rng: &mut TestRng| -> Result<fc::SigningKey<C>, Stop> {
        let sub = rng.subset(ids.len(), k);
        let set: Vec<KeyPackage<C>> = sub.iter().filter_map(|i| ids.get(*i)).filter_map(|i| kps.get(i)).cloned().collect();
        must(keys::reconstruct::<C>(&set), &format!("reconstruct from {k} >= t key packages"))
    };
    let mut secrets = Vec::new();
    for k in [p.t as usize, p.t as usize, (p.t as usize + 1).min(ids.len()), ids.len()] {
        let r = recon(k, rng)?;
        let vk = fc::VerifyingKey::<C>::from(&r);
        check(
            &vk == pkp.verifying_key(),
            "any >= t shares interpolate to the secret of the group key",
            hex(&vkey_bytes::<C>(pkp.verifying_key())),
            hex(&vkey_bytes::<C>(&vk)),
        )?;
        secrets.push(r.serialize());
    }
    if let Some(sk) = &sk {
        check(
            secrets.iter().all(|s| *s == sk.serialize()),
            "split(): any >= t shares reconstruct exactly the key that was split",
            "the key",
            "another scalar",
        )?;
    }
    // degree is exactly t-1: t-1 holders (claiming threshold t-1) get something else
    if p.t > 2 {
        let sub = rng.subset(ids.len(), p.t as usize - 1);
        let set: Vec<KeyPackage<C>> = sub
            .iter()
            .filter_map(|i| ids.get(*i))
            .filter_map(|i| kps.get(i))
            .map(|k| KeyPackage::<C>::new(*k.identifier(), *k.signing_share(), *k.verifying_share(), *k.verifying_key(), p.t - 1))
            .collect();
        if let Ok(r) = keys::reconstruct::<C>(&set) {
            check(
                &fc::VerifyingKey::<C>::from(&r) != pkp.verifying_key(),
                "the sharing polynomial has degree exactly t-1 (t-1 shares do not interpolate to the key)",
                "a different value",
                "the key",
            )?;
        }
    }
    Ok(())
}

pub fn scenario_altered_share_rejected<C: Suite>(rng: &mut TestRng, p: &Params, notes: &mut Notes) -> Verdict {
    let ids = make_ids::<C>(&p.ids)?;
    let (shares, _pkp, _) = deal::<C>(rng, p, &ids, notes, false)?;
    let victim = match ids.get(rng.below(ids.len())) {
        Some(i) => *i,
        None => return skip("internal"),
    };
    let share = match shares.get(&victim) {
        Some(s) => s.clone(),
        None => return skip("internal"),
    };
    need(share.verify(), "honest share verifies (subject of scenario_dealer_output)")?;
    let kinds = ["value-plus-one", "value-random", "value-of-another-participant", "identifier-of-another-participant", "identifier-outsider", "one-commitment-coefficient", "commitment-coefficients-swapped"];
    let mut kind = kinds[rng.below(kinds.len())];
    if kind == "commitment-coefficients-swapped" && p.t < 2 {
        kind = "value-plus-one";
    }
    notes.insert("alteration".into(), json!(kind));
    notes.insert("share_of_hex".into(), json!(id_hex::<C>(&victim)));
    let other = match ids.iter().find(|i| **i != victim) {
        Some(i) => *i,
        None => return skip("internal"),
    };
    let s = share_scalar::<C>(share.signing_share())?;
    let altered: SecretShare<C> = match kind {
        "value-plus-one" => SecretShare::new(victim, make_signing_share::<C>(&(s + one::<C>()))?, share.commitment().clone()),
        "value-random" => SecretShare::new(victim, make_signing_share::<C>(&random_nonzero_scalar::<C>(rng))?, share.commitment().clone()),
        "value-of-another-participant" => match shares.get(&other) {
            Some(o) => SecretShare::new(victim, *o.signing_share(), share.commitment().clone()),
            None => return skip("internal"),
        },
        "identifier-of-another-participant" => SecretShare::new(other, *share.signing_share(), share.commitment().clone()),
        "identifier-outsider" => {
            let o = need(Id::<C>::derive(b"somebody else"), "derive")?;
            if o == victim {
                return skip("collision");
            }
            SecretShare::new(o, *share.signing_share(), share.commitment().clone())
        }
        "one-commitment-coefficient" => {
            let mut list = need(share.commitment().serialize(), "serialize")?;
            let k = rng.below(list.len());
            notes.insert("coefficient".into(), json!(k));
            if let Some(slot) = list.get_mut(k) {
                *slot = elem_bytes::<C>(&base_mul::<C>(&random_nonzero_scalar::<C>(rng)));
            }
            let c = need(VerifiableSecretSharingCommitment::<C>::deserialize(list), "deserialize")?;
            SecretShare::new(victim, *share.signing_share(), c)
        }
        _ => {
            let mut list = need(share.commitment().serialize(), "serialize")?;
            let a = rng.below(list.len());
            let b = (a + 1 + rng.below(list.len() - 1)) % list.len();
            list.swap(a, b);
            let c = need(VerifiableSecretSharingCommitment::<C>::deserialize(list), "deserialize")?;
            // (x^a - x^b)(C_a - C_b) = 0 only if x^a == x^b; for identifier 1 every power is 1
            if id_scalar::<C>(&victim)? == one::<C>() {
                return skip("identifier 1 does not distinguish coefficient positions");
            }
            let xa = pow::<C>(&id_scalar::<C>(&victim)?, a);
            let xb = pow::<C>(&id_scalar::<C>(&victim)?, b);
            if xa == xb {
                return skip("identifier powers coincide");
            }
            SecretShare::new(victim, *share.signing_share(), c)
        }
    };
    must_refuse(altered.verify(), &format!("SecretShare::verify of an altered share ({kind})"))?;
    must_refuse(KeyPackage::<C>::try_from(altered), &format!("KeyPackage::try_from of an altered share ({kind})"))?;
    Ok(())
}

fn pow<C: Suite>(x: &Sc<C>, e: usize) -> Sc<C> {
    let mut r = one::<C>();
    for _ in 0..e {
        r = r * *x;
    }
    r
}

pub fn scenario_invalid_parameters_refused<C: Suite>(rng: &mut TestRng, p: &Params, notes: &mut Notes) -> Verdict {
    let ids = make_ids::<C>(&p.ids)?;
    let kinds = [
        "min-signers-0",
        "min-signers-1",
        "max-signers-0",
        "max-signers-1",
        "min-greater-than-max",
        "too-few-identifiers",
        "too-many-identifiers",
        "no-identifiers",
        "duplicate-adjacent",
        "duplicate-non-adjacent",
        "too-many-identifiers-by-65536",
    ];
    let mut kind = kinds[rng.below(kinds.len())];
    if kind == "too-many-identifiers-by-65536" && rng.chance(50) {
        // (65536 further identifiers have to be built: keep it rarer than the others)
        kind = "too-many-identifiers";
    }
    notes.insert("invalid".into(), json!(kind));
    let outsider = need(Id::<C>::derive(b"one identifier too many"), "derive")?;
    if ids.contains(&outsider) {
        return skip("collision");
    }
    let (mut n, mut t) = (p.n, p.t);
    let mut list: Vec<Id<C>> = ids.clone();
    let mut use_default = p.id_scheme == "default";
    match kind {
        "min-signers-0" => t = 0,
        "min-signers-1" => t = 1,
        "max-signers-0" => {
            n = 0;
            list.clear();
        }
        "max-signers-1" => {
            n = 1;
            list.truncate(1);
        }
        "min-greater-than-max" => t = n + 1 + rng.below(3) as u16,
        "too-few-identifiers" => {
            let cut = rng.range(1, list.len());
            list.truncate(list.len() - cut);
            use_default = false;
        }
        "too-many-identifiers" => {
            list.push(outsider);
            if rng.chance(30) {
                list.push(need(Id::<C>::derive(b"and yet another one"), "derive")?);
            }
            rng.shuffle(&mut list);
            use_default = false;
        }
        "too-many-identifiers-by-65536" => {
            // the list length equals max_signers modulo 2^16 (a length check done in u16 arithmetic lets it pass)
            let have: std::collections::BTreeSet<Id<C>> = list.iter().copied().collect();
            let mut extra: Vec<Id<C>> = Vec::with_capacity(65536);
            let mut k = 1u32;
            while extra.len() < 65536 {
                let cand = if k <= 65535 {
                    need(Id::<C>::try_from(k as u16), "id")?
                } else {
                    need(Id::<C>::derive(format!("surplus-{k}").as_bytes()), "derive")?
                };
                k += 1;
                if !have.contains(&cand) {
                    extra.push(cand);
                }
            }
            list.extend(extra);
            use_default = false;
        }
        "no-identifiers" => {
            list.clear();
            use_default = false;
        }
        "duplicate-adjacent" => {
            let i = rng.below(list.len());
            let j = if i + 1 < list.len() { i + 1 } else { i - 1 };
            if let Some(v) = list.get(i).copied() {
                if let Some(slot) = list.get_mut(j) {
                    *slot = v;
                }
            }
            use_default = false;
        }
        _ => {
            if list.len() < 3 {
                return skip("needs three identifiers");
            }
            // positions at distance >= 2
            let i = rng.below(list.len() - 2);
            let j = rng.range(i + 2, list.len() - 1);
            if let Some(v) = list.get(i).copied() {
                if let Some(slot) = list.get_mut(j) {
                    *slot = v;
                }
            }
            use_default = false;
        }
    }
    notes.insert("max_signers".into(), json!(n));
    notes.insert("min_signers".into(), json!(t));
    notes.insert("identifier_list_length".into(), json!(if use_default { n as usize } else { list.len() }));
    notes.insert(
        "identifier_list_hex".into(),
        json!(if use_default { vec!["<default>".to_string()] } else { ids_hex::<C>(list.get(..list.len().min(12)).unwrap_or(&[])) }),
    );
    fn mk<'a, C: Suite>(use_default: bool, l: &'a [Id<C>]) -> IdentifierList<'a, C> {
        if use_default {
            IdentifierList::Default
        } else {
            IdentifierList::Custom(l)
        }
    }
    match keys::generate_with_dealer::<C, _>(n, t, mk::<C>(use_default, &list), rng) {
        Err(_) => {}
        Ok((s, pk)) => {
            return fail(
                &format!("generate_with_dealer refuses invalid parameters ({kind})"),
                "Err(..)",
                format!("Ok({} shares, {} verifying shares)", s.len(), pk.verifying_shares().len()),
            )
        }
    }
    let sk = fc::SigningKey::<C>::new(rng);
    match keys::split::<C, _>(&sk, n, t, mk::<C>(use_default, &list), rng) {
        Err(_) => Ok(()),
        Ok((s, pk)) => fail(
            &format!("split refuses invalid parameters ({kind})"),
            "Err(..)",
            format!("Ok({} shares, {} verifying shares)", s.len(), pk.verifying_shares().len()),
        ),
    }
}

/// The largest group the API admits: max_signers = u16::MAX with default identifiers.
/// (expensive: only on the fast suites, and rarely)
pub fn scenario_largest_group<C: Suite>(rng: &mut TestRng, _p: &Params, notes: &mut Notes) -> Verdict {
    if C::NAME == "ed448" || C::NAME == "p256" {
        return skip("largest-group case is run on the fast suites only");
    }
    let n = u16::MAX;
    let t = 2u16;
    notes.insert("max_signers".into(), json!(n));
    notes.insert("min_signers".into(), json!(t));
    let (shares, pkp) = must(
        keys::generate_with_dealer::<C, _>(n, t, IdentifierList::Default, rng),
        "generate_with_dealer(65535, 2, Default)",
    )?;
    check(
        shares.len() == n as usize && pkp.verifying_shares().len() == n as usize,
        "the dealer issues one share per participant for max_signers = 65535",
        "65535 shares and verifying shares",
        format!("{} shares, {} verifying shares", shares.len(), pkp.verifying_shares().len()),
    )?;
    for probe in [1u16, 2, 255, 256, 32768, 65534, 65535] {
        let id = need(Id::<C>::try_from(probe), "id")?;
        match shares.get(&id) {
            Some(s) => {
                must(s.verify(), &format!("SecretShare::verify of participant {probe} of 65535"))?;
            }
            None => return fail("there is a share for every identifier 1..=65535", format!("share for {probe}"), "none"),
        }
    }
    Ok(())
}
