//! C05: session binding.  A share made for signing package A is rejected in a package B that differs
//! in the message, one commitment, the participant set, the group key or the claimed identifier;
//! a signer refuses when its own entry is missing or differs from its nonces' commitments; packages
//! with an identity commitment are rejected.

use std::collections::BTreeMap;

use frost_core as fc;
use frost_core::keys::PublicKeyPackage;
use frost_core::round1::{NonceCommitment, SigningCommitments};
use frost_core::{CheaterDetection, Group};
use serde_json::json;

use crate::common::*;
use crate::rng::TestRng;
use crate::{scn, Scenario};

pub fn scenarios() -> Vec<Scenario> {
    vec![
        scn!(scenario_share_rejected_in_other_session, 3),
        scn!(scenario_claimed_identifier, 2),
        scn!(scenario_signer_checks_own_entry, 3),
        scn!(scenario_identity_commitment, 1),
        crate::wrap::scn_sign_aggregate(2),
    ]
}

fn other_message(rng: &mut TestRng, m: &[u8]) -> Vec<u8> {
    match rng.below(4) {
        0 if !m.is_empty() => Vec::new(),
        1 => {
            let mut v = m.to_vec();
            v.push(0);
            v
        }
        2 if !m.is_empty() => {
            let mut v = m.to_vec();
            let i = rng.below(v.len());
            if let Some(b) = v.get_mut(i) {
                *b ^= 1 << rng.below(8);
            }
            v
        }
        _ => {
            let mut v = rng.bytes(m.len() + 1);
            if v == m {
                v.push(1);
            }
            v
        }
    }
}

/// Share z_i made in session A; package B differs in one respect.  Both the standalone share check
/// and aggregation (all modes) must reject.
pub fn scenario_share_rejected_in_other_session<C: Suite>(rng: &mut TestRng, p: &Params, notes: &mut Notes) -> Verdict {
    let (keys, signers, a) = setup_session::<C>(rng, p)?;
    need(fc::aggregate::<C>(&a.package, &a.shares, &keys.pubkeys), "honest aggregation (subject of C01)")?;
    let vk = keys.pubkeys.verifying_key();
    let non_signers: Vec<Id<C>> = keys.ids.iter().filter(|i| !signers.contains(i)).copied().collect();
    // a concurrent session B of the same signers (fresh nonces)
    let (b_nonces, b_commitments) = commit_all::<C>(rng, &keys.key_packages, &signers)?;

    let mut kinds = vec!["message", "one-hiding-commitment", "one-binding-commitment", "one-commitment-pair-from-concurrent-session", "all-commitments-from-concurrent-session", "group-key"];
    if !non_signers.is_empty() {
        kinds.push("participant-added");
        kinds.push("participant-replaced");
    }
    if signers.len() > p.t as usize {
        kinds.push("participant-removed");
    }
    let kind = kinds[rng.below(kinds.len())];
    notes.insert("difference".into(), json!(kind));
    let victim = match signers.get(rng.below(signers.len())) {
        Some(i) => *i,
        None => return skip("internal"),
    };
    notes.insert("changed_participant_hex".into(), json!(id_hex::<C>(&victim)));

    let mut commitments_b = a.commitments.clone();
    let mut message_b = p.message.clone();
    let mut pubkeys_b = keys.pubkeys.clone();
    let mut shares_b = a.shares.clone();
    match kind {
        "message" => message_b = other_message(rng, &p.message),
        "one-hiding-commitment" | "one-binding-commitment" | "one-commitment-pair-from-concurrent-session" => {
            let (ca, cb) = match (a.commitments.get(&victim), b_commitments.get(&victim)) {
                (Some(x), Some(y)) => (x, y),
                _ => return skip("internal"),
            };
            let mixed = match kind {
                "one-hiding-commitment" => SigningCommitments::<C>::new(*cb.hiding(), *ca.binding()),
                "one-binding-commitment" => SigningCommitments::<C>::new(*ca.hiding(), *cb.binding()),
                _ => *cb,
            };
            commitments_b.insert(victim, mixed);
        }
        "all-commitments-from-concurrent-session" => commitments_b = b_commitments.clone(),
        "group-key" => {
            // same verifying shares, another group key
            let other = base_mul::<C>(&random_nonzero_scalar::<C>(rng));
            let ovk = need(fc::VerifyingKey::<C>::deserialize(&elem_bytes::<C>(&other)), "VerifyingKey::deserialize")?;
            pubkeys_b = PublicKeyPackage::<C>::new(keys.pubkeys.verifying_shares().clone(), ovk, keys.pubkeys.min_signers());
        }
        "participant-added" | "participant-replaced" => {
            let extra = match non_signers.get(rng.below(non_signers.len())) {
                Some(i) => *i,
                None => return skip("internal"),
            };
            let kp = match keys.key_packages.get(&extra) {
                Some(k) => k,
                None => return skip("internal"),
            };
            let (n_extra, c_extra) = fc::round1::commit::<C, _>(kp.signing_share(), rng);
            if kind == "participant-replaced" {
                commitments_b.remove(&victim);
                shares_b.remove(&victim);
            }
            commitments_b.insert(extra, c_extra);
            // the newcomer signs honestly in session B
            let pkg_b = fc::SigningPackage::<C>::new(commitments_b.clone(), &message_b);
            let s = need(fc::round2::sign::<C>(&pkg_b, &n_extra, kp), "honest sign of the added participant")?;
            shares_b.insert(extra, s);
            notes.insert("added_participant_hex".into(), json!(id_hex::<C>(&extra)));
        }
        _ => {
            commitments_b.remove(&victim);
            shares_b.remove(&victim);
        }
    }
    let _ = b_nonces;
    let package_b = fc::SigningPackage::<C>::new(commitments_b.clone(), &message_b);
    // (by encoding, not by the library's PartialEq: seeded2/C05_2 breaks the equality of SigningCommitments)
    if same_encoding(package_b.serialize(), a.package.serialize()) && same_encoding(pubkeys_b.serialize(), keys.pubkeys.serialize()) {
        return skip("variant equals the original session");
    }

    // every share of session A that is still filed in B is individually rejected there
    for (id, share) in &a.shares {
        if !commitments_b.contains_key(id) {
            continue;
        }
        // changing a single commitment changes the binding factors of ALL signers, so every A-share is stale
        let vs = match keys.pubkeys.verifying_shares().get(id) {
            Some(v) => v,
            None => return skip("internal"),
        };
        if let Ok(()) = fc::verify_signature_share::<C>(*id, vs, share, &package_b, pubkeys_b.verifying_key()) {
            return fail(
                &format!("verify_signature_share rejects a share made for another session (difference: {kind})"),
                "Err(..)",
                format!("Ok(()) for the share of {}", id_hex::<C>(id)),
            );
        }
    }
    // and the shares do not aggregate in B
    for (mname, mode) in [
        ("FirstCheater", CheaterDetection::FirstCheater),
        ("AllCheaters", CheaterDetection::AllCheaters),
        ("Disabled", CheaterDetection::Disabled),
    ] {
        if let Ok(sig) = fc::aggregate_custom::<C>(&package_b, &shares_b, &pubkeys_b, mode) {
            return fail(
                &format!("aggregate_custom({mname}) rejects shares made for another session (difference: {kind})"),
                "Err(..)",
                format!(
                    "Ok({}); valid under the original group key for B's message: {}",
                    short_dbg(&sig),
                    vk.verify(&message_b, &sig).is_ok()
                ),
            );
        }
    }
    Ok(())
}

/// The claimed identifier of a share is part of the session: a share filed under another identifier
/// is rejected by the share check and by aggregation.
pub fn scenario_claimed_identifier<C: Suite>(rng: &mut TestRng, p: &Params, notes: &mut Notes) -> Verdict {
    let (keys, signers, a) = setup_session::<C>(rng, p)?;
    need(fc::aggregate::<C>(&a.package, &a.shares, &keys.pubkeys), "honest aggregation (subject of C01)")?;
    let vk = keys.pubkeys.verifying_key();
    let i = rng.below(signers.len());
    let owner = match signers.get(i) {
        Some(x) => *x,
        None => return skip("internal"),
    };
    let share = match a.shares.get(&owner) {
        Some(s) => *s,
        None => return skip("internal"),
    };
    let non_signers: Vec<Id<C>> = keys.ids.iter().filter(|x| !signers.contains(x)).copied().collect();
    let outsider = need(Id::<C>::derive(b"identifier unknown to the group"), "derive")?;
    let mut kinds = vec!["another-signer", "swap-two-signers", "unknown-identifier"];
    if !non_signers.is_empty() {
        kinds.push("group-member-that-is-not-signing");
    }
    let kind = kinds[rng.below(kinds.len())];
    notes.insert("refiled_as".into(), json!(kind));
    notes.insert("share_owner_hex".into(), json!(id_hex::<C>(&owner)));
    let other_signer = match signers.get((i + 1 + rng.below(signers.len() - 1)) % signers.len()) {
        Some(x) => *x,
        None => return skip("internal"),
    };
    let claimed = match kind {
        "another-signer" | "swap-two-signers" => other_signer,
        "unknown-identifier" => outsider,
        _ => match non_signers.get(rng.below(non_signers.len())) {
            Some(x) => *x,
            None => return skip("internal"),
        },
    };
    if keys.ids.contains(&outsider) {
        return skip("collision");
    }
    notes.insert("claimed_identifier_hex".into(), json!(id_hex::<C>(&claimed)));

    // share check under the claimed identifier (with the claimed participant's verifying share if it has one)
    let vs = keys
        .pubkeys
        .verifying_shares()
        .get(&claimed)
        .or_else(|| keys.pubkeys.verifying_shares().get(&owner));
    if let Some(vs) = vs {
        if let Ok(()) = fc::verify_signature_share::<C>(claimed, vs, &share, &a.package, vk) {
            return fail(
                "verify_signature_share rejects a share under a claimed identifier other than its maker's",
                "Err(..)",
                "Ok(())",
            );
        }
    }
    // aggregation: same number of shares, but one filed under the wrong identifier
    let mut shares = a.shares.clone();
    match kind {
        "another-signer" => {
            // owner's share replaces other_signer's; owner's own slot keeps its share
            shares.insert(other_signer, share);
        }
        "swap-two-signers" => {
            if let Some(o) = a.shares.get(&other_signer) {
                shares.insert(owner, *o);
                shares.insert(other_signer, share);
            }
        }
        _ => {
            shares.remove(&owner);
            shares.insert(claimed, share);
        }
    }
    for (mname, mode) in [
        ("FirstCheater", CheaterDetection::FirstCheater),
        ("AllCheaters", CheaterDetection::AllCheaters),
        ("Disabled", CheaterDetection::Disabled),
    ] {
        // A swap of two shares inside the signer set leaves the sum unchanged, so the aggregate is a
        // valid signature and aggregation (which only looks for culprits when the aggregate is
        // invalid) returns it: "errors that cancel can at most yield a valid signature" (C04).  Only
        // the standalone share check above can see a swap.
        if kind == "swap-two-signers" {
            continue;
        }
        if let Ok(sig) = fc::aggregate_custom::<C>(&a.package, &shares, &keys.pubkeys, mode) {
            return fail(
                &format!("aggregate_custom({mname}) rejects a share filed under an identifier other than its maker's ({kind})"),
                "Err(..)",
                format!("Ok({})", short_dbg(&sig)),
            );
        }
    }
    Ok(())
}

/// round2::sign refuses when the signer's own entry is missing or is not the commitment pair of the
/// nonces it is asked to use.
pub fn scenario_signer_checks_own_entry<C: Suite>(rng: &mut TestRng, p: &Params, notes: &mut Notes) -> Verdict {
    let keys = keygen::<C>(rng, p, false)?;
    let signers = signer_ids::<C>(&keys, p);
    let (nonces_a, commitments_a) = commit_all::<C>(rng, &keys.key_packages, &signers)?;
    let (_nonces_b, commitments_b) = commit_all::<C>(rng, &keys.key_packages, &signers)?;
    let i = rng.below(signers.len());
    let me = match signers.get(i) {
        Some(x) => *x,
        None => return skip("internal"),
    };
    let other = match signers.get((i + 1 + rng.below(signers.len() - 1)) % signers.len()) {
        Some(x) => *x,
        None => return skip("internal"),
    };
    let non_signers: Vec<Id<C>> = keys.ids.iter().filter(|x| !signers.contains(x)).copied().collect();
    let mut kinds = vec![
        "own-entry-from-concurrent-session",
        "hiding-from-concurrent-session",
        "binding-from-concurrent-session",
        "hiding-and-binding-swapped",
        "entries-of-two-signers-swapped",
        "own-entry-is-other-signers-pair",
        "own-entry-foreign-real-pair-under-other-identifier",
        "own-pair-rotated-among-all-signers",
    ];
    if !non_signers.is_empty() {
        kinds.push("own-entry-missing");
        kinds.push("own-entry-moved-to-non-signer");
    }
    let kind = kinds[rng.below(kinds.len())];
    notes.insert("fault".into(), json!(kind));
    notes.insert("signer_hex".into(), json!(id_hex::<C>(&me)));
    let (mine_a, mine_b, others_a) = match (commitments_a.get(&me), commitments_b.get(&me), commitments_a.get(&other)) {
        (Some(x), Some(y), Some(z)) => (*x, *y, *z),
        _ => return skip("internal"),
    };
    let mut cm = commitments_a.clone();
    match kind {
        "own-entry-from-concurrent-session" => {
            cm.insert(me, mine_b);
        }
        "hiding-from-concurrent-session" => {
            cm.insert(me, SigningCommitments::<C>::new(*mine_b.hiding(), *mine_a.binding()));
        }
        "binding-from-concurrent-session" => {
            cm.insert(me, SigningCommitments::<C>::new(*mine_a.hiding(), *mine_b.binding()));
        }
        "hiding-and-binding-swapped" => {
            cm.insert(me, SigningCommitments::<C>::new(*mine_a.binding(), *mine_a.hiding()));
        }
        "entries-of-two-signers-swapped" => {
            cm.insert(me, others_a);
            cm.insert(other, mine_a);
        }
        "own-entry-is-other-signers-pair" => {
            cm.insert(me, others_a);
        }
        "own-entry-foreign-real-pair-under-other-identifier" => {
            cm.insert(me, mine_b);
            cm.insert(other, mine_a);
        }
        "own-pair-rotated-among-all-signers" => {
            // every signer's pair moves to the next signer (in identifier order)
            let ids: Vec<Id<C>> = commitments_a.keys().copied().collect();
            let vals: Vec<SigningCommitments<C>> = commitments_a.values().copied().collect();
            for (k, id) in ids.iter().enumerate() {
                if let Some(v) = vals.get((k + 1) % vals.len()) {
                    cm.insert(*id, *v);
                }
            }
        }
        "own-entry-missing" | "own-entry-moved-to-non-signer" => {
            // keep the package at >= t entries so that only the own-entry check can refuse
            let extra = match non_signers.get(rng.below(non_signers.len())) {
                Some(x) => *x,
                None => return skip("internal"),
            };
            cm.remove(&me);
            if kind == "own-entry-missing" {
                let kp = match keys.key_packages.get(&extra) {
                    Some(k) => k,
                    None => return skip("internal"),
                };
                let (_, c) = fc::round1::commit::<C, _>(kp.signing_share(), rng);
                cm.insert(extra, c);
            } else {
                cm.insert(extra, mine_a);
            }
        }
        _ => {}
    }
    if cm.get(&me).is_some_and(|c| same_encoding(c.serialize(), mine_a.serialize())) {
        return skip("own entry unchanged");
    }
    let package = fc::SigningPackage::<C>::new(cm, &p.message);
    let (kp, nc) = match (keys.key_packages.get(&me), nonces_a.get(&me)) {
        (Some(k), Some(n)) => (k, n),
        _ => return skip("internal"),
    };
    match fc::round2::sign::<C>(&package, nc, kp) {
        Err(_) => Ok(()),
        Ok(s) => fail(
            &format!("round2::sign refuses when the signer's own entry in the package is missing or is not the commitment pair of its nonces ({kind})"),
            "Err(MissingCommitment | IncorrectCommitment)",
            format!("Ok({})", short_dbg(&s)),
        ),
    }
}

/// A package in which some participant's hiding or binding commitment is the identity element.
pub fn scenario_identity_commitment<C: Suite>(rng: &mut TestRng, p: &Params, notes: &mut Notes) -> Verdict {
    let (keys, signers, a) = setup_session::<C>(rng, p)?;
    let i = rng.below(signers.len());
    let bad = match signers.get(i) {
        Some(x) => *x,
        None => return skip("internal"),
    };
    let good = match signers.get((i + 1 + rng.below(signers.len() - 1)) % signers.len()) {
        Some(x) => *x,
        None => return skip("internal"),
    };
    let which = ["hiding", "binding", "both"][rng.below(3)];
    notes.insert("identity_commitment".into(), json!(which));
    notes.insert("of_participant_hex".into(), json!(id_hex::<C>(&bad)));
    let ident = NonceCommitment::<C>::new(<Gr<C> as Group>::identity());
    let orig = match a.commitments.get(&bad) {
        Some(c) => *c,
        None => return skip("internal"),
    };
    let forged = match which {
        "hiding" => SigningCommitments::<C>::new(ident, *orig.binding()),
        "binding" => SigningCommitments::<C>::new(*orig.hiding(), ident),
        _ => SigningCommitments::<C>::new(ident, ident),
    };
    let mut cm: BTreeMap<Id<C>, SigningCommitments<C>> = a.commitments.clone();
    cm.insert(bad, forged);
    let package = fc::SigningPackage::<C>::new(cm, &p.message);
    // an honest co-signer refuses
    if let (Some(kp), Some(nc)) = (keys.key_packages.get(&good), a.nonces.get(&good)) {
        must_refuse(
            fc::round2::sign::<C>(&package, nc, kp),
            "round2::sign of a package that contains an identity commitment",
        )?;
    }
    // the coordinator refuses
    must_refuse(
        fc::aggregate::<C>(&package, &a.shares, &keys.pubkeys),
        "aggregate of a package that contains an identity commitment",
    )?;
    if let (Some(vs), Some(sh)) = (keys.pubkeys.verifying_shares().get(&good), a.shares.get(&good)) {
        must_refuse(
            fc::verify_signature_share::<C>(good, vs, sh, &package, keys.pubkeys.verifying_key()),
            "verify_signature_share against a package that contains an identity commitment",
        )?;
    }
    Ok(())
}
