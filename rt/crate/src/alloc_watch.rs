//! A global allocator wrapper that can, for the current thread and for a short window, scan every
//! block handed back to the allocator for given byte patterns.  Used by C20 to see whether a secret
//! that lives in a heap buffer (the coefficient vector of dkg::round1::SecretPackage) is wiped before
//! the buffer is freed.  Outside a window the only cost is one thread-local flag test per (de)allocation.

use std::alloc::{GlobalAlloc, Layout, System};
use std::cell::{Cell, UnsafeCell};

pub const MAX_PATTERNS: usize = 24;
pub const MAX_LEN: usize = 64;

pub struct Watch;

struct Table {
    n: usize,
    len: [usize; MAX_PATTERNS],
    bytes: [[u8; MAX_LEN]; MAX_PATTERNS],
}

thread_local! {
    // const-initialised, no destructors: safe to touch from inside the allocator
    static ACTIVE: Cell<bool> = const { Cell::new(false) };
    static HITS: Cell<usize> = const { Cell::new(0) };
    static FREED_BYTES: Cell<usize> = const { Cell::new(0) };
    static TABLE: UnsafeCell<Table> = const { UnsafeCell::new(Table { n: 0, len: [0; MAX_PATTERNS], bytes: [[0; MAX_LEN]; MAX_PATTERNS] }) };
}

fn scan(ptr: *const u8, size: usize) {
    let _ = TABLE.try_with(|t| {
        // SAFETY: the table is only written by `start` on this thread while ACTIVE is false
        let t = unsafe { &*t.get() };
        let block = unsafe { std::slice::from_raw_parts(ptr, size) };
        let mut hits = 0;
        for k in 0..t.n {
            let pat = &t.bytes[k][..t.len[k]];
            if pat.is_empty() || pat.len() > block.len() {
                continue;
            }
            if block.windows(pat.len()).any(|w| w == pat) {
                hits += 1;
            }
        }
        let _ = HITS.try_with(|h| h.set(h.get() + hits));
        let _ = FREED_BYTES.try_with(|f| f.set(f.get() + size));
    });
}

unsafe impl GlobalAlloc for Watch {
    unsafe fn alloc(&self, l: Layout) -> *mut u8 {
        System.alloc(l)
    }
    unsafe fn alloc_zeroed(&self, l: Layout) -> *mut u8 {
        System.alloc_zeroed(l)
    }
    unsafe fn dealloc(&self, p: *mut u8, l: Layout) {
        if ACTIVE.try_with(|a| a.get()).unwrap_or(false) {
            let _ = ACTIVE.try_with(|a| a.set(false));
            scan(p, l.size());
            let _ = ACTIVE.try_with(|a| a.set(true));
        }
        System.dealloc(p, l)
    }
    unsafe fn realloc(&self, p: *mut u8, l: Layout, new_size: usize) -> *mut u8 {
        if ACTIVE.try_with(|a| a.get()).unwrap_or(false) {
            // the old block may be released by the system allocator: look at it first
            let _ = ACTIVE.try_with(|a| a.set(false));
            scan(p, l.size());
            let _ = ACTIVE.try_with(|a| a.set(true));
        }
        System.realloc(p, l, new_size)
    }
}

/// Start watching deallocations on this thread for the given patterns.
pub fn start(patterns: &[Vec<u8>]) {
    ACTIVE.with(|a| a.set(false));
    TABLE.with(|t| {
        // SAFETY: not active, single thread
        let t = unsafe { &mut *t.get() };
        t.n = 0;
        for p in patterns.iter().take(MAX_PATTERNS) {
            let l = p.len().min(MAX_LEN);
            t.bytes[t.n][..l].copy_from_slice(&p[..l]);
            t.len[t.n] = l;
            t.n += 1;
        }
    });
    HITS.with(|h| h.set(0));
    FREED_BYTES.with(|f| f.set(0));
    ACTIVE.with(|a| a.set(true));
}

/// Stop watching; returns (number of pattern hits in freed blocks, bytes freed while watching).
pub fn stop() -> (usize, usize) {
    ACTIVE.with(|a| a.set(false));
    (HITS.with(|h| h.get()), FREED_BYTES.with(|f| f.get()))
}
