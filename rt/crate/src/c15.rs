//! C15: nonces.  Each commitment round draws 32 fresh bytes for the hiding and 32 for the binding
//! nonce; each nonce is H3(bytes || encoded signing share); commitments are generator * nonce;
//! the same random stream reproduces, a different stream or share changes every nonce; k
//! pre-processed pairs consume k independent draws; no nonce is zero, no commitment the identity.
//! (That signing refuses nonces whose commitments are not the signer's entry is part of C05.)
//! `scenario_scripted_sources` is the "constant or repeating source" part of the quantifier: the derivation is
//! required position by position from a scripted stream (constant byte, repeated block, A,A,B,C, odd periods).

use frost_core as fc;
use frost_core::{Ciphersuite, Group};
use serde_json::json;

use crate::common::*;
use crate::rng::{bounded, scripted_period, FixedRng, ScriptRng, TestRng};
use crate::{scn, Scenario};

pub fn scenarios() -> Vec<Scenario> {
    vec![
        scn!(scenario_nonce_derivation, 2),
        scn!(scenario_preprocess_batch, 2),
        scn!(scenario_scripted_sources, 2),
        crate::wrap::scn_commit(1),
    ]
}

fn nonce_check<C: Suite>(
    what: &str,
    nonce: &fc::round1::Nonce<C>,
    commitment: &fc::round1::NonceCommitment<C>,
    random: &[u8],
    share: &fc::keys::SigningShare<C>,
) -> Verdict {
    // independent: H3(random_bytes || SerializeScalar(secret))
    let mut input = random.to_vec();
    input.extend_from_slice(&share.serialize());
    let want = <C as Ciphersuite>::H3(&input);
    check(
        nonce.serialize() == scalar_bytes::<C>(&want),
        &format!("{what} nonce equals H3(32 drawn bytes || encoded signing share)"),
        hex(&scalar_bytes::<C>(&want)),
        hex(&nonce.serialize()),
    )?;
    check(want != zero::<C>(), &format!("{what} nonce is not zero"), "non-zero", "zero")?;
    let g = base_mul::<C>(&want);
    check(g != <Gr<C> as Group>::identity(), &format!("{what} commitment is not the identity"), "non-identity", "identity")?;
    check(
        commitment.serialize().ok() == Some(elem_bytes::<C>(&g)),
        &format!("{what} commitment equals generator * nonce"),
        hex(&elem_bytes::<C>(&g)),
        format!("{:?}", commitment.serialize().map(|b| hex(&b))),
    )
}

pub fn scenario_nonce_derivation<C: Suite>(rng: &mut TestRng, _p: &Params, notes: &mut Notes) -> Verdict {
    let share = make_signing_share::<C>(&random_nonzero_scalar::<C>(rng))?;
    // (1) how much is drawn, and in which pieces
    let mut counting = rng.fork();
    let before = counting.clone();
    let (nonces, commitments) = fc::round1::commit::<C, _>(&share, &mut counting);
    // (one 64-byte request is as good as two 32-byte requests: only the stream positions matter)
    check(
        counting.bytes_drawn == 64,
        "commit() draws 32 bytes for the hiding nonce and 32 further bytes for the binding nonce",
        "64 bytes",
        format!("requests {:?} ({} bytes)", counting.fills, counting.bytes_drawn),
    )?;
    // (2) the nonces are functions of exactly those bytes (replay them from a fixed source)
    let stream = before.clone().bytes(64);
    notes.insert("random_bytes_hex".into(), json!(hex(&stream)));
    let mut fixed = FixedRng::new(stream.clone());
    let (n2, c2) = fc::round1::commit::<C, _>(&share, &mut fixed);
    check(n2 == nonces && c2 == commitments, "commit() with the same random stream is reproducible", "identical nonces and commitments", "different")?;
    check(fixed.pos == 64, "commit() consumes exactly 64 bytes of the stream", "64", fixed.pos.to_string())?;
    let (h, b) = stream.split_at(32);
    nonce_check::<C>("hiding", nonces.hiding(), commitments.hiding(), h, &share)?;
    nonce_check::<C>("binding", nonces.binding(), commitments.binding(), b, &share)?;
    check(
        nonces.commitments() == &commitments,
        "the commitments stored with the nonces are the published ones",
        "equal",
        "different",
    )?;
    check(nonces.hiding() != nonces.binding(), "hiding and binding nonce differ", "different", "equal")?;
    // (3) other bytes, or another share, give other nonces
    let mut other_stream = stream.clone();
    let flip = rng.below(64);
    if let Some(x) = other_stream.get_mut(flip) {
        *x ^= 1 << rng.below(8);
    }
    let (n3, _) = fc::round1::commit::<C, _>(&share, &mut FixedRng::new(other_stream));
    if flip < 32 {
        check(n3.hiding() != nonces.hiding(), "a change in the first 32 random bytes changes the hiding nonce", "different", "equal")?;
        check(n3.binding() == nonces.binding(), "the binding nonce depends only on the second 32 bytes", "equal", "different")?;
    } else {
        check(n3.binding() != nonces.binding(), "a change in the second 32 random bytes changes the binding nonce", "different", "equal")?;
        check(n3.hiding() == nonces.hiding(), "the hiding nonce depends only on the first 32 bytes", "equal", "different")?;
    }
    let share2 = make_signing_share::<C>(&(share_scalar::<C>(&share)? + one::<C>()))?;
    let (n4, _) = fc::round1::commit::<C, _>(&share2, &mut FixedRng::new(stream));
    check(
        n4.hiding() != nonces.hiding() && n4.binding() != nonces.binding(),
        "another signing share gives other nonces from the same random bytes",
        "different",
        "equal",
    )?;
    // two successive rounds from one source never repeat
    let mut src = rng.fork();
    let (a, _) = fc::round1::commit::<C, _>(&share, &mut src);
    let (b2, _) = fc::round1::commit::<C, _>(&share, &mut src);
    check(
        a.hiding() != b2.hiding() && a.binding() != b2.binding() && a.hiding() != b2.binding() && a.binding() != b2.hiding(),
        "successive commitment rounds use new nonces",
        "four distinct nonces",
        "a repeat",
    )
}

pub fn scenario_preprocess_batch<C: Suite>(rng: &mut TestRng, _p: &Params, notes: &mut Notes) -> Verdict {
    let share = make_signing_share::<C>(&random_nonzero_scalar::<C>(rng))?;
    let k = [0u8, 1, 2, 3, 7, 32, 255][rng.below(7)];
    notes.insert("num_nonces".into(), json!(k));
    let mut counting = rng.fork();
    let before = counting.clone();
    let (nonces, commitments) = fc::round1::preprocess::<C, _>(k, &share, &mut counting);
    check(
        nonces.len() == k as usize && commitments.len() == k as usize,
        "preprocess(k) returns k nonce pairs and k commitment pairs",
        k.to_string(),
        format!("{} / {}", nonces.len(), commitments.len()),
    )?;
    check(
        counting.bytes_drawn == 64 * k as u64,
        "a batch of k pre-processed commitments consumes k independent pairs of 32-byte draws",
        format!("{} bytes", 64 * k as usize),
        format!("{} requests, {} bytes", counting.fills.len(), counting.bytes_drawn),
    )?;
    let stream = before.clone().bytes(64 * k as usize);
    let mut seen = std::collections::BTreeSet::new();
    for (i, (n, c)) in nonces.iter().zip(commitments.iter()).enumerate() {
        let chunk = stream.get(64 * i..64 * i + 64).unwrap_or(&[]);
        let (h, b) = chunk.split_at(32.min(chunk.len()));
        nonce_check::<C>(&format!("pair {i}: hiding"), n.hiding(), c.hiding(), h, &share)?;
        nonce_check::<C>(&format!("pair {i}: binding"), n.binding(), c.binding(), b, &share)?;
        check(n.commitments() == c, "pre-processed commitments are listed in the order of their nonces", "same order", "different")?;
        for x in [n.hiding().serialize(), n.binding().serialize()] {
            check(seen.insert(x), "all nonces of a batch are pairwise distinct", "distinct", "a repeat")?;
        }
    }
    Ok(())
}

/// The quantifier of C15 includes constant and repeating sources.  A sequence of commit / preprocess calls is fed
/// from ONE scripted stream (see `rng::scripted_period`); whatever the stream contains, pair number i of the sequence
/// is derived from stream bytes 64i..64i+32 (hiding) and 64i+32..64i+64 (binding), every call draws exactly 64 bytes per
/// pair, and therefore later rounds are not shifted.  (Distinctness of nonces is NOT required here: equal bytes give
/// equal nonces.)  The signing share is random or an edge value of the scalar range.
pub fn scenario_scripted_sources<C: Suite>(rng: &mut TestRng, _p: &Params, notes: &mut Notes) -> Verdict {
    let share = if rng.chance(40) {
        let (name, s) = pick_boundary::<C>(rng, true);
        notes.insert("signing_share".into(), json!(name));
        fc::keys::SigningShare::<C>::new(s)
    } else {
        make_signing_share::<C>(&random_nonzero_scalar::<C>(rng))?
    };
    let (kind, period) = scripted_period(rng, false);
    notes.insert("random_source".into(), json!(kind));
    notes.insert("random_source_period_hex".into(), json!(hex(&period)));
    // the calls: commit = one pair, preprocess(k) = k pairs
    let ncalls = rng.range(1, 4);
    let calls: Vec<u8> = (0..ncalls).map(|_| if rng.chance(60) { 1 } else { [0u8, 1, 2, 3, 5][rng.below(5)] }).collect();
    let use_preprocess: Vec<bool> = calls.iter().map(|k| *k != 1 || rng.chance(30)).collect();
    notes.insert(
        "calls".into(),
        json!(calls.iter().zip(&use_preprocess).map(|(k, pre)| if *pre { format!("preprocess({k})") } else { "commit".to_string() }).collect::<Vec<_>>()),
    );
    let mut src = ScriptRng::new(period);
    let mut pair_index = 0usize;
    for (call, (k, pre)) in calls.iter().zip(&use_preprocess).enumerate() {
        let before = src.pos;
        let what = if *pre { format!("call {call}: preprocess({k})") } else { format!("call {call}: commit()") };
        #[allow(clippy::type_complexity)]
        let r: Result<(Vec<fc::round1::SigningNonces<C>>, Vec<fc::round1::SigningCommitments<C>>), ()> = bounded(|| {
            if *pre {
                fc::round1::preprocess::<C, _>(*k, &share, &mut src)
            } else {
                let (n, c) = fc::round1::commit::<C, _>(&share, &mut src);
                (vec![n], vec![c])
            }
        });
        let (nonces, commitments) = match r {
            Ok(x) => x,
            Err(()) => {
                return fail(
                    &format!("{what} draws exactly 64 bytes per pair from a repeating random source"),
                    format!("{} bytes", 64 * *k as usize),
                    format!("more than {} bytes (the call keeps drawing)", src.limit),
                )
            }
        };
        check(
            nonces.len() == *k as usize && commitments.len() == *k as usize,
            &format!("{what} returns one nonce pair and one commitment pair per requested pair"),
            k.to_string(),
            format!("{} / {}", nonces.len(), commitments.len()),
        )?;
        check(
            src.pos - before == 64 * *k as usize,
            &format!("{what} draws 32 bytes for each hiding and 32 further bytes for each binding nonce, whatever the random source returns"),
            format!("{} bytes", 64 * *k as usize),
            format!("{} bytes (stream position {} -> {})", src.pos - before, before, src.pos),
        )?;
        for (n, c) in nonces.iter().zip(commitments.iter()) {
            let h = src.stream(64 * pair_index, 32);
            let b = src.stream(64 * pair_index + 32, 32);
            nonce_check::<C>(&format!("{what}, pair {pair_index} of the sequence: hiding"), n.hiding(), c.hiding(), &h, &share)?;
            nonce_check::<C>(&format!("{what}, pair {pair_index} of the sequence: binding"), n.binding(), c.binding(), &b, &share)?;
            check(n.commitments() == c, "the commitments stored with the nonces are the published ones", "equal", "different")?;
            pair_index += 1;
        }
    }
    Ok(())
}
