//! C17: re-randomized FROST.  Participants' regenerated randomizer parameters equal the
//! coordinator's; signing and aggregation succeed for any valid signer set; the signature verifies
//! under the group key offset by the randomizer and not under the original key; the randomizer is a
//! function of the seed and of the exact commitment set; cheater identification and threshold
//! enforcement hold unchanged.

use std::collections::{BTreeMap, BTreeSet};

use frost_core as fc;
use frost_core::{CheaterDetection, Group};
use frost_rerandomized as rr;
use serde_json::json;

use crate::common::*;
use crate::rng::TestRng;
use crate::{scn, Scenario};

pub fn scenarios() -> Vec<Scenario> {
    vec![
        scn!(scenario_rerandomized_signing, 3),
        scn!(scenario_rerandomized_cheaters_and_threshold, 2),
        scn!(scenario_explicit_randomizer, 2),
        crate::wrap::scn_rerandomized(1),
    ]
}

struct RrSession<C: Suite> {
    keys: Keys<C>,
    signers: Vec<Id<C>>,
    package: fc::SigningPackage<C>,
    nonces: BTreeMap<Id<C>, fc::round1::SigningNonces<C>>,
    params: rr::RandomizedParams<C>,
    seed: Vec<u8>,
    shares: BTreeMap<Id<C>, fc::round2::SignatureShare<C>>,
}

fn rr_session<C: Suite>(rng: &mut TestRng, p: &Params, strict: bool) -> Result<RrSession<C>, Stop> {
    let keys = keygen::<C>(rng, p, false)?;
    let signers = signer_ids::<C>(&keys, p);
    let (nonces, commitments) = commit_all::<C>(rng, &keys.key_packages, &signers)?;
    let package = fc::SigningPackage::<C>::new(commitments.clone(), &p.message);
    let vk = keys.pubkeys.verifying_key();
    let (params, seed) = step(
        strict,
        rr::RandomizedParams::<C>::new_from_commitments(vk, package.signing_commitments(), &mut *rng),
        "RandomizedParams::new_from_commitments",
    )?;
    let mut shares = BTreeMap::new();
    for id in &signers {
        let (kp, n) = match (keys.key_packages.get(id), nonces.get(id)) {
            (Some(k), Some(n)) => (k, n),
            _ => return skip("internal"),
        };
        let s = step(
            strict,
            rr::sign_with_randomizer_seed::<C>(&package, n, kp, &seed),
            "sign_with_randomizer_seed by an honest signer",
        )?;
        shares.insert(*id, s);
    }
    Ok(RrSession {
        keys,
        signers,
        package,
        nonces,
        params,
        seed,
        shares,
    })
}

pub fn scenario_rerandomized_signing<C: Suite>(rng: &mut TestRng, p: &Params, notes: &mut Notes) -> Verdict {
    let s = rr_session::<C>(rng, p, true)?;
    let vk = s.keys.pubkeys.verifying_key();
    notes.insert("randomizer_seed_hex".into(), json!(hex(&s.seed)));
    // every participant regenerates the coordinator's parameters
    let regen = must(
        rr::RandomizedParams::<C>::regenerate_from_seed_and_commitments(vk, &s.seed, s.package.signing_commitments()),
        "RandomizedParams::regenerate_from_seed_and_commitments",
    )?;
    check(regen == s.params, "regenerated randomizer parameters equal the coordinator's", short_dbg(&s.params), short_dbg(&regen))?;
    // internal consistency of the parameters
    let r = match scalar_from_bytes::<C>(&s.params.randomizer().serialize()) {
        Some(r) => r,
        None => return skip("randomizer encoding"),
    };
    let r_el = base_mul::<C>(&r);
    check(
        elem_bytes::<C>(s.params.randomizer_element()) == elem_bytes::<C>(&r_el),
        "randomizer element equals generator * randomizer",
        hex(&elem_bytes::<C>(&r_el)),
        hex(&elem_bytes::<C>(s.params.randomizer_element())),
    )?;
    let vk_ser = match <<Gr<C> as Group>::Serialization as TryFrom<&[u8]>>::try_from(&vkey_bytes::<C>(vk)) {
        Ok(x) => x,
        Err(_) => return skip("key encoding"),
    };
    let vk_el = need(<Gr<C> as Group>::deserialize(&vk_ser), "group key element")?;
    check(
        vkey_bytes::<C>(s.params.randomized_verifying_key()) == elem_bytes::<C>(&(vk_el + r_el)),
        "randomized verifying key equals group key + generator * randomizer",
        hex(&elem_bytes::<C>(&(vk_el + r_el))),
        hex(&vkey_bytes::<C>(s.params.randomized_verifying_key())),
    )?;
    // aggregation in every mode
    let sig = must(rr::aggregate::<C>(&s.package, &s.shares, &s.keys.pubkeys, &s.params), "rerandomized aggregate of honest shares")?;
    for (name, mode) in [
        ("Disabled", CheaterDetection::Disabled),
        ("FirstCheater", CheaterDetection::FirstCheater),
        ("AllCheaters", CheaterDetection::AllCheaters),
    ] {
        let s2 = must(
            rr::aggregate_custom::<C>(&s.package, &s.shares, &s.keys.pubkeys, mode, &s.params),
            &format!("rerandomized aggregate_custom({name}) of honest shares"),
        )?;
        check(s2 == sig, &format!("rerandomized aggregate_custom({name}) returns the same signature"), short_dbg(&sig), short_dbg(&s2))?;
    }
    must(
        s.params.randomized_verifying_key().verify(&p.message, &sig),
        "the signature verifies under the randomized verifying key",
    )?;
    if r != zero::<C>() {
        if vk.verify(&p.message, &sig).is_ok() {
            return fail(
                "the signature does not verify under the original group key (non-zero randomizer)",
                "Err(..)",
                "Ok(())",
            );
        }
    }
    // the randomizer is a function of the seed ...
    let mut seed2 = s.seed.clone();
    let i = rng.below(seed2.len().max(1));
    if let Some(b) = seed2.get_mut(i) {
        *b ^= 1 << rng.below(8);
    }
    let other_seed = must(
        rr::RandomizedParams::<C>::regenerate_from_seed_and_commitments(vk, &seed2, s.package.signing_commitments()),
        "regenerate with another seed",
    )?;
    check(other_seed.randomizer() != s.params.randomizer(), "changing the seed changes the randomizer", "different", "equal")?;
    // ... and of the exact commitment set
    let (_, commitments_b) = commit_all::<C>(rng, &s.keys.key_packages, &s.signers)?;
    let mut cm = s.package.signing_commitments().clone();
    let victim = match s.signers.get(rng.below(s.signers.len())) {
        Some(v) => *v,
        None => return skip("internal"),
    };
    let variant = ["one-pair-replaced", "one-binding-commitment-replaced", "one-hiding-commitment-replaced", "one-removed", "one-added"][rng.below(5)];
    notes.insert("commitment_set_variant".into(), json!(variant));
    match variant {
        "one-pair-replaced" => {
            if let Some(c) = commitments_b.get(&victim) {
                cm.insert(victim, *c);
            }
        }
        "one-binding-commitment-replaced" | "one-hiding-commitment-replaced" => {
            if let (Some(a), Some(b)) = (cm.get(&victim).copied(), commitments_b.get(&victim)) {
                let mixed = if variant.starts_with("one-binding") {
                    fc::round1::SigningCommitments::<C>::new(*a.hiding(), *b.binding())
                } else {
                    fc::round1::SigningCommitments::<C>::new(*b.hiding(), *a.binding())
                };
                cm.insert(victim, mixed);
            }
        }
        "one-removed" => {
            cm.remove(&victim);
        }
        _ => {
            let extra = need(Id::<C>::derive(b"one more signer"), "derive")?;
            if let Some(c) = commitments_b.get(&victim) {
                cm.insert(extra, *c);
            }
        }
    }
    if &cm != s.package.signing_commitments() && !cm.is_empty() {
        let other_set = must(
            rr::RandomizedParams::<C>::regenerate_from_seed_and_commitments(vk, &s.seed, &cm),
            "regenerate with another commitment set",
        )?;
        check(other_set.randomizer() != s.params.randomizer(), "changing the commitment set changes the randomizer", "different", "equal")?;
    }
    // a signer that is handed another seed produces a share the coordinator rejects
    if let (Some(kp), Some(n)) = (s.keys.key_packages.get(&victim), s.nonces.get(&victim)) {
        if let Ok(bad) = rr::sign_with_randomizer_seed::<C>(&s.package, n, kp, &seed2) {
            let mut shares = s.shares.clone();
            shares.insert(victim, bad);
            let e = must_refuse(
                rr::aggregate::<C>(&s.package, &shares, &s.keys.pubkeys, &s.params),
                "rerandomized aggregate with one share made for another randomizer seed",
            )?;
            check(
                e.culprits() == vec![victim],
                "the signer that used another randomizer seed is named",
                format!("[{}]", id_hex::<C>(&victim)),
                format!("{:?}", culprits_hex::<C>(&e)),
            )?;
        }
    }
    Ok(())
}

pub fn scenario_rerandomized_cheaters_and_threshold<C: Suite>(rng: &mut TestRng, p: &Params, notes: &mut Notes) -> Verdict {
    let s = rr_session::<C>(rng, p, false)?;
    need(rr::aggregate::<C>(&s.package, &s.shares, &s.keys.pubkeys, &s.params), "honest rerandomized aggregation")?;
    // cheaters
    let k = s.signers.len();
    let ncheat = rng.range(1, k);
    let idx = rng.subset(k, ncheat);
    let mut shares = s.shares.clone();
    let mut cheaters = BTreeSet::new();
    for i in idx {
        if let Some(id) = s.signers.get(i) {
            if let Some(old) = s.shares.get(id) {
                let z = sigshare_scalar::<C>(old)? + random_nonzero_scalar::<C>(rng);
                shares.insert(*id, make_sigshare::<C>(&z)?);
                cheaters.insert(*id);
            }
        }
    }
    let cheaters_v: Vec<Id<C>> = cheaters.iter().copied().collect();
    notes.insert("cheaters_hex".into(), json!(ids_hex::<C>(&cheaters_v)));
    let e = must_refuse(
        rr::aggregate_custom::<C>(&s.package, &shares, &s.keys.pubkeys, CheaterDetection::AllCheaters, &s.params),
        "rerandomized aggregate_custom(AllCheaters) with altered shares",
    )?;
    check(
        e.culprits().into_iter().collect::<BTreeSet<_>>() == cheaters && e.culprits().len() == cheaters.len(),
        "under randomization AllCheaters names exactly the participants whose share was altered",
        format!("{:?}", ids_hex::<C>(&cheaters_v)),
        format!("{:?}", culprits_hex::<C>(&e)),
    )?;
    for (name, r) in [
        ("aggregate", rr::aggregate::<C>(&s.package, &shares, &s.keys.pubkeys, &s.params)),
        ("aggregate_custom(FirstCheater)", rr::aggregate_custom::<C>(&s.package, &shares, &s.keys.pubkeys, CheaterDetection::FirstCheater, &s.params)),
    ] {
        let e = must_refuse(r, &format!("rerandomized {name} with altered shares"))?;
        check(
            e.culprits().first() == cheaters_v.first() && e.culprits().len() == 1,
            &format!("under randomization {name} names exactly the lowest-identifier cheater"),
            format!("{:?}", cheaters_v.first().map(id_hex::<C>)),
            format!("{:?}", culprits_hex::<C>(&e)),
        )?;
    }
    let e = must_refuse(
        rr::aggregate_custom::<C>(&s.package, &shares, &s.keys.pubkeys, CheaterDetection::Disabled, &s.params),
        "rerandomized aggregate_custom(Disabled) with altered shares",
    )?;
    check(e.culprits().is_empty(), "with detection disabled nobody is named", "[]", format!("{:?}", culprits_hex::<C>(&e)))?;

    // threshold: fewer than t signers
    let m = rng.range(1, p.t as usize - 1);
    let few: Vec<Id<C>> = s.signers.iter().take(m).copied().collect();
    let (nonces, commitments) = commit_all::<C>(rng, &s.keys.key_packages, &few)?;
    let package = fc::SigningPackage::<C>::new(commitments, &p.message);
    let (params, seed) = need(
        rr::RandomizedParams::<C>::new_from_commitments(s.keys.pubkeys.verifying_key(), package.signing_commitments(), &mut *rng),
        "new_from_commitments",
    )?;
    let mut few_shares = BTreeMap::new();
    for id in &few {
        if let (Some(kp), Some(n)) = (s.keys.key_packages.get(id), nonces.get(id)) {
            must_refuse(
                rr::sign_with_randomizer_seed::<C>(&package, n, kp, &seed),
                &format!("sign_with_randomizer_seed for a package listing {m} participants with min_signers {}", p.t),
            )?;
            // the signer lies about its threshold
            let lying = fc::keys::KeyPackage::<C>::new(*kp.identifier(), *kp.signing_share(), *kp.verifying_share(), *kp.verifying_key(), m as u16);
            if let Ok(sh) = rr::sign_with_randomizer_seed::<C>(&package, n, &lying, &seed) {
                few_shares.insert(*id, sh);
            }
        }
    }
    // Colluders that know the whole secret (e.g. the dealer) can make m < t shares that DO add up: the
    // last "participant" uses s' = (s - sum_{i != j} lambda_i s_i) / lambda_j.  The coordinator holding the
    // genuine public key package must still refuse, because fewer than min_signers shares were submitted.
    let all: Vec<fc::keys::KeyPackage<C>> = s.keys.key_packages.values().cloned().collect();
    if let (Ok(sk), Some(last)) = (fc::keys::reconstruct::<C>(&all), few.last().copied()) {
        let xs: Vec<Sc<C>> = few.iter().map(id_scalar::<C>).collect::<Result<_, _>>()?;
        let mut rest = zero::<C>();
        let mut lam_last = None;
        for id in &few {
            let lam = match lagrange::<C>(&xs, &id_scalar::<C>(id)?, &zero::<C>()) {
                Some(l) => l,
                None => return skip("lagrange"),
            };
            if *id == last {
                lam_last = Some(lam);
            } else if let Some(kp) = s.keys.key_packages.get(id) {
                rest = rest + lam * share_scalar::<C>(kp.signing_share())?;
            }
        }
        let secret = sk.to_scalar();
        let inv = lam_last.and_then(|l| <Fd<C> as frost_core::Field>::invert(&l).ok());
        if let (Some(inv), Some(kp), Some(n)) = (inv, s.keys.key_packages.get(&last), nonces.get(&last)) {
            let forged_share = (secret - rest) * inv;
            let forged = fc::keys::KeyPackage::<C>::new(
                last,
                make_signing_share::<C>(&forged_share)?,
                *kp.verifying_share(),
                *kp.verifying_key(),
                m as u16,
            );
            if let Ok(sh) = rr::sign_with_randomizer_seed::<C>(&package, n, &forged, &seed) {
                let mut crafted = few_shares.clone();
                crafted.insert(last, sh);
                if crafted.len() == few.len() {
                    for (name, mode) in [
                        ("FirstCheater", CheaterDetection::FirstCheater),
                        ("AllCheaters", CheaterDetection::AllCheaters),
                        ("Disabled", CheaterDetection::Disabled),
                    ] {
                        if let Ok(sig) = rr::aggregate_custom::<C>(&package, &crafted, &s.keys.pubkeys, mode, &params) {
                            return fail(
                                &format!("the rerandomized coordinator refuses to aggregate {m} < {} shares even when colluders made them add up ({name})", p.t),
                                "Err(..)",
                                format!(
                                    "Ok({}); verifies under the randomized key: {}",
                                    short_dbg(&sig),
                                    params.randomized_verifying_key().verify(&p.message, &sig).is_ok()
                                ),
                            );
                        }
                    }
                }
            }
        }
    }
    match rr::aggregate::<C>(&package, &few_shares, &s.keys.pubkeys, &params) {
        Err(_) => Ok(()),
        Ok(sig) => fail(
            &format!("the rerandomized coordinator refuses to aggregate {m} < {} shares", p.t),
            "Err(..)",
            format!(
                "Ok({}); verifies under the randomized key: {}",
                short_dbg(&sig),
                params.randomized_verifying_key().verify(&p.message, &sig).is_ok()
            ),
        ),
    }
}

/// The quantifier of C17 covers "all seeds and explicit randomizers (zero included as the degenerate case)".  An EXPLICIT
/// randomizer alpha - an edge value of the scalar range (0, 1, 2, order-1, order-2, 2^top, ...) or a random one - goes through the
/// explicit-randomizer entry points: participants call `frost_rerandomized::sign(.., Randomizer)`, the coordinator builds its
/// parameters with `RandomizedParams::from_randomizer` and aggregates.  Signing and aggregation succeed in every mode, the
/// signature verifies under vk + [alpha]G computed here (for alpha = 0 that is vk itself) and, for alpha != 0 only, not under vk;
/// the randomizer survives its encoding; a cheater is still named.
#[allow(deprecated)]
pub fn scenario_explicit_randomizer<C: Suite>(rng: &mut TestRng, p: &Params, notes: &mut Notes) -> Verdict {
    let keys = keygen::<C>(rng, p, false)?;
    let signers = signer_ids::<C>(&keys, p);
    let (nonces, commitments) = commit_all::<C>(rng, &keys.key_packages, &signers)?;
    let package = fc::SigningPackage::<C>::new(commitments, &p.message);
    let vk = keys.pubkeys.verifying_key();
    let (name, alpha) = match rng.below(10) {
        0..=2 => ("0", zero::<C>()),
        3..=7 => pick_boundary::<C>(rng, false),
        _ => ("random", random_nonzero_scalar::<C>(rng)),
    };
    notes.insert("explicit_randomizer".into(), json!(name));
    notes.insert("explicit_randomizer_hex".into(), json!(hex(&scalar_bytes::<C>(&alpha))));
    let randomizer = rr::Randomizer::<C>::from_scalar(alpha);
    // the randomizer is sent to the participants: it survives its encoding
    let sent = must(
        rr::Randomizer::<C>::deserialize(&randomizer.serialize()),
        &format!("Randomizer::deserialize of the encoding of the explicit randomizer {name}"),
    )?;
    check(sent == randomizer, "the decoded randomizer equals the one that was encoded", hex(&randomizer.serialize()), hex(&sent.serialize()))?;
    let params = rr::RandomizedParams::<C>::from_randomizer(vk, randomizer);
    // the randomized key, independently
    let vk_ser = match <<Gr<C> as Group>::Serialization as TryFrom<&[u8]>>::try_from(&vkey_bytes::<C>(vk)) {
        Ok(x) => x,
        Err(_) => return skip("key encoding"),
    };
    let vk_el = need(<Gr<C> as Group>::deserialize(&vk_ser), "group key element")?;
    let want_key = vk_el + base_mul::<C>(&alpha);
    if want_key == <Gr<C> as Group>::identity() {
        return skip("randomizer is minus the secret key");
    }
    check(
        vkey_bytes::<C>(params.randomized_verifying_key()) == elem_bytes::<C>(&want_key),
        &format!("randomized verifying key equals group key + generator * randomizer (explicit randomizer {name})"),
        hex(&elem_bytes::<C>(&want_key)),
        hex(&vkey_bytes::<C>(params.randomized_verifying_key())),
    )?;
    if alpha == zero::<C>() {
        check(
            params.randomized_verifying_key() == vk,
            "with the zero randomizer the randomized verifying key is the group key itself",
            hex(&vkey_bytes::<C>(vk)),
            hex(&vkey_bytes::<C>(params.randomized_verifying_key())),
        )?;
    }
    let mut shares = BTreeMap::new();
    for id in &signers {
        let (kp, n) = match (keys.key_packages.get(id), nonces.get(id)) {
            (Some(k), Some(n)) => (k, n),
            _ => return skip("internal"),
        };
        let s = must(
            rr::sign::<C>(&package, n, kp, sent),
            &format!("frost_rerandomized::sign by an honest signer with the explicit randomizer {name}"),
        )?;
        shares.insert(*id, s);
    }
    let sig = must(
        rr::aggregate::<C>(&package, &shares, &keys.pubkeys, &params),
        &format!("rerandomized aggregate of honest shares made with the explicit randomizer {name}"),
    )?;
    for (mname, mode) in [
        ("Disabled", CheaterDetection::Disabled),
        ("FirstCheater", CheaterDetection::FirstCheater),
        ("AllCheaters", CheaterDetection::AllCheaters),
    ] {
        let s2 = must(
            rr::aggregate_custom::<C>(&package, &shares, &keys.pubkeys, mode, &params),
            &format!("rerandomized aggregate_custom({mname}) of honest shares made with the explicit randomizer {name}"),
        )?;
        check(s2 == sig, &format!("rerandomized aggregate_custom({mname}) returns the same signature"), short_dbg(&sig), short_dbg(&s2))?;
    }
    must(
        params.randomized_verifying_key().verify(&p.message, &sig),
        &format!("the signature verifies under the group key offset by the explicit randomizer {name}"),
    )?;
    if alpha == zero::<C>() {
        must(vk.verify(&p.message, &sig), "with the zero randomizer the signature verifies under the group key itself")?;
    } else if vk.verify(&p.message, &sig).is_ok() {
        return fail(
            "the signature does not verify under the original group key (non-zero randomizer)",
            "Err(..)",
            "Ok(())",
        );
    }
    // cheater identification holds unchanged
    let victim = match signers.get(rng.below(signers.len())) {
        Some(v) => *v,
        None => return skip("internal"),
    };
    if let Some(old) = shares.get(&victim) {
        let z = sigshare_scalar::<C>(old)? + random_nonzero_scalar::<C>(rng);
        let mut bad = shares.clone();
        bad.insert(victim, make_sigshare::<C>(&z)?);
        let e = must_refuse(
            rr::aggregate::<C>(&package, &bad, &keys.pubkeys, &params),
            &format!("rerandomized aggregate with one altered share (explicit randomizer {name})"),
        )?;
        check(
            e.culprits() == vec![victim],
            &format!("the participant whose share was altered is named (explicit randomizer {name})"),
            format!("[{}]", id_hex::<C>(&victim)),
            format!("{:?}", culprits_hex::<C>(&e)),
        )?;
    }
    Ok(())
}
