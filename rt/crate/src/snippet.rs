//! Standalone `cargo test`-style reproduction snippets.
//!
//! A snippet rebuilds the PARAMETERS of the failing case (group size, threshold, identifier list in
//! the same order, key source, signer set, message, and the scenario's own choices where they are
//! simple) with the public API of the ciphersuite crate and fresh system randomness.  It does not
//! replay the random stream of the case (`--replay` does that); all defects seen so far depend on
//! the parameters only.  Copy to `<suite crate>/tests/rt_repro.rs` and run
//! `cargo test -p <suite crate> --offline --test rt_repro`.

use serde_json::Value;

use crate::common::{IdSpec, KeySource, Notes, Params};

fn krate(suite: &str) -> &'static str {
    match suite {
        "ed25519" => "frost_ed25519",
        "ed448" => "frost_ed448",
        "p256" => "frost_p256",
        "ristretto255" => "frost_ristretto255",
        "secp256k1" => "frost_secp256k1",
        _ => "frost_secp256k1_tr",
    }
}

/// encoding of a named boundary scalar in the given suite
fn boundary_bytes(suite: &str, name: &str) -> Option<Vec<u8>> {
    use crate::common::{boundary_scalar, scalar_bytes};
    fn enc<C: crate::common::Suite>(name: &str) -> Option<Vec<u8>> {
        boundary_scalar::<C>(name).map(|s| scalar_bytes::<C>(&s))
    }
    match suite {
        "ed25519" => enc::<frost_ed25519::Ed25519Sha512>(name),
        "ed448" => enc::<frost_ed448::Ed448Shake256>(name),
        "p256" => enc::<frost_p256::P256Sha256>(name),
        "ristretto255" => enc::<frost_ristretto255::Ristretto255Sha512>(name),
        "secp256k1" => enc::<frost_secp256k1::Secp256K1Sha256>(name),
        _ => enc::<frost_secp256k1_tr::Secp256K1Sha256TR>(name),
    }
}

fn id_expr(suite: &str, i: &IdSpec) -> String {
    match i {
        IdSpec::U16(n) => format!("frost::Identifier::try_from({n}u16).unwrap()"),
        IdSpec::Derived(s) => format!("frost::Identifier::derive(b{s:?}).unwrap()"),
        // the identifier whose scalar is the named edge value of the scalar range (encoding spelled out)
        IdSpec::Scalar(name) => match boundary_bytes(suite, name) {
            Some(b) => format!("frost::Identifier::deserialize(&{b:?}).unwrap() /* the scalar {name} */"),
            None => format!("todo!(\"identifier with scalar {name}\")"),
        },
    }
}

fn byte_lit(b: &[u8]) -> String {
    if b.len() > 256 {
        format!("vec![0xa5u8; {}] /* original: {} random bytes, see message_hex */", b.len(), b.len())
    } else {
        format!("vec!{b:?}")
    }
}

fn prelude(suite: &str, p: &Params) -> String {
    let k = krate(suite);
    let ids: Vec<String> = p.ids.iter().map(|i| id_expr(suite, i)).collect();
    let signers: Vec<String> = p.signers.iter().map(|i| i.to_string()).collect();
    let keygen = match p.key_source {
        KeySource::Dealer => {
            let list = if p.id_scheme == "default" {
                "frost::keys::IdentifierList::Default".to_string()
            } else {
                "frost::keys::IdentifierList::Custom(&ids)".to_string()
            };
            format!(
                r#"    // trusted dealer
    let (shares, pubkeys) = frost::keys::generate_with_dealer({n}, {t}, {list}, &mut rng)
        .expect("dealer key generation with valid parameters");
    let mut key_packages: BTreeMap<frost::Identifier, frost::keys::KeyPackage> = BTreeMap::new();
    for (id, share) in shares {{
        key_packages.insert(id, frost::keys::KeyPackage::try_from(share).expect("honest dealer share verifies"));
    }}
"#,
                n = p.n,
                t = p.t
            )
        }
        KeySource::Dkg => format!(
            r#"    // distributed key generation
    let mut r1_secret = BTreeMap::new();
    let mut r1_pkg = BTreeMap::new();
    for id in &ids {{
        let (s, pk) = frost::keys::dkg::part1(*id, {n}, {t}, &mut rng).expect("honest part1");
        r1_secret.insert(*id, s);
        r1_pkg.insert(*id, pk);
    }}
    let mut r2_secret = BTreeMap::new();
    let mut r2_out = BTreeMap::new();
    for id in &ids {{
        let received: BTreeMap<_, _> = r1_pkg.iter().filter(|(k, _)| *k != id).map(|(k, v)| (*k, v.clone())).collect();
        let (s, out) = frost::keys::dkg::part2(r1_secret[id].clone(), &received).expect("honest part2");
        r2_secret.insert(*id, s);
        r2_out.insert(*id, out);
    }}
    let mut key_packages: BTreeMap<frost::Identifier, frost::keys::KeyPackage> = BTreeMap::new();
    let mut pubkeys_of = BTreeMap::new();
    for id in &ids {{
        let r1: BTreeMap<_, _> = r1_pkg.iter().filter(|(k, _)| *k != id).map(|(k, v)| (*k, v.clone())).collect();
        let r2: BTreeMap<_, _> = r2_out.iter().filter(|(k, _)| *k != id).map(|(k, v)| (*k, v[id].clone())).collect();
        let (kp, pkp) = frost::keys::dkg::part3(&r2_secret[id], &r1, &r2).expect("honest part3");
        assert_eq!(pkp.verifying_shares().get(id), Some(kp.verifying_share()), "key package vs public key package");
        key_packages.insert(*id, kp);
        pubkeys_of.insert(*id, pkp);
    }}
    let pubkeys = pubkeys_of.values().next().unwrap().clone();
    assert!(pubkeys_of.values().all(|p| *p == pubkeys), "all participants derive the same public key package");
"#,
            n = p.n,
            t = p.t
        ),
    };
    format!(
        r#"use std::collections::BTreeMap;
use {k} as frost;
use {k}::rand_core;

#[test]
fn rt_repro() {{
    let mut rng = rand_core::UnwrapErr(rand::rngs::SysRng);
    // identifiers in the order in which they are handed to the library
    let ids: Vec<frost::Identifier> = vec![
        {ids}
    ];
    let message: Vec<u8> = {msg};
{keygen}
    // signer set (indices into `ids`)
    let signers: Vec<frost::Identifier> = [{signers}].iter().map(|i: &usize| ids[*i]).collect();
"#,
        ids = ids.join(",\n        "),
        msg = byte_lit(&p.message),
        signers = signers.join(", "),
    )
}

const SESSION: &str = r#"    let mut nonces = BTreeMap::new();
    let mut commitments = BTreeMap::new();
    for id in &signers {
        let (n, c) = frost::round1::commit(key_packages[id].signing_share(), &mut rng);
        nonces.insert(*id, n);
        commitments.insert(*id, c);
    }
    let signing_package = frost::SigningPackage::new(commitments, &message);
    let mut signature_shares = BTreeMap::new();
    for id in &signers {
        let share = frost::round2::sign(&signing_package, &nonces[id], &key_packages[id]).expect("honest signer signs");
        signature_shares.insert(*id, share);
    }
"#;

pub fn make(property: &str, suite: &str, scenario: &str, p: &Params, notes: &Notes) -> Option<String> {
    let mut s = prelude(suite, p);
    let tail = match scenario {
        "scenario_sign_aggregate_verify" | "scenario_honest_dkg" => format!(
            "{SESSION}    for (id, share) in &signature_shares {{\n        frost::verify_signature_share(*id, &pubkeys.verifying_shares()[id], share, &signing_package, pubkeys.verifying_key())\n            .expect(\"honest share verifies\");\n    }}\n    let signature = frost::aggregate(&signing_package, &signature_shares, &pubkeys).expect(\"aggregation of honest shares\");\n    pubkeys.verifying_key().verify(&message, &signature).expect(\"signature verifies under the group key\");\n"
        ),
        "scenario_cheaters_named" => {
            let cheaters: Vec<usize> = notes
                .get("tampered")
                .and_then(|t| t.as_array())
                .map(|a| {
                    a.iter()
                        .filter(|e| e.get("differs").and_then(Value::as_bool).unwrap_or(false))
                        .filter_map(|e| e.get("signer_rank").and_then(Value::as_u64).map(|x| x as usize))
                        .collect()
                })
                .unwrap_or_default();
            format!(
                "{SESSION}    // the cheaters (positions in `signers`) submit share + 1\n    let cheater_ranks: Vec<usize> = vec!{cheaters:?};\n    let mut cheaters: Vec<frost::Identifier> = cheater_ranks.iter().map(|r| signers[*r]).collect();\n    cheaters.sort();\n    for c in &cheaters {{\n        let mut b = signature_shares[c].serialize();\n        // any alteration will do: flip one low bit (first byte; if that leaves the scalar range, the last byte)\n        let last = b.len() - 1;\n        if frost::round2::SignatureShare::deserialize(&{{ let mut x = b.clone(); x[0] ^= 1; x }}).is_ok() {{ b[0] ^= 1; }} else {{ b[last] ^= 1; }}\n        signature_shares.insert(*c, frost::round2::SignatureShare::deserialize(&b).unwrap());\n    }}\n    let e = frost::aggregate(&signing_package, &signature_shares, &pubkeys).expect_err(\"invalid shares must not aggregate\");\n    assert_eq!(e.culprits(), vec![cheaters[0]], \"first-cheater detection names the lowest-identifier cheater\");\n    let e = frost::aggregate_custom(&signing_package, &signature_shares, &pubkeys, frost::CheaterDetection::AllCheaters).unwrap_err();\n    let mut named = e.culprits();\n    named.sort();\n    assert_eq!(named, cheaters, \"all-cheaters detection names exactly the cheaters\");\n"
            )
        }
        "scenario_signer_and_coordinator_refuse" => format!(
            "    // fewer than min_signers signers: {} \n    let few = {};\n    let signers: Vec<frost::Identifier> = few.iter().map(|h: &&str| ids.iter().copied().find(|i| hex_of(i) == *h).unwrap()).collect();\n{SESSION_LOWERED}",
            "see scenario_choices.below_threshold_signers_hex",
            notes.get("below_threshold_signers_hex").map(|v| v.to_string().replace('[', "vec![")).unwrap_or_else(|| "vec![]".into()),
        ),
        w if w.starts_with("scenario_wrappers_") => {
            let get = |k: &str| notes.get(k).and_then(Value::as_str).unwrap_or("?").to_string();
            format!(
                "    // Wrapper equivalence (property {property}): `{wrapper}` must return what `{target}` returns on the same inputs.\n    // Input of the failing comparison: {input}.\n    // Build that input from the key material above, call BOTH functions on it (functions that take a random source: give each its own\n    // `rand_chacha::ChaChaRng::from_seed([7u8; 32])`; frost-core and rand_chacha are dev-dependencies of the suite crate) and\n    // `assert_eq!` the two results.  Recorded choices: {choices}\n    let _ = (&key_packages, &pubkeys, &signers, &message);\n",
                wrapper = get("wrapper"),
                target = get("compared_with"),
                input = get("wrapper_input"),
                choices = Value::Object(notes.clone()).to_string().replace('\n', " "),
            )
        }
        _ => format!(
            "    // Scenario `{scenario}` of property {property}: the scenario-specific steps are not templated.\n    // Follow the check recorded in the JSON (\"check\", \"expected\", \"observed\") with these choices:\n    // {}\n    let _ = (&key_packages, &pubkeys, &signers, &message);\n",
            Value::Object(notes.clone()).to_string().replace('\n', " ")
        ),
    };
    s.push_str(&tail);
    s.push_str("}\n");
    if scenario == "scenario_signer_and_coordinator_refuse" {
        s.push_str("\nfn hex_of(i: &frost::Identifier) -> String { i.serialize().iter().map(|b| format!(\"{b:02x}\")).collect() }\n");
    }
    Some(s)
}

const SESSION_LOWERED: &str = r#"    let mut nonces = BTreeMap::new();
    let mut commitments = BTreeMap::new();
    for id in &signers {
        let (n, c) = frost::round1::commit(key_packages[id].signing_share(), &mut rng);
        nonces.insert(*id, n);
        commitments.insert(*id, c);
    }
    let signing_package = frost::SigningPackage::new(commitments, &message);
    let mut signature_shares = BTreeMap::new();
    for id in &signers {
        let kp = &key_packages[id];
        frost::round2::sign(&signing_package, &nonces[id], kp).expect_err("honest signer refuses a package below the threshold");
        // the signer lies about the threshold in its own key material
        let lying = frost::keys::KeyPackage::new(*kp.identifier(), *kp.signing_share(), *kp.verifying_share(), *kp.verifying_key(), signers.len() as u16);
        signature_shares.insert(*id, frost::round2::sign(&signing_package, &nonces[id], &lying).unwrap());
    }
    frost::aggregate(&signing_package, &signature_shares, &pubkeys).expect_err("the coordinator refuses fewer than min_signers shares");
"#;
