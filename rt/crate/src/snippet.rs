//! Standalone `cargo test`-style reproduction snippets (filled in for the main scenario families).
use crate::common::{Notes, Params};

pub fn make(_property: &str, _suite: &str, _scenario: &str, _p: &Params, _notes: &Notes) -> Option<String> {
    None
}
