//! frost-rt: concrete replay search for the semantic properties C01..C20 of ZcashFoundation/frost.
//!
//!   frost-rt run <PROPERTY> [--seed N] [--budget-s S] [--out FILE] [--threads T] [--max-cases M]
//!   frost-rt replay <FILE.json>
//!   frost-rt list
//!
//! exit 0: no failing input found (RT-OK) / replayed case passes
//! exit 1: failing input found (RT-FAIL), FILE written
//! exit 2: nothing could be decided (RT-UNDECIDED)
//!
//! A *case* is (property, ciphersuite, scenario, case_seed).  Everything a scenario does is a
//! function of case_seed, therefore `replay` only needs those four values.

mod alloc_watch;
mod common;
mod indep;
mod rng;
mod snippet;
mod wrap;

mod c01;
mod c02;
mod c03;
mod c04;
mod c05;
mod c06;
mod c07;
mod c08;
mod c09;
mod c10;
mod c11;
mod c12;
mod c13;
mod c14;
mod c15;
mod c16;
mod c17;
mod c18;
mod c19;
mod c20;

#[global_allocator]
static GLOBAL: alloc_watch::Watch = alloc_watch::Watch;

use std::cell::RefCell;
use std::panic::{catch_unwind, AssertUnwindSafe};
use std::sync::atomic::{AtomicBool, AtomicU64, Ordering};
use std::sync::{Arc, Mutex};
use std::time::{Duration, Instant};

use serde_json::{json, Value};

use common::{Failure, Finding, Notes, Params, Stop, Verdict, SUITE_NAMES};
use rng::{splitmix64, TestRng};

pub type ScnFn = fn(&mut TestRng, &Params, &mut Notes) -> Verdict;

pub struct Scenario {
    pub name: &'static str,
    /// one entry per ciphersuite in SUITE_NAMES order; None = scenario not applicable to that suite
    pub runs: [Option<ScnFn>; 6],
    /// relative frequency
    pub weight: u32,
}

/// All six instantiations of a generic scenario function.
#[macro_export]
macro_rules! scn {
    ($f:ident) => {
        $crate::scn!($f, 1)
    };
    ($f:ident, $w:expr) => {
        $crate::Scenario {
            name: stringify!($f),
            runs: [
                Some($f::<frost_ed25519::Ed25519Sha512> as $crate::ScnFn),
                Some($f::<frost_ed448::Ed448Shake256> as $crate::ScnFn),
                Some($f::<frost_p256::P256Sha256> as $crate::ScnFn),
                Some($f::<frost_ristretto255::Ristretto255Sha512> as $crate::ScnFn),
                Some($f::<frost_secp256k1::Secp256K1Sha256> as $crate::ScnFn),
                Some($f::<frost_secp256k1_tr::Secp256K1Sha256TR> as $crate::ScnFn),
            ],
            weight: $w,
        }
    };
}

/// A scenario that exists for the Taproot suite only.
#[macro_export]
macro_rules! scn_tr {
    ($f:ident) => {
        $crate::Scenario {
            name: stringify!($f),
            runs: [None, None, None, None, None, Some($f as $crate::ScnFn)],
            weight: 1,
        }
    };
}

fn scenarios(property: &str) -> Option<Vec<Scenario>> {
    Some(match property {
        "C01" => c01::scenarios(),
        "C02" => c02::scenarios(),
        "C03" => c03::scenarios(),
        "C04" => c04::scenarios(),
        "C05" => c05::scenarios(),
        "C06" => c06::scenarios(),
        "C07" => c07::scenarios(),
        "C08" => c08::scenarios(),
        "C09" => c09::scenarios(),
        "C10" => c10::scenarios(),
        "C11" => c11::scenarios(),
        "C12" => c12::scenarios(),
        "C13" => c13::scenarios(),
        "C14" => c14::scenarios(),
        "C15" => c15::scenarios(),
        "C16" => c16::scenarios(),
        "C17" => c17::scenarios(),
        "C18" => c18::scenarios(),
        "C19" => c19::scenarios(),
        "C20" => c20::scenarios(),
        _ => return None,
    })
}

/// Finding probes of a property: deterministic constructions that are run once per run (per applicable
/// ciphersuite) BEFORE the generated cases.  They look for a KNOWN literal deviation of the unchanged tree from
/// the text of the property and report it as `RT-FINDING`; they never fail.  (`weight` is not used.)
fn probes(property: &str) -> Vec<Scenario> {
    match property {
        "C10" => c10::probes(),
        "C12" => c12::probes(),
        _ => Vec::new(),
    }
}

/// The random stream of a probe does not depend on `--seed`: same construction in every run.
fn probe_case_seed(probe: usize, suite: usize) -> u64 {
    let mut x = 0x5052_4F42_4553_u64 ^ ((probe as u64) << 32) ^ suite as u64;
    splitmix64(&mut x)
}

/// key -> (suites in which it was observed, detail of the first observation)
type Findings = std::collections::BTreeMap<String, (Vec<&'static str>, String)>;

fn record_finding(all: &Mutex<Findings>, suite: usize, f: &Finding) {
    let mut all = all.lock().unwrap_or_else(|e| e.into_inner());
    let entry = all.entry(f.key.clone()).or_insert_with(|| (Vec::new(), f.detail.clone()));
    if !entry.0.contains(&SUITE_NAMES[suite]) {
        entry.0.push(SUITE_NAMES[suite]);
    }
}

fn run_probes(property: &str, all: &Mutex<Findings>) {
    for (pi, probe) in probes(property).iter().enumerate() {
        for (suite, run) in probe.runs.iter().enumerate() {
            let Some(run) = run else { continue };
            let res = run_case(*run, probe_case_seed(pi, suite));
            match &res.outcome {
                Outcome::Finding(f) => record_finding(all, suite, f),
                Outcome::Pass => {}
                // a probe is informational: whatever else happens in it gives no verdict
                Outcome::Skip(why) => eprintln!("[frost-rt] probe {}/{}: no result ({why})", SUITE_NAMES[suite], probe.name),
                Outcome::Fail(f) => eprintln!(
                    "[frost-rt] probe {}/{}: construction did not complete ({}: {})",
                    SUITE_NAMES[suite], probe.name, f.check, f.observed
                ),
                Outcome::HarnessBug(b) => eprintln!("[frost-rt] probe {}/{}: {b}", SUITE_NAMES[suite], probe.name),
            }
        }
    }
}

/// `RT-FINDING property=<ID> key=<key> suite=<suite[,suite...]> detail="<one line>"`, one line per distinct key
fn print_findings(property: &str, all: &Findings) {
    for (key, (suites, detail)) in all {
        println!("RT-FINDING property={property} key={key} suite={} detail={detail:?}", suites.join(","));
    }
}

fn findings_json(all: &Findings) -> Value {
    Value::Array(
        all.iter()
            .map(|(key, (suites, detail))| json!({"key": key, "suites": suites, "detail": detail}))
            .collect(),
    )
}

const PROPERTIES: [&str; 20] = [
    "C01", "C02", "C03", "C04", "C05", "C06", "C07", "C08", "C09", "C10", "C11", "C12", "C13", "C14", "C15", "C16",
    "C17", "C18", "C19", "C20",
];

// ------------------------------------------------------------------------------------------------
// running one case

thread_local! {
    static LAST_PANIC: RefCell<Option<(String, String)>> = const { RefCell::new(None) };
}

fn install_panic_hook() {
    std::panic::set_hook(Box::new(|info| {
        let msg = if let Some(s) = info.payload().downcast_ref::<&str>() {
            s.to_string()
        } else if let Some(s) = info.payload().downcast_ref::<String>() {
            s.clone()
        } else {
            "<non-string panic payload>".to_string()
        };
        let loc = info
            .location()
            .map(|l| format!("{}:{}:{}", l.file(), l.line(), l.column()))
            .unwrap_or_else(|| "<unknown>".to_string());
        LAST_PANIC.with(|p| *p.borrow_mut() = Some((msg, loc)));
    }));
}

/// (message, location) of the most recent panic on this thread
pub fn take_last_panic() -> Option<(String, String)> {
    // (a copy: a nested catch_unwind may re-raise, and the engine wants to see it too)
    LAST_PANIC.with(|p| p.borrow().clone())
}

pub fn is_harness_location(loc: &str) -> bool {
    loc.contains("/rt/crate/src/")
}

pub enum Outcome {
    Pass,
    Skip(String),
    Fail(Failure),
    /// a known finding was observed: reported, counts as a passing case
    Finding(Finding),
    /// the harness itself panicked: no verdict about the code under test
    HarnessBug(String),
}

pub struct CaseResult {
    pub outcome: Outcome,
    pub params: Params,
    pub notes: Notes,
}

fn run_case(run: ScnFn, case_seed: u64) -> CaseResult {
    let mut rng = TestRng::new(case_seed);
    let params = Params::generate(&mut rng);
    let mut notes = Notes::new();
    LAST_PANIC.with(|p| *p.borrow_mut() = None);
    let r = catch_unwind(AssertUnwindSafe(|| run(&mut rng, &params, &mut notes)));
    let outcome = match r {
        Ok(Ok(())) => Outcome::Pass,
        Ok(Err(Stop::Skip(why))) => Outcome::Skip(why),
        Ok(Err(Stop::Fail(f))) => Outcome::Fail(f),
        Ok(Err(Stop::Finding(f))) => Outcome::Finding(f),
        Err(_) => {
            let (msg, loc) = LAST_PANIC
                .with(|p| p.borrow_mut().take())
                .unwrap_or_else(|| ("<unknown>".into(), "<unknown>".into()));
            // a panic raised by the harness' own source is a harness bug, not a finding
            if is_harness_location(&loc) {
                Outcome::HarnessBug(format!("harness panic at {loc}: {msg}"))
            } else {
                Outcome::Fail(Failure {
                    check: "the library call returns (a value or an error) instead of panicking".into(),
                    expected: "no panic".into(),
                    observed: format!("panic at {loc}: {msg}"),
                })
            }
        }
    };
    CaseResult {
        outcome,
        params,
        notes,
    }
}

/// (suite index, scenario index, case seed) of the i-th case of a run
fn schedule(scns: &[Scenario], seed: u64, index: u64) -> (usize, usize, u64) {
    let mut x = seed ^ 0xA076_1D64_78BD_642F_u64.wrapping_mul(index.wrapping_add(1));
    let case_seed = splitmix64(&mut x);
    let total: u64 = scns.iter().map(|s| s.weight as u64).sum::<u64>().max(1);
    let mut pick = (index / 6) % total;
    let mut si = 0;
    for (k, s) in scns.iter().enumerate() {
        if pick < s.weight as u64 {
            si = k;
            break;
        }
        pick -= s.weight as u64;
    }
    let mut suite = (index % 6) as usize;
    for _ in 0..6 {
        if scns[si].runs[suite].is_some() {
            break;
        }
        suite = (suite + 1) % 6;
    }
    (suite, si, case_seed)
}

#[allow(clippy::too_many_arguments)]
fn failure_json(
    property: &str,
    suite: usize,
    scenario: &str,
    seed: Option<u64>,
    index: Option<u64>,
    case_seed: u64,
    res: &CaseResult,
    f: &Failure,
    findings: &Findings,
) -> Value {
    let snippet = snippet::make(property, SUITE_NAMES[suite], scenario, &res.params, &res.notes);
    json!({
        "tool": "frost-rt",
        "verdict": "RT-FAIL",
        "property": property,
        "ciphersuite": SUITE_NAMES[suite],
        "scenario": scenario,
        "seed": seed,
        "case_index": index,
        // string: u64 does not survive every JSON reader
        "case_seed": case_seed.to_string(),
        "params": res.params.to_json(),
        "scenario_choices": Value::Object(res.notes.clone()),
        "check": f.check,
        "expected": f.expected,
        "observed": f.observed,
        // known findings observed in this run (never the reason of the verdict)
        "findings": findings_json(findings),
        "replay": "run_rt.py <PROPERTY> --repo <TREE> --replay <this file>",
        "snippet": snippet,
    })
}

struct Found {
    index: u64,
    suite: usize,
    scenario: &'static str,
    case_seed: u64,
    res: CaseResult,
}

fn cmd_run(property: &str, seed: u64, budget: Duration, out: Option<String>, threads: usize, max_cases: u64) -> i32 {
    let scns = match scenarios(property) {
        Some(s) if !s.is_empty() => Arc::new(s),
        _ => {
            println!("RT-UNDECIDED property={property} reason=no-scenarios-for-this-property");
            return 2;
        }
    };
    let next = Arc::new(AtomicU64::new(0));
    let stop = Arc::new(AtomicBool::new(false));
    let passed = Arc::new(AtomicU64::new(0));
    let skipped = Arc::new(AtomicU64::new(0));
    let found: Arc<Mutex<Vec<Found>>> = Arc::new(Mutex::new(Vec::new()));
    let bugs: Arc<Mutex<Vec<String>>> = Arc::new(Mutex::new(Vec::new()));
    let skip_reasons: Arc<Mutex<Vec<String>>> = Arc::new(Mutex::new(Vec::new()));
    let per_suite: Arc<Vec<AtomicU64>> = Arc::new((0..6).map(|_| AtomicU64::new(0)).collect());
    let findings: Arc<Mutex<Findings>> = Arc::new(Mutex::new(Findings::new()));
    run_probes(property, &findings);
    let start = Instant::now();

    let mut handles = Vec::new();
    for _ in 0..threads.max(1) {
        let (scns, next, stop, passed, skipped, found, bugs, skip_reasons, per_suite, findings) = (
            scns.clone(),
            next.clone(),
            stop.clone(),
            passed.clone(),
            skipped.clone(),
            found.clone(),
            bugs.clone(),
            skip_reasons.clone(),
            per_suite.clone(),
            findings.clone(),
        );
        handles.push(
            std::thread::Builder::new()
                .stack_size(64 << 20)
                .spawn(move || loop {
                    if stop.load(Ordering::Relaxed) || start.elapsed() >= budget {
                        break;
                    }
                    let index = next.fetch_add(1, Ordering::Relaxed);
                    if index >= max_cases {
                        break;
                    }
                    let (suite, si, case_seed) = schedule(&scns, seed, index);
                    let run = match scns[si].runs[suite] {
                        Some(r) => r,
                        None => continue,
                    };
                    let res = run_case(run, case_seed);
                    match res.outcome {
                        Outcome::Pass => {
                            passed.fetch_add(1, Ordering::Relaxed);
                            per_suite[suite].fetch_add(1, Ordering::Relaxed);
                        }
                        Outcome::Finding(ref f) => {
                            record_finding(&findings, suite, f);
                            passed.fetch_add(1, Ordering::Relaxed);
                            per_suite[suite].fetch_add(1, Ordering::Relaxed);
                        }
                        Outcome::Skip(ref why) => {
                            skipped.fetch_add(1, Ordering::Relaxed);
                            let mut s = skip_reasons.lock().unwrap_or_else(|e| e.into_inner());
                            if s.len() < 5 {
                                s.push(format!("{}/{}: {}", SUITE_NAMES[suite], scns[si].name, why));
                            }
                        }
                        Outcome::HarnessBug(ref b) => {
                            bugs.lock().unwrap_or_else(|e| e.into_inner()).push(format!(
                                "{}/{}/{}: {}",
                                SUITE_NAMES[suite],
                                scns[si].name,
                                case_seed,
                                b
                            ));
                            stop.store(true, Ordering::Relaxed);
                        }
                        Outcome::Fail(_) => {
                            found.lock().unwrap_or_else(|e| e.into_inner()).push(Found {
                                index,
                                suite,
                                scenario: scns[si].name,
                                case_seed,
                                res,
                            });
                            stop.store(true, Ordering::Relaxed);
                        }
                    }
                })
                .expect("spawn worker"),
        );
    }
    for h in handles {
        let _ = h.join();
    }
    let elapsed = start.elapsed().as_secs_f64();
    let findings = findings.lock().unwrap_or_else(|e| e.into_inner());
    print_findings(property, &findings);
    let bugs = bugs.lock().unwrap_or_else(|e| e.into_inner());
    if let Some(b) = bugs.first() {
        println!("RT-UNDECIDED property={property} reason=harness-bug detail={b:?}");
        return 2;
    }
    let mut found = found.lock().unwrap_or_else(|e| e.into_inner());
    found.sort_by_key(|f| f.index);
    if let Some(f) = found.first() {
        let fl = match &f.res.outcome {
            Outcome::Fail(fl) => fl.clone(),
            _ => unreachable!("only failures are collected"),
        };
        let doc = failure_json(property, f.suite, f.scenario, Some(seed), Some(f.index), f.case_seed, &f.res, &fl, &findings);
        let mut wrote = String::from("-");
        if let Some(path) = &out {
            match std::fs::write(path, serde_json::to_string_pretty(&doc).unwrap_or_default() + "\n") {
                Ok(()) => wrote = path.clone(),
                Err(e) => eprintln!("cannot write {path}: {e}"),
            }
        }
        println!(
            "RT-FAIL property={property} case={}/{}/{} index={} seed={seed} check={:?} expected={:?} observed={:?} out={wrote}",
            SUITE_NAMES[f.suite], f.scenario, f.case_seed, f.index, fl.check, fl.expected, fl.observed
        );
        return 1;
    }
    let p = passed.load(Ordering::Relaxed);
    let s = skipped.load(Ordering::Relaxed);
    let suites: Vec<String> = (0..6)
        .map(|i| format!("{}:{}", SUITE_NAMES[i], per_suite[i].load(Ordering::Relaxed)))
        .collect();
    if p == 0 {
        let why = skip_reasons.lock().unwrap_or_else(|e| e.into_inner());
        println!(
            "RT-UNDECIDED property={property} reason=no-case-reached-a-verdict skipped={s} first_skips={:?}",
            *why
        );
        return 2;
    }
    let why = skip_reasons.lock().unwrap_or_else(|e| e.into_inner());
    println!(
        "RT-OK property={property} cases={p} skipped={s} seed={seed} elapsed={elapsed:.1}s scenarios={} per_suite={}{}",
        scns.len(),
        suites.join(","),
        if s > 0 { format!(" first_skips={:?}", *why) } else { String::new() }
    );
    0
}

fn cmd_replay(path: &str, property_arg: Option<&str>) -> i32 {
    let text = match std::fs::read_to_string(path) {
        Ok(t) => t,
        Err(e) => {
            println!("RT-UNDECIDED reason=cannot-read-replay-file detail={e:?}");
            return 2;
        }
    };
    let doc: Value = match serde_json::from_str(&text) {
        Ok(v) => v,
        Err(e) => {
            println!("RT-UNDECIDED reason=replay-file-is-not-json detail={e:?}");
            return 2;
        }
    };
    let property = doc["property"].as_str().unwrap_or("").to_string();
    if let Some(pa) = property_arg {
        if pa != property {
            println!("RT-UNDECIDED reason=replay-file-is-for-property-{property}-not-{pa}");
            return 2;
        }
    }
    let suite_name = doc["ciphersuite"].as_str().unwrap_or("");
    let scenario = doc["scenario"].as_str().unwrap_or("");
    let case_seed: Option<u64> = doc["case_seed"].as_str().and_then(|s| s.parse().ok());
    let (scns, suite, case_seed) = match (
        scenarios(&property),
        SUITE_NAMES.iter().position(|s| *s == suite_name),
        case_seed,
    ) {
        (Some(a), Some(b), Some(c)) => (a, b, c),
        _ => {
            println!("RT-UNDECIDED reason=replay-file-lacks-property/ciphersuite/case_seed");
            return 2;
        }
    };
    let scn = match scns.iter().find(|s| s.name == scenario) {
        Some(s) => s,
        None => {
            println!("RT-UNDECIDED reason=unknown-scenario-{scenario}");
            return 2;
        }
    };
    let run = match scn.runs[suite] {
        Some(r) => r,
        None => {
            println!("RT-UNDECIDED reason=scenario-not-applicable-to-suite");
            return 2;
        }
    };
    let res = run_case(run, case_seed);
    if res.params.to_json() != doc["params"] {
        eprintln!("warning: regenerated parameters differ from the recorded ones (harness version changed?)");
    }
    match &res.outcome {
        Outcome::Pass => {
            println!("RT-OK property={property} replay={suite_name}/{scenario}/{case_seed} cases=1");
            0
        }
        Outcome::Finding(f) => {
            println!("RT-FINDING property={property} key={} suite={suite_name} detail={:?}", f.key, f.detail);
            println!("RT-OK property={property} replay={suite_name}/{scenario}/{case_seed} cases=1");
            0
        }
        Outcome::Skip(why) => {
            println!("RT-UNDECIDED property={property} replay={suite_name}/{scenario}/{case_seed} reason=skipped detail={why:?}");
            2
        }
        Outcome::HarnessBug(b) => {
            println!("RT-UNDECIDED property={property} reason=harness-bug detail={b:?}");
            2
        }
        Outcome::Fail(f) => {
            println!(
                "RT-FAIL property={property} case={suite_name}/{scenario}/{case_seed} check={:?} expected={:?} observed={:?} replayed-from={path}",
                f.check, f.expected, f.observed
            );
            1
        }
    }
}

fn main() {
    install_panic_hook();
    let args: Vec<String> = std::env::args().skip(1).collect();
    let code = match args.first().map(|s| s.as_str()) {
        Some("list") => {
            for p in PROPERTIES {
                let names: Vec<&str> = scenarios(p).unwrap_or_default().iter().map(|s| s.name).collect();
                println!("{p}: {}", names.join(" "));
            }
            for p in PROPERTIES {
                let names: Vec<&str> = probes(p).iter().map(|s| s.name).collect();
                if !names.is_empty() {
                    println!("{p} finding probes: {}", names.join(" "));
                }
            }
            0
        }
        Some("replay") => match args.get(1) {
            Some(path) => cmd_replay(path, args.get(2).map(|s| s.as_str())),
            None => {
                println!("RT-UNDECIDED reason=usage");
                2
            }
        },
        Some("run") => {
            let property = args.get(1).cloned().unwrap_or_default();
            let mut seed = 1u64;
            let mut budget = 20.0f64;
            let mut out = None;
            let mut threads = std::thread::available_parallelism().map(|n| n.get()).unwrap_or(4);
            let mut max_cases = u64::MAX;
            let mut i = 2;
            while i < args.len() {
                let v = args.get(i + 1).cloned().unwrap_or_default();
                match args[i].as_str() {
                    "--seed" => seed = v.parse().unwrap_or(1),
                    "--budget-s" => budget = v.parse().unwrap_or(20.0),
                    "--out" => out = Some(v),
                    "--threads" => threads = v.parse().unwrap_or(threads),
                    "--max-cases" => max_cases = v.parse().unwrap_or(u64::MAX),
                    other => {
                        println!("RT-UNDECIDED reason=unknown-argument-{other}");
                        std::process::exit(2);
                    }
                }
                i += 2;
            }
            cmd_run(&property, seed, Duration::from_secs_f64(budget), out, threads, max_cases)
        }
        _ => {
            println!("RT-UNDECIDED reason=usage: frost-rt run <PROPERTY> [...] | replay <FILE> | list");
            2
        }
    };
    std::process::exit(code);
}
