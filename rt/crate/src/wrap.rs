//! Wrapper equivalence.
//!
//! Every scenario of c01..c20 goes through the `frost_core` GENERIC functions.  Applications call the
//! NON-generic wrapper functions of the ciphersuite crates (`frost_ed25519::keys::dkg::part2`, ...), which
//! today are pure delegations.  A defect placed in a wrapper is invisible to the generic scenarios.
//!
//! The scenarios of this module call, for every ciphersuite crate and every wrapper function, the wrapper
//! and the `frost_core` generic function it stands for on the SAME generated inputs (functions that take a
//! random source get two `TestRng`s started from the same seed) and require equal results: `Ok` values by
//! `PartialEq`, `Err` values by equality (so the culprit lists must agree too), maps as maps.
//!
//! Oracle: "the <suite> wrapper `<path>` returns what frost_core::<path> returns on the same inputs".
//! It is attached to the properties whose statement the wrapped functions serve (see `scenarios()` of
//! c01, c04..c11, c15, c17, c18): a wrapper that is not the core function any more does not give the
//! guarantees that were established for the core function.
//!
//! Wrappers are concrete functions, so they are reached through the trait `Wrapped`, implemented once per
//! ciphersuite crate by `wrap_suite!(crate path, Ciphersuite type, optional groups...)`.
//!
//! The two Taproot-only wrappers `round2::sign_with_tweak` / `aggregate_with_tweak` are NOT delegations: their
//! documentation says "same as sign()/aggregate(), but using a Taproot tweak as specified in BIP-341", and the
//! crate's public `keys::Tweak` trait is "tweaking a key component following BIP-341".  They are compared
//! with the core function applied to the `Tweak::tweak(merkle_root)`-ed package (the tweaked key itself is
//! checked against an independent BIP-341 computation by `c18::scenario_taproot_signing`).

use std::collections::BTreeMap;

use frost_core as fc;
use frost_core::keys::repairable::{self, Delta, Sigma};
use frost_core::keys::{self, dkg, refresh, IdentifierList, KeyPackage, PublicKeyPackage, SecretShare};
use frost_core::round1::{SigningCommitments, SigningNonces};
use frost_core::round2::SignatureShare;
use frost_core::{CheaterDetection, Ciphersuite, Signature, SigningKey, SigningPackage};
use frost_rerandomized as rr;
use frost_secp256k1_tr as tr;
use frost_secp256k1_tr::keys::Tweak;
use serde_json::json;

use crate::common::*;
use crate::rng::TestRng;
use crate::Scenario;

// ------------------------------------------------------------------------------------------------
// result types of the wrapped functions

pub type DealerOut<C> = Result<(BTreeMap<Id<C>, SecretShare<C>>, PublicKeyPackage<C>), FErr<C>>;
pub type Part1Out<C> = Result<(dkg::round1::SecretPackage<C>, dkg::round1::Package<C>), FErr<C>>;
pub type Part2Out<C> = Result<(dkg::round2::SecretPackage<C>, BTreeMap<Id<C>, dkg::round2::Package<C>>), FErr<C>>;
pub type Part3Out<C> = Result<(KeyPackage<C>, PublicKeyPackage<C>), FErr<C>>;
pub type RefreshingOut<C> = Result<(Vec<SecretShare<C>>, PublicKeyPackage<C>), FErr<C>>;
pub type R1Map<C> = BTreeMap<Id<C>, dkg::round1::Package<C>>;
pub type R2Map<C> = BTreeMap<Id<C>, dkg::round2::Package<C>>;
pub type ShareMap<C> = BTreeMap<Id<C>, SignatureShare<C>>;

/// The non-generic wrapper functions of one ciphersuite crate.  `None` = the crate does not export that wrapper.
pub trait Wrapped: Suite {
    fn w_generate_with_dealer(n: u16, t: u16, ids: IdentifierList<'_, Self>, rng: &mut TestRng) -> DealerOut<Self>;
    fn w_split(key: &SigningKey<Self>, n: u16, t: u16, ids: IdentifierList<'_, Self>, rng: &mut TestRng) -> DealerOut<Self>;
    fn w_reconstruct(kps: &[KeyPackage<Self>]) -> Result<SigningKey<Self>, FErr<Self>>;

    fn w_part1(id: Id<Self>, n: u16, t: u16, rng: &mut TestRng) -> Part1Out<Self>;
    fn w_part2(sp: dkg::round1::SecretPackage<Self>, r1: &R1Map<Self>) -> Part2Out<Self>;
    fn w_part3(sp: &dkg::round2::SecretPackage<Self>, r1: &R1Map<Self>, r2: &R2Map<Self>) -> Part3Out<Self>;

    fn w_compute_refreshing_shares(pkp: PublicKeyPackage<Self>, ids: &[Id<Self>], rng: &mut TestRng) -> RefreshingOut<Self>;
    fn w_refresh_share(share: SecretShare<Self>, kp: &KeyPackage<Self>) -> Result<KeyPackage<Self>, FErr<Self>>;
    fn w_refresh_dkg_part1(id: Id<Self>, n: u16, t: u16, rng: &mut TestRng) -> Part1Out<Self>;
    fn w_refresh_dkg_part2(sp: dkg::round1::SecretPackage<Self>, r1: &R1Map<Self>) -> Part2Out<Self>;
    fn w_refresh_dkg_shares(
        sp: &dkg::round2::SecretPackage<Self>,
        r1: &R1Map<Self>,
        r2: &R2Map<Self>,
        pkp: PublicKeyPackage<Self>,
        kp: KeyPackage<Self>,
    ) -> Part3Out<Self>;

    fn w_repair_share_part1(
        helpers: &[Id<Self>],
        kp: &KeyPackage<Self>,
        rng: &mut TestRng,
        participant: Id<Self>,
    ) -> Result<BTreeMap<Id<Self>, Delta<Self>>, FErr<Self>>;
    fn w_repair_share_part2(deltas: &[Delta<Self>]) -> Sigma<Self>;
    fn w_repair_share_part3(sigmas: &[Sigma<Self>], id: Id<Self>, pkp: &PublicKeyPackage<Self>) -> Result<KeyPackage<Self>, FErr<Self>>;

    fn w_commit(share: &keys::SigningShare<Self>, rng: &mut TestRng) -> (SigningNonces<Self>, SigningCommitments<Self>);
    fn w_sign(pkg: &SigningPackage<Self>, nonces: &SigningNonces<Self>, kp: &KeyPackage<Self>) -> Result<SignatureShare<Self>, FErr<Self>>;
    fn w_aggregate(pkg: &SigningPackage<Self>, shares: &ShareMap<Self>, pkp: &PublicKeyPackage<Self>) -> Result<Signature<Self>, FErr<Self>>;

    /// `<suite>::aggregate_custom` (not exported by frost-secp256k1-tr)
    fn w_aggregate_custom(
        _pkg: &SigningPackage<Self>,
        _shares: &ShareMap<Self>,
        _pkp: &PublicKeyPackage<Self>,
        _mode: CheaterDetection,
    ) -> Option<Result<Signature<Self>, FErr<Self>>> {
        None
    }
    /// `<suite>::rerandomized::*` (the module is only compiled into frost-ristretto255)
    fn w_rr_sign(
        _pkg: &SigningPackage<Self>,
        _nonces: &SigningNonces<Self>,
        _kp: &KeyPackage<Self>,
        _seed: &[u8],
    ) -> Option<Result<SignatureShare<Self>, FErr<Self>>> {
        None
    }
    fn w_rr_aggregate(
        _pkg: &SigningPackage<Self>,
        _shares: &ShareMap<Self>,
        _pkp: &PublicKeyPackage<Self>,
        _params: &rr::RandomizedParams<Self>,
    ) -> Option<Result<Signature<Self>, FErr<Self>>> {
        None
    }
    fn w_rr_aggregate_custom(
        _pkg: &SigningPackage<Self>,
        _shares: &ShareMap<Self>,
        _pkp: &PublicKeyPackage<Self>,
        _mode: CheaterDetection,
        _params: &rr::RandomizedParams<Self>,
    ) -> Option<Result<Signature<Self>, FErr<Self>>> {
        None
    }
}

/// Optional group: the crate exports `aggregate_custom`.
macro_rules! wrap_aggregate_custom {
    ($k:ident, $C:ty) => {
        fn w_aggregate_custom(
            pkg: &SigningPackage<$C>,
            shares: &ShareMap<$C>,
            pkp: &PublicKeyPackage<$C>,
            mode: CheaterDetection,
        ) -> Option<Result<Signature<$C>, FErr<$C>>> {
            Some($k::aggregate_custom(pkg, shares, pkp, mode))
        }
    };
}

/// Optional group: the crate exports the module `rerandomized`.
macro_rules! wrap_rerandomized {
    ($k:ident, $C:ty) => {
        fn w_rr_sign(
            pkg: &SigningPackage<$C>,
            nonces: &SigningNonces<$C>,
            kp: &KeyPackage<$C>,
            seed: &[u8],
        ) -> Option<Result<SignatureShare<$C>, FErr<$C>>> {
            Some($k::rerandomized::sign_with_randomizer_seed(pkg, nonces, kp, seed))
        }
        fn w_rr_aggregate(
            pkg: &SigningPackage<$C>,
            shares: &ShareMap<$C>,
            pkp: &PublicKeyPackage<$C>,
            params: &rr::RandomizedParams<$C>,
        ) -> Option<Result<Signature<$C>, FErr<$C>>> {
            Some($k::rerandomized::aggregate(pkg, shares, pkp, params))
        }
        fn w_rr_aggregate_custom(
            pkg: &SigningPackage<$C>,
            shares: &ShareMap<$C>,
            pkp: &PublicKeyPackage<$C>,
            mode: CheaterDetection,
            params: &rr::RandomizedParams<$C>,
        ) -> Option<Result<Signature<$C>, FErr<$C>>> {
            Some($k::rerandomized::aggregate_custom(pkg, shares, pkp, mode, params))
        }
    };
}

/// `wrap_suite!(crate, Ciphersuite type, optional groups...)`: the wrappers every suite crate exports, plus
/// the optional groups (macros above) that crate has.
macro_rules! wrap_suite {
    ($k:ident, $C:ty $(, $extra:ident)*) => {
        impl Wrapped for $C {
            fn w_generate_with_dealer(n: u16, t: u16, ids: IdentifierList<'_, $C>, rng: &mut TestRng) -> DealerOut<$C> {
                $k::keys::generate_with_dealer(n, t, ids, rng)
            }
            fn w_split(key: &SigningKey<$C>, n: u16, t: u16, ids: IdentifierList<'_, $C>, rng: &mut TestRng) -> DealerOut<$C> {
                $k::keys::split(key, n, t, ids, rng)
            }
            fn w_reconstruct(kps: &[KeyPackage<$C>]) -> Result<SigningKey<$C>, FErr<$C>> {
                $k::keys::reconstruct(kps)
            }
            fn w_part1(id: Id<$C>, n: u16, t: u16, rng: &mut TestRng) -> Part1Out<$C> {
                $k::keys::dkg::part1(id, n, t, rng)
            }
            fn w_part2(sp: dkg::round1::SecretPackage<$C>, r1: &R1Map<$C>) -> Part2Out<$C> {
                $k::keys::dkg::part2(sp, r1)
            }
            fn w_part3(sp: &dkg::round2::SecretPackage<$C>, r1: &R1Map<$C>, r2: &R2Map<$C>) -> Part3Out<$C> {
                $k::keys::dkg::part3(sp, r1, r2)
            }
            fn w_compute_refreshing_shares(pkp: PublicKeyPackage<$C>, ids: &[Id<$C>], rng: &mut TestRng) -> RefreshingOut<$C> {
                $k::keys::refresh::compute_refreshing_shares(pkp, ids, rng)
            }
            fn w_refresh_share(share: SecretShare<$C>, kp: &KeyPackage<$C>) -> Result<KeyPackage<$C>, FErr<$C>> {
                $k::keys::refresh::refresh_share(share, kp)
            }
            fn w_refresh_dkg_part1(id: Id<$C>, n: u16, t: u16, rng: &mut TestRng) -> Part1Out<$C> {
                $k::keys::refresh::refresh_dkg_part1(id, n, t, rng)
            }
            fn w_refresh_dkg_part2(sp: dkg::round1::SecretPackage<$C>, r1: &R1Map<$C>) -> Part2Out<$C> {
                $k::keys::refresh::refresh_dkg_part2(sp, r1)
            }
            fn w_refresh_dkg_shares(
                sp: &dkg::round2::SecretPackage<$C>,
                r1: &R1Map<$C>,
                r2: &R2Map<$C>,
                pkp: PublicKeyPackage<$C>,
                kp: KeyPackage<$C>,
            ) -> Part3Out<$C> {
                $k::keys::refresh::refresh_dkg_shares(sp, r1, r2, pkp, kp)
            }
            fn w_repair_share_part1(
                helpers: &[Id<$C>],
                kp: &KeyPackage<$C>,
                rng: &mut TestRng,
                participant: Id<$C>,
            ) -> Result<BTreeMap<Id<$C>, Delta<$C>>, FErr<$C>> {
                // (the wrapper has a ciphersuite type parameter that it does not use)
                $k::keys::repairable::repair_share_part1::<$C, TestRng>(helpers, kp, rng, participant)
            }
            fn w_repair_share_part2(deltas: &[Delta<$C>]) -> Sigma<$C> {
                $k::keys::repairable::repair_share_part2(deltas)
            }
            fn w_repair_share_part3(sigmas: &[Sigma<$C>], id: Id<$C>, pkp: &PublicKeyPackage<$C>) -> Result<KeyPackage<$C>, FErr<$C>> {
                $k::keys::repairable::repair_share_part3(sigmas, id, pkp)
            }
            fn w_commit(share: &keys::SigningShare<$C>, rng: &mut TestRng) -> (SigningNonces<$C>, SigningCommitments<$C>) {
                $k::round1::commit(share, rng)
            }
            fn w_sign(pkg: &SigningPackage<$C>, nonces: &SigningNonces<$C>, kp: &KeyPackage<$C>) -> Result<SignatureShare<$C>, FErr<$C>> {
                $k::round2::sign(pkg, nonces, kp)
            }
            fn w_aggregate(pkg: &SigningPackage<$C>, shares: &ShareMap<$C>, pkp: &PublicKeyPackage<$C>) -> Result<Signature<$C>, FErr<$C>> {
                $k::aggregate(pkg, shares, pkp)
            }
            $( $extra!($k, $C); )*
        }
    };
}

wrap_suite!(frost_ed25519, frost_ed25519::Ed25519Sha512, wrap_aggregate_custom);
wrap_suite!(frost_ed448, frost_ed448::Ed448Shake256, wrap_aggregate_custom);
wrap_suite!(frost_p256, frost_p256::P256Sha256, wrap_aggregate_custom);
wrap_suite!(frost_ristretto255, frost_ristretto255::Ristretto255Sha512, wrap_aggregate_custom, wrap_rerandomized);
wrap_suite!(frost_secp256k1, frost_secp256k1::Secp256K1Sha256, wrap_aggregate_custom);
wrap_suite!(frost_secp256k1_tr, frost_secp256k1_tr::Secp256K1Sha256TR);

/// All six instantiations of a `fn f<C: Wrapped>` scenario.
macro_rules! wscn {
    ($f:ident, $w:expr) => {
        $crate::Scenario {
            name: stringify!($f),
            runs: [
                Some($f::<frost_ed25519::Ed25519Sha512> as $crate::ScnFn),
                Some($f::<frost_ed448::Ed448Shake256> as $crate::ScnFn),
                Some($f::<frost_p256::P256Sha256> as $crate::ScnFn),
                Some($f::<frost_ristretto255::Ristretto255Sha512> as $crate::ScnFn),
                Some($f::<frost_secp256k1::Secp256K1Sha256> as $crate::ScnFn),
                Some($f::<frost_secp256k1_tr::Secp256K1Sha256TR> as $crate::ScnFn),
            ],
            weight: $w,
        }
    };
}

pub fn scn_dealer(weight: u32) -> Scenario {
    wscn!(scenario_wrappers_dealer, weight)
}
pub fn scn_dkg(weight: u32) -> Scenario {
    wscn!(scenario_wrappers_dkg, weight)
}
pub fn scn_refresh(weight: u32) -> Scenario {
    wscn!(scenario_wrappers_refresh, weight)
}
pub fn scn_repair(weight: u32) -> Scenario {
    wscn!(scenario_wrappers_repair, weight)
}
pub fn scn_commit(weight: u32) -> Scenario {
    wscn!(scenario_wrappers_commit, weight)
}
pub fn scn_sign_aggregate(weight: u32) -> Scenario {
    wscn!(scenario_wrappers_sign_aggregate, weight)
}
/// only the suites whose crate exports the `rerandomized` wrappers
pub fn scn_rerandomized(weight: u32) -> Scenario {
    Scenario {
        name: "scenario_wrappers_rerandomized",
        runs: [
            None,
            None,
            None,
            Some(scenario_wrappers_rerandomized::<frost_ristretto255::Ristretto255Sha512> as crate::ScnFn),
            None,
            None,
        ],
        weight,
    }
}
pub fn scn_taproot_tweak(weight: u32) -> Scenario {
    Scenario {
        name: "scenario_wrappers_taproot_tweak",
        runs: [None, None, None, None, None, Some(scenario_wrappers_taproot_tweak as crate::ScnFn)],
        weight,
    }
}

// ------------------------------------------------------------------------------------------------
// rendering of results for the report (secrets are redacted by Debug, and a difference has to be visible)

pub trait Render {
    fn render(&self) -> String;
}

fn ok_hex<E>(r: Result<Vec<u8>, E>) -> String {
    match r {
        Ok(b) => hex(&b),
        Err(_) => "<not serializable>".into(),
    }
}

macro_rules! render_bytes {
    ($name:literal, $t:ty, fallible) => {
        impl<C: Ciphersuite> Render for $t {
            fn render(&self) -> String {
                format!("{}({})", $name, ok_hex(self.serialize()))
            }
        }
    };
    ($name:literal, $t:ty) => {
        impl<C: Ciphersuite> Render for $t {
            fn render(&self) -> String {
                format!("{}({})", $name, hex(&self.serialize()))
            }
        }
    };
}
render_bytes!("SigningKey", SigningKey<C>);
render_bytes!("Delta", Delta<C>);
render_bytes!("Sigma", Sigma<C>);
render_bytes!("SignatureShare", SignatureShare<C>);
render_bytes!("Signature", Signature<C>, fallible);
render_bytes!("SigningNonces", SigningNonces<C>, fallible);
render_bytes!("SigningCommitments", SigningCommitments<C>, fallible);
render_bytes!("dkg::round1::SecretPackage", dkg::round1::SecretPackage<C>, fallible);
render_bytes!("dkg::round1::Package", dkg::round1::Package<C>, fallible);
render_bytes!("dkg::round2::SecretPackage", dkg::round2::SecretPackage<C>, fallible);
render_bytes!("dkg::round2::Package", dkg::round2::Package<C>, fallible);

impl<C: Ciphersuite> Render for KeyPackage<C> {
    fn render(&self) -> String {
        format!(
            "KeyPackage{{identifier: {}, signing_share: {}, verifying_share: {}, verifying_key: {}, min_signers: {}}}",
            hex(&self.identifier().serialize()),
            hex(&self.signing_share().serialize()),
            ok_hex(self.verifying_share().serialize()),
            ok_hex(self.verifying_key().serialize()),
            self.min_signers()
        )
    }
}

impl<C: Ciphersuite> Render for PublicKeyPackage<C> {
    fn render(&self) -> String {
        let shares: Vec<String> = self
            .verifying_shares()
            .iter()
            .map(|(i, v)| format!("{}: {}", hex(&i.serialize()), ok_hex(v.serialize())))
            .collect();
        format!(
            "PublicKeyPackage{{verifying_key: {}, min_signers: {:?}, verifying_shares: {{{}}}}}",
            ok_hex(self.verifying_key().serialize()),
            self.min_signers(),
            shares.join(", ")
        )
    }
}

impl<C: Ciphersuite> Render for SecretShare<C> {
    fn render(&self) -> String {
        let commitment = match self.commitment().serialize() {
            Ok(v) => v.iter().map(|c| hex(c)).collect::<Vec<_>>().join(","),
            Err(_) => "<not serializable>".into(),
        };
        format!(
            "SecretShare{{identifier: {}, signing_share: {}, commitment: [{}]}}",
            hex(&self.identifier().serialize()),
            hex(&self.signing_share().serialize()),
            commitment
        )
    }
}

impl<A: Render, B: Render> Render for (A, B) {
    fn render(&self) -> String {
        format!("({}, {})", self.0.render(), self.1.render())
    }
}

impl<T: Render> Render for Vec<T> {
    fn render(&self) -> String {
        format!("[{}]", self.iter().map(|x| x.render()).collect::<Vec<_>>().join(", "))
    }
}

impl<C: Ciphersuite, V: Render> Render for BTreeMap<fc::Identifier<C>, V> {
    fn render(&self) -> String {
        let items: Vec<String> = self.iter().map(|(k, v)| format!("{}: {}", hex(&k.serialize()), v.render())).collect();
        format!("{{{}}}", items.join(", "))
    }
}

impl<T: Render, E: std::fmt::Debug> Render for Result<T, E> {
    fn render(&self) -> String {
        match self {
            Ok(v) => format!("Ok({})", v.render()),
            Err(e) => format!("Err({e:?})"),
        }
    }
}

/// Both renderings, cut down to the neighbourhood of the first difference when they are long.
fn views(expected: String, observed: String) -> (String, String) {
    const MAX: usize = 700;
    if expected.len() <= MAX && observed.len() <= MAX {
        return (expected, observed);
    }
    let common = expected.bytes().zip(observed.bytes()).take_while(|(a, b)| a == b).count();
    let start = common.saturating_sub(120);
    let cut = |s: &str| -> String {
        let part: String = s.chars().skip(start).take(MAX).collect();
        let more = if s.chars().count() > start + MAX { "..." } else { "" };
        if start == 0 {
            format!("{part}{more}")
        } else {
            format!("[the first {start} characters are equal] ...{part}{more}")
        }
    };
    (cut(&expected), cut(&observed))
}

/// Agreement of a wrapper's result with the result of the function it stands for, at the level the PROPERTIES fix: equal values on
/// success; on refusal both refuse and blame the same participants (`Error::culprits()`), but the error VALUE (which refusal wins when
/// several apply, a different variant for input that is refused anyway) is left open -- an added early refusal in a wrapper is not a defect.
pub trait Agree {
    fn agrees(&self, other: &Self) -> bool;
}
impl<T: PartialEq, C2: Ciphersuite> Agree for Result<T, fc::Error<C2>> {
    fn agrees(&self, other: &Self) -> bool {
        match (self, other) {
            (Ok(a), Ok(b)) => a == b,
            (Err(a), Err(b)) => a.culprits() == b.culprits(),
            _ => false,
        }
    }
}
impl<A: PartialEq, B: PartialEq> Agree for (A, B) {
    fn agrees(&self, other: &Self) -> bool {
        self == other
    }
}
impl<C2: Ciphersuite> Agree for Sigma<C2> {
    fn agrees(&self, other: &Self) -> bool {
        self == other
    }
}

/// The oracle: the wrapper's result agrees (see `Agree`) with the result of the function it stands for.
/// `target`: full path of that function; `input`: which of the generated inputs was used.
fn same_as<C: Suite, T: Agree + Render>(path: &str, target: &str, input: &str, wrapper: &T, reference: &T, notes: &mut Notes) -> Verdict {
    if wrapper.agrees(reference) {
        return Ok(());
    }
    notes.insert("wrapper".into(), json!(format!("{}::{path}", C::KRATE)));
    notes.insert("compared_with".into(), json!(target));
    notes.insert("wrapper_input".into(), json!(input));
    let (e, o) = views(reference.render(), wrapper.render());
    fail(
        &format!("the {} wrapper `{path}` returns what {target} returns on the same inputs ({input})", C::NAME),
        e,
        o,
    )
}

fn same<C: Suite, T: Agree + Render>(path: &str, input: &str, wrapper: &T, reference: &T, notes: &mut Notes) -> Verdict {
    same_as::<C, T>(path, &format!("frost_core::{path}"), input, wrapper, reference, notes)
}

/// Two random sources started from the same seed.
fn twin(rng: &mut TestRng) -> (TestRng, TestRng) {
    let a = rng.fork();
    let b = a.clone();
    (a, b)
}

fn others<C: Suite, V: Clone>(m: &BTreeMap<Id<C>, V>, me: &Id<C>) -> BTreeMap<Id<C>, V> {
    m.iter().filter(|(k, _)| *k != me).map(|(k, v)| (*k, v.clone())).collect()
}

fn pick<C: Suite>(rng: &mut TestRng, ids: &[Id<C>]) -> Result<Id<C>, Stop> {
    match ids.get(rng.below(ids.len())) {
        Some(i) => Ok(*i),
        None => skip("internal: empty identifier list"),
    }
}

/// (CheaterDetection is neither Copy nor Clone)
const MODES: [(&str, fn() -> CheaterDetection); 3] = [
    ("Disabled", || CheaterDetection::Disabled),
    ("FirstCheater", || CheaterDetection::FirstCheater),
    ("AllCheaters", || CheaterDetection::AllCheaters),
];

// ------------------------------------------------------------------------------------------------
// keys::{generate_with_dealer, split, reconstruct}

pub fn scenario_wrappers_dealer<C: Wrapped>(rng: &mut TestRng, p: &Params, notes: &mut Notes) -> Verdict {
    let ids = make_ids::<C>(&p.ids)?;
    let default_list = p.id_scheme == "default";
    fn id_list<C: Suite>(default_list: bool, custom: &[Id<C>]) -> IdentifierList<'_, C> {
        if default_list {
            IdentifierList::Default
        } else {
            IdentifierList::Custom(custom)
        }
    }
    let list = |custom| id_list::<C>(default_list, custom);

    let (mut ra, mut rb) = twin(rng);
    let w = C::w_generate_with_dealer(p.n, p.t, list(&ids), &mut ra);
    let c = keys::generate_with_dealer::<C, _>(p.n, p.t, list(&ids), &mut rb);
    same::<C, _>("keys::generate_with_dealer", "valid parameters", &w, &c, notes)?;

    let sk = SigningKey::<C>::new(rng);
    let (mut ra, mut rb) = twin(rng);
    let w = C::w_split(&sk, p.n, p.t, list(&ids), &mut ra);
    let c2 = keys::split::<C, _>(&sk, p.n, p.t, list(&ids), &mut rb);
    same::<C, _>("keys::split", "valid parameters", &w, &c2, notes)?;

    // parameter sets the library refuses: the wrapper refuses with the same error
    let mut dup = ids.clone();
    if let (Some(first), Some(last)) = (ids.first().copied(), dup.last_mut()) {
        *last = first;
    }
    let short: Vec<Id<C>> = ids.iter().skip(1).copied().collect();
    let bad: [(&str, u16, u16, IdentifierList<'_, C>); 6] = [
        ("min_signers = 1", p.n, 1, list(&ids)),
        ("min_signers = 0", p.n, 0, list(&ids)),
        ("min_signers = max_signers + 1", p.n, p.n + 1, list(&ids)),
        ("max_signers = 1", 1, 1, IdentifierList::Default),
        ("duplicated identifier", p.n, p.t, IdentifierList::Custom(&dup)),
        ("one identifier too few", p.n, p.t, IdentifierList::Custom(&short)),
    ];
    for (kind, n, t, l) in bad {
        // IdentifierList is not Clone: rebuild it for the second call
        let l2 = match &l {
            IdentifierList::Default => IdentifierList::Default,
            IdentifierList::Custom(s) => IdentifierList::Custom(s),
        };
        let (mut ra, mut rb) = twin(rng);
        let w = C::w_generate_with_dealer(n, t, l, &mut ra);
        let c = keys::generate_with_dealer::<C, _>(n, t, l2, &mut rb);
        same::<C, _>("keys::generate_with_dealer", kind, &w, &c, notes)?;
    }
    let (mut ra, mut rb) = twin(rng);
    let w = C::w_split(&sk, p.n, p.n + 1, list(&ids), &mut ra);
    let c3 = keys::split::<C, _>(&sk, p.n, p.n + 1, list(&ids), &mut rb);
    same::<C, _>("keys::split", "min_signers = max_signers + 1", &w, &c3, notes)?;
    let (mut ra, mut rb) = twin(rng);
    let w = C::w_split(&sk, p.n, p.t, IdentifierList::Custom(&dup), &mut ra);
    let c3 = keys::split::<C, _>(&sk, p.n, p.t, IdentifierList::Custom(&dup), &mut rb);
    same::<C, _>("keys::split", "duplicated identifier", &w, &c3, notes)?;

    // reconstruct
    let (shares, _) = need(c2, "split with valid parameters")?;
    let mut kps: Vec<KeyPackage<C>> = Vec::new();
    for s in shares.values() {
        kps.push(need(KeyPackage::<C>::try_from(s.clone()), "KeyPackage::try_from(honest share)")?);
    }
    rng.shuffle(&mut kps);
    let t = p.t as usize;
    let mut sets: Vec<(&str, Vec<KeyPackage<C>>)> = vec![
        ("all key packages", kps.clone()),
        ("min_signers key packages", kps.iter().take(t).cloned().collect()),
        ("min_signers - 1 key packages", kps.iter().take(t - 1).cloned().collect()),
        ("no key package", Vec::new()),
    ];
    let mut twice: Vec<KeyPackage<C>> = kps.iter().take(t).cloned().collect();
    if let Some(first) = twice.first().cloned() {
        twice.push(first);
    }
    sets.push(("a key package listed twice", twice));
    for (kind, set) in &sets {
        let w = C::w_reconstruct(set);
        let c = keys::reconstruct::<C>(set);
        same::<C, _>("keys::reconstruct", kind, &w, &c, notes)?;
    }
    Ok(())
}

// ------------------------------------------------------------------------------------------------
// keys::dkg::{part1, part2, part3}

pub fn scenario_wrappers_dkg<C: Wrapped>(rng: &mut TestRng, p: &Params, notes: &mut Notes) -> Verdict {
    let ids = make_ids::<C>(&p.ids)?;
    let (n, t) = (p.n, p.t);

    let mut r1_secret = BTreeMap::new();
    let mut r1_pkg: R1Map<C> = BTreeMap::new();
    for id in &ids {
        let (mut ra, mut rb) = twin(rng);
        let w = C::w_part1(*id, n, t, &mut ra);
        let c = dkg::part1::<C, _>(*id, n, t, &mut rb);
        same::<C, _>("keys::dkg::part1", "valid parameters", &w, &c, notes)?;
        let (s, pk) = need(c, "honest dkg::part1")?;
        r1_secret.insert(*id, s);
        r1_pkg.insert(*id, pk);
    }
    let someone = pick::<C>(rng, &ids)?;
    for (kind, n2, t2) in [("min_signers = max_signers + 1", n, n + 1), ("min_signers = 1", n, 1), ("max_signers = 0", 0, 0)] {
        let (mut ra, mut rb) = twin(rng);
        let w = C::w_part1(someone, n2, t2, &mut ra);
        let c = dkg::part1::<C, _>(someone, n2, t2, &mut rb);
        same::<C, _>("keys::dkg::part1", kind, &w, &c, notes)?;
    }

    let mut r2_secret = BTreeMap::new();
    let mut r2_out: BTreeMap<Id<C>, R2Map<C>> = BTreeMap::new();
    for id in &ids {
        let sp = match r1_secret.get(id) {
            Some(s) => s,
            None => return skip("internal: missing secret package"),
        };
        let received = others::<C, _>(&r1_pkg, id);
        let w = C::w_part2(sp.clone(), &received);
        let c = dkg::part2::<C>(sp.clone(), &received);
        same::<C, _>("keys::dkg::part2", "the round-one packages of all other participants", &w, &c, notes)?;
        let (s2, out) = need(c, "honest dkg::part2")?;
        r2_secret.insert(*id, s2);
        r2_out.insert(*id, out);
    }
    // faulty round-one sets handed to one participant: same refusal, same culprit
    let me = pick::<C>(rng, &ids)?;
    notes.insert("faulty_inputs_given_to_hex".into(), json!(id_hex::<C>(&me)));
    if let (Some(sp), Some(mine)) = (r1_secret.get(&me), r1_pkg.get(&me)) {
        let received = others::<C, _>(&r1_pkg, &me);
        let mut cases: Vec<(&str, R1Map<C>)> = Vec::new();
        let mut missing = received.clone();
        missing.pop_first();
        cases.push(("one round-one package missing", missing));
        cases.push(("no round-one package", BTreeMap::new()));
        cases.push(("own round-one package included", r1_pkg.clone()));
        let mut forged = received.clone();
        let victim_pos = rng.below(forged.len().max(1));
        if let Some((_, pk)) = forged.iter_mut().nth(victim_pos) {
            // the peer's commitment with MY proof of knowledge: invalid proof, the peer is the culprit
            *pk = dkg::round1::Package::new(pk.commitment().clone(), *mine.proof_of_knowledge());
        }
        cases.push(("one peer's proof of knowledge is invalid", forged));
        for (kind, set) in &cases {
            let w = C::w_part2(sp.clone(), set);
            let c = dkg::part2::<C>(sp.clone(), set);
            same::<C, _>("keys::dkg::part2", kind, &w, &c, notes)?;
        }
    }

    let r2_for = |me: &Id<C>| -> R2Map<C> {
        let mut m = BTreeMap::new();
        for (sender, out) in &r2_out {
            if let Some(pkg) = out.get(me) {
                m.insert(*sender, pkg.clone());
            }
        }
        m
    };
    for id in &ids {
        let s2 = match r2_secret.get(id) {
            Some(s) => s,
            None => return skip("internal: missing round-two secret package"),
        };
        let (r1, r2) = (others::<C, _>(&r1_pkg, id), r2_for(id));
        let w = C::w_part3(s2, &r1, &r2);
        let c = dkg::part3::<C>(s2, &r1, &r2);
        same::<C, _>("keys::dkg::part3", "the round-one and round-two packages of all other participants", &w, &c, notes)?;
    }
    // faulty sets for one participant
    if let Some(s2) = r2_secret.get(&me) {
        let (r1, r2) = (others::<C, _>(&r1_pkg, &me), r2_for(&me));
        let mut cases: Vec<(&str, R1Map<C>, R2Map<C>)> = Vec::new();
        let mut bad = r2.clone();
        let pos = rng.below(bad.len().max(1));
        if let Some((_, pk)) = bad.iter_mut().nth(pos) {
            *pk = dkg::round2::Package::new(make_signing_share::<C>(&random_nonzero_scalar::<C>(rng))?);
        }
        cases.push(("one round-two share does not match its sender's commitment", r1.clone(), bad));
        let mut missing = r2.clone();
        missing.pop_last();
        cases.push(("one round-two package missing", r1.clone(), missing));
        let mut r1_missing = r1.clone();
        r1_missing.pop_first();
        cases.push(("one round-one package missing", r1_missing, r2.clone()));
        cases.push(("no packages", BTreeMap::new(), BTreeMap::new()));
        for (kind, a, b) in &cases {
            let w = C::w_part3(s2, a, b);
            let c = dkg::part3::<C>(s2, a, b);
            same::<C, _>("keys::dkg::part3", kind, &w, &c, notes)?;
        }
    }
    Ok(())
}

// ------------------------------------------------------------------------------------------------
// keys::refresh::*

pub fn scenario_wrappers_refresh<C: Wrapped>(rng: &mut TestRng, p: &Params, notes: &mut Notes) -> Verdict {
    let keys = keygen::<C>(rng, p, false)?;
    let (n, t) = (p.n as usize, p.t as usize);
    let size = match rng.below(4) {
        0 | 1 => n,
        2 => t,
        _ => rng.range(t, n),
    };
    let mut idx = rng.subset(n, size);
    if rng.chance(50) {
        rng.shuffle(&mut idx);
    }
    let remaining: Vec<Id<C>> = idx.iter().filter_map(|i| keys.ids.get(*i)).copied().collect();
    notes.insert("remaining_hex".into(), json!(ids_hex::<C>(&remaining)));
    let key_odd_y = vkey_bytes::<C>(keys.pubkeys.verifying_key()).first() == Some(&0x03);
    notes.insert("group_key_sec1_tag_is_03".into(), json!(key_odd_y));

    // ---- trusted dealer ----
    let (mut ra, mut rb) = twin(rng);
    let w = C::w_compute_refreshing_shares(keys.pubkeys.clone(), &remaining, &mut ra);
    let c = refresh::compute_refreshing_shares::<C, _>(keys.pubkeys.clone(), &remaining, &mut rb);
    same::<C, _>("keys::refresh::compute_refreshing_shares", "remaining participants known to the group", &w, &c, notes)?;
    let (shares, _) = need(c, "compute_refreshing_shares")?;
    for share in &shares {
        let old = match keys.key_packages.get(share.identifier()) {
            Some(k) => k,
            None => return skip("internal: no key package"),
        };
        let w = C::w_refresh_share(share.clone(), old);
        let c = refresh::refresh_share::<C>(share.clone(), old);
        same::<C, _>("keys::refresh::refresh_share", "the dealer's refreshing share for this participant", &w, &c, notes)?;
    }
    // inputs the core refuses (or not: the wrapper has to agree either way)
    let outsider = need(Id::<C>::derive(b"not a member of this group"), "derive")?;
    if !keys.ids.contains(&outsider) {
        let mut with_unknown = remaining.clone();
        let pos = rng.below(with_unknown.len());
        if let Some(slot) = with_unknown.get_mut(pos) {
            *slot = outsider;
        }
        let (mut ra, mut rb) = twin(rng);
        let w = C::w_compute_refreshing_shares(keys.pubkeys.clone(), &with_unknown, &mut ra);
        let c = refresh::compute_refreshing_shares::<C, _>(keys.pubkeys.clone(), &with_unknown, &mut rb);
        same::<C, _>("keys::refresh::compute_refreshing_shares", "a participant unknown to the group", &w, &c, notes)?;
    }
    let few: Vec<Id<C>> = remaining.iter().take(t - 1).copied().collect();
    let (mut ra, mut rb) = twin(rng);
    let w = C::w_compute_refreshing_shares(keys.pubkeys.clone(), &few, &mut ra);
    let c = refresh::compute_refreshing_shares::<C, _>(keys.pubkeys.clone(), &few, &mut rb);
    same::<C, _>("keys::refresh::compute_refreshing_shares", "fewer than min_signers participants", &w, &c, notes)?;
    let legacy = PublicKeyPackage::<C>::new(keys.pubkeys.verifying_shares().clone(), *keys.pubkeys.verifying_key(), None);
    let (mut ra, mut rb) = twin(rng);
    let w = C::w_compute_refreshing_shares(legacy.clone(), &remaining, &mut ra);
    let c = refresh::compute_refreshing_shares::<C, _>(legacy, &remaining, &mut rb);
    same::<C, _>("keys::refresh::compute_refreshing_shares", "public key package without min_signers", &w, &c, notes)?;
    // refresh_share: somebody else's refreshing share; a share of a polynomial with non-zero constant term
    if let (Some(first), Some(last)) = (shares.first(), shares.last()) {
        if let Some(old) = keys.key_packages.get(last.identifier()) {
            let w = C::w_refresh_share(first.clone(), old);
            let c = refresh::refresh_share::<C>(first.clone(), old);
            same::<C, _>("keys::refresh::refresh_share", "a refreshing share (possibly another participant's)", &w, &c, notes)?;
        }
    }
    let sk = SigningKey::<C>::new(rng);
    if let Ok((bad, _)) = keys::split::<C, _>(&sk, remaining.len() as u16, p.t, IdentifierList::Custom(&remaining), rng) {
        if let Some((id, share)) = bad.iter().next() {
            if let Some(old) = keys.key_packages.get(id) {
                let w = C::w_refresh_share(share.clone(), old);
                let c = refresh::refresh_share::<C>(share.clone(), old);
                same::<C, _>("keys::refresh::refresh_share", "a share of a polynomial with non-zero constant term", &w, &c, notes)?;
            }
        }
    }

    // ---- distributed ----
    let n2 = remaining.len() as u16;
    let mut r1_secret = BTreeMap::new();
    let mut r1_pkg: R1Map<C> = BTreeMap::new();
    for id in &remaining {
        let (mut ra, mut rb) = twin(rng);
        let w = C::w_refresh_dkg_part1(*id, n2, p.t, &mut ra);
        let c = refresh::refresh_dkg_part1::<C, _>(*id, n2, p.t, &mut rb);
        same::<C, _>("keys::refresh::refresh_dkg_part1", "valid parameters", &w, &c, notes)?;
        let (s, pk) = need(c, "refresh_dkg_part1")?;
        r1_secret.insert(*id, s);
        r1_pkg.insert(*id, pk);
    }
    let me = pick::<C>(rng, &remaining)?;
    let (mut ra, mut rb) = twin(rng);
    let w = C::w_refresh_dkg_part1(me, n2, n2 + 1, &mut ra);
    let c = refresh::refresh_dkg_part1::<C, _>(me, n2, n2 + 1, &mut rb);
    same::<C, _>("keys::refresh::refresh_dkg_part1", "min_signers = max_signers + 1", &w, &c, notes)?;

    let mut r2_secret = BTreeMap::new();
    let mut r2_out: BTreeMap<Id<C>, R2Map<C>> = BTreeMap::new();
    for id in &remaining {
        let sp = match r1_secret.get(id) {
            Some(s) => s,
            None => return skip("internal"),
        };
        let received = others::<C, _>(&r1_pkg, id);
        let w = C::w_refresh_dkg_part2(sp.clone(), &received);
        let c = refresh::refresh_dkg_part2::<C>(sp.clone(), &received);
        same::<C, _>("keys::refresh::refresh_dkg_part2", "the round-one packages of all other participants", &w, &c, notes)?;
        let (s2, out) = need(c, "refresh_dkg_part2")?;
        r2_secret.insert(*id, s2);
        r2_out.insert(*id, out);
    }
    if let Some(sp) = r1_secret.get(&me) {
        let mut missing = others::<C, _>(&r1_pkg, &me);
        missing.pop_last();
        let w = C::w_refresh_dkg_part2(sp.clone(), &missing);
        let c = refresh::refresh_dkg_part2::<C>(sp.clone(), &missing);
        same::<C, _>("keys::refresh::refresh_dkg_part2", "one round-one package missing", &w, &c, notes)?;
    }
    let r2_for = |me: &Id<C>| -> R2Map<C> {
        let mut m = BTreeMap::new();
        for (sender, out) in &r2_out {
            if let Some(pkg) = out.get(me) {
                m.insert(*sender, pkg.clone());
            }
        }
        m
    };
    for id in &remaining {
        let (s2, old) = match (r2_secret.get(id), keys.key_packages.get(id)) {
            (Some(a), Some(b)) => (a, b),
            _ => return skip("internal"),
        };
        let (r1, r2) = (others::<C, _>(&r1_pkg, id), r2_for(id));
        let w = C::w_refresh_dkg_shares(s2, &r1, &r2, keys.pubkeys.clone(), old.clone());
        let c = refresh::refresh_dkg_shares::<C>(s2, &r1, &r2, keys.pubkeys.clone(), old.clone());
        same::<C, _>("keys::refresh::refresh_dkg_shares", "the packages of all other participants and the own old key material", &w, &c, notes)?;
    }
    if let (Some(s2), Some(old)) = (r2_secret.get(&me), keys.key_packages.get(&me)) {
        let (r1, r2) = (others::<C, _>(&r1_pkg, &me), r2_for(&me));
        // a wrong round-two share
        let mut bad = r2.clone();
        if let Some((_, pk)) = bad.iter_mut().next() {
            *pk = dkg::round2::Package::new(make_signing_share::<C>(&random_nonzero_scalar::<C>(rng))?);
        }
        let w = C::w_refresh_dkg_shares(s2, &r1, &bad, keys.pubkeys.clone(), old.clone());
        let c = refresh::refresh_dkg_shares::<C>(s2, &r1, &bad, keys.pubkeys.clone(), old.clone());
        same::<C, _>("keys::refresh::refresh_dkg_shares", "one round-two share does not match its sender's commitment", &w, &c, notes)?;
        // old key package claiming another threshold
        let lying = KeyPackage::<C>::new(*old.identifier(), *old.signing_share(), *old.verifying_share(), *old.verifying_key(), p.t + 1);
        let w = C::w_refresh_dkg_shares(s2, &r1, &r2, keys.pubkeys.clone(), lying.clone());
        let c = refresh::refresh_dkg_shares::<C>(s2, &r1, &r2, keys.pubkeys.clone(), lying);
        same::<C, _>("keys::refresh::refresh_dkg_shares", "old key package with another min_signers", &w, &c, notes)?;
    }
    Ok(())
}

// ------------------------------------------------------------------------------------------------
// keys::repairable::*

pub fn scenario_wrappers_repair<C: Wrapped>(rng: &mut TestRng, p: &Params, notes: &mut Notes) -> Verdict {
    let keys = keygen::<C>(rng, p, false)?;
    let (n, t) = (p.n as usize, p.t as usize);
    let new_id = n == t || rng.chance(30);
    let (participant, pool): (Id<C>, Vec<Id<C>>) = if new_id {
        let cand = need(Id::<C>::derive(format!("newcomer-{}", rng.below(1000)).as_bytes()), "derive")?;
        if keys.ids.contains(&cand) {
            return skip("new identifier collides");
        }
        (cand, keys.ids.clone())
    } else {
        let part = pick::<C>(rng, &keys.ids)?;
        (part, keys.ids.iter().filter(|i| **i != part).copied().collect())
    };
    let hsize = match rng.below(3) {
        0 => t,
        1 => pool.len(),
        _ => rng.range(t, pool.len()),
    };
    let mut hidx = rng.subset(pool.len(), hsize);
    if rng.chance(60) {
        rng.shuffle(&mut hidx);
    }
    let helpers: Vec<Id<C>> = hidx.iter().filter_map(|i| pool.get(*i)).copied().collect();
    notes.insert("repaired_participant_hex".into(), json!(id_hex::<C>(&participant)));
    notes.insert("helpers_hex".into(), json!(ids_hex::<C>(&helpers)));

    let mut received: BTreeMap<Id<C>, Vec<Delta<C>>> = BTreeMap::new();
    for h in &helpers {
        let kp = match keys.key_packages.get(h) {
            Some(k) => k,
            None => return skip("internal: helper without key package"),
        };
        let (mut ra, mut rb) = twin(rng);
        let w = C::w_repair_share_part1(&helpers, kp, &mut ra, participant);
        let c = repairable::repair_share_part1::<C, _>(&helpers, kp, &mut rb, participant);
        same::<C, _>("keys::repairable::repair_share_part1", ">= min_signers distinct helpers including the caller", &w, &c, notes)?;
        for (to, d) in need(c, "repair_share_part1")? {
            received.entry(to).or_default().push(d);
        }
    }
    // helper lists the core refuses
    if let Some(first) = helpers.first() {
        if let Some(kp) = keys.key_packages.get(first) {
            let few: Vec<Id<C>> = helpers.iter().take(t - 1).copied().collect();
            let mut dup = helpers.clone();
            if let Some(last) = dup.last_mut() {
                *last = *first;
            }
            let without_caller: Vec<Id<C>> = helpers.iter().skip(1).copied().collect();
            for (kind, list) in [
                ("fewer than min_signers helpers", &few),
                ("a helper listed twice", &dup),
                ("the caller is not among the helpers", &without_caller),
            ] {
                let (mut ra, mut rb) = twin(rng);
                let w = C::w_repair_share_part1(list, kp, &mut ra, participant);
                let c = repairable::repair_share_part1::<C, _>(list, kp, &mut rb, participant);
                same::<C, _>("keys::repairable::repair_share_part1", kind, &w, &c, notes)?;
            }
        }
    }

    let mut sigmas: Vec<Sigma<C>> = Vec::new();
    for h in &helpers {
        let deltas: &[Delta<C>] = received.get(h).map(|v| v.as_slice()).unwrap_or(&[]);
        let w = C::w_repair_share_part2(deltas);
        let c = repairable::repair_share_part2::<C>(deltas);
        same::<C, _>("keys::repairable::repair_share_part2", "the deltas received from all helpers", &w, &c, notes)?;
        // sub-lists (a defect may depend on position or count)
        for (kind, sub) in [
            ("the first delta only", deltas.get(..1)),
            ("all deltas but the last", deltas.get(..deltas.len().saturating_sub(1))),
            ("no delta", deltas.get(..0)),
        ] {
            if let Some(sub) = sub {
                let w = C::w_repair_share_part2(sub);
                let c = repairable::repair_share_part2::<C>(sub);
                same::<C, _>("keys::repairable::repair_share_part2", kind, &w, &c, notes)?;
            }
        }
        sigmas.push(c);
    }

    let legacy = PublicKeyPackage::<C>::new(keys.pubkeys.verifying_shares().clone(), *keys.pubkeys.verifying_key(), None);
    let fewer: Vec<Sigma<C>> = sigmas.iter().skip(1).copied().collect();
    for (kind, s, pkp) in [
        ("the sigmas of all helpers", &sigmas, &keys.pubkeys),
        ("one sigma missing", &fewer, &keys.pubkeys),
        ("public key package without min_signers", &sigmas, &legacy),
    ] {
        let w = C::w_repair_share_part3(s, participant, pkp);
        let c = repairable::repair_share_part3::<C>(s, participant, pkp);
        same::<C, _>("keys::repairable::repair_share_part3", kind, &w, &c, notes)?;
    }
    Ok(())
}

// ------------------------------------------------------------------------------------------------
// round1::commit

pub fn scenario_wrappers_commit<C: Wrapped>(rng: &mut TestRng, _p: &Params, notes: &mut Notes) -> Verdict {
    let (mut ra, mut rb) = twin(rng);
    for round in 0..4 {
        // successive calls on the same pair of random sources: the wrapper also has to CONSUME what the core consumes
        let share = make_signing_share::<C>(&random_nonzero_scalar::<C>(rng))?;
        let w = C::w_commit(&share, &mut ra);
        let c = fc::round1::commit::<C, _>(&share, &mut rb);
        same::<C, _>("round1::commit", &format!("random signing share, call {round} on the same random source"), &w, &c, notes)?;
    }
    Ok(())
}

// ------------------------------------------------------------------------------------------------
// round2::sign, aggregate, aggregate_custom

/// share + 1
fn bump<C: Suite>(s: &SignatureShare<C>) -> Result<SignatureShare<C>, Stop> {
    make_sigshare::<C>(&(sigshare_scalar::<C>(s)? + one::<C>()))
}

pub fn scenario_wrappers_sign_aggregate<C: Wrapped>(rng: &mut TestRng, p: &Params, notes: &mut Notes) -> Verdict {
    let keys = keygen::<C>(rng, p, false)?;
    let signers = signer_ids::<C>(&keys, p);
    notes.insert("signers_hex".into(), json!(ids_hex::<C>(&signers)));
    let (nonces, commitments) = commit_all::<C>(rng, &keys.key_packages, &signers)?;
    let package = SigningPackage::<C>::new(commitments.clone(), &p.message);

    let mut shares: ShareMap<C> = BTreeMap::new();
    for id in &signers {
        let (kp, nn) = match (keys.key_packages.get(id), nonces.get(id)) {
            (Some(k), Some(n)) => (k, n),
            _ => return skip("internal: signer without key package"),
        };
        let w = C::w_sign(&package, nn, kp);
        let c = fc::round2::sign::<C>(&package, nn, kp);
        same::<C, _>("round2::sign", "honest signing package, own nonces, own key package", &w, &c, notes)?;
        shares.insert(*id, need(c, "round2::sign")?);
    }
    // packages / key material a signer refuses
    let me = pick::<C>(rng, &signers)?;
    if let (Some(kp), Some(nn)) = (keys.key_packages.get(&me), nonces.get(&me)) {
        let (other_nonces, other_commitments) = commit_all::<C>(rng, &keys.key_packages, &signers)?;
        let mut without_me = commitments.clone();
        without_me.remove(&me);
        let few: BTreeMap<_, _> = commitments.iter().take(p.t as usize - 1).map(|(k, v)| (*k, *v)).collect();
        let other_msg: Vec<u8> = p.message.iter().copied().chain([0x2a]).collect();
        let pkgs = [
            ("signing package of a concurrent session", SigningPackage::<C>::new(other_commitments, &p.message)),
            ("signing package without the signer's entry", SigningPackage::<C>::new(without_me, &p.message)),
            ("signing package with fewer than min_signers entries", SigningPackage::<C>::new(few, &p.message)),
            ("signing package with another message", SigningPackage::<C>::new(commitments.clone(), &other_msg)),
        ];
        for (kind, pkg) in &pkgs {
            let w = C::w_sign(pkg, nn, kp);
            let c = fc::round2::sign::<C>(pkg, nn, kp);
            same::<C, _>("round2::sign", kind, &w, &c, notes)?;
        }
        if let Some(on) = other_nonces.get(&me) {
            let w = C::w_sign(&package, on, kp);
            let c = fc::round2::sign::<C>(&package, on, kp);
            same::<C, _>("round2::sign", "nonces of a concurrent session", &w, &c, notes)?;
        }
        if let Some(other_kp) = signers.iter().find(|i| **i != me).and_then(|i| keys.key_packages.get(i)) {
            let w = C::w_sign(&package, nn, other_kp);
            let c = fc::round2::sign::<C>(&package, nn, other_kp);
            same::<C, _>("round2::sign", "another signer's key package", &w, &c, notes)?;
        }
    }

    // aggregation: honest shares, altered shares (same culprits), missing share, other message
    let mut one_bad = shares.clone();
    if let Some(s) = one_bad.get_mut(&me) {
        *s = bump::<C>(s)?;
    }
    let mut all_bad = shares.clone();
    for s in all_bad.values_mut() {
        *s = bump::<C>(s)?;
    }
    let mut missing = shares.clone();
    missing.remove(&me);
    let mut surplus = shares.clone();
    if let (Some(extra), Some(s)) = (keys.ids.iter().find(|i| !signers.contains(i)), shares.values().next()) {
        surplus.insert(*extra, *s);
    }
    let other_msg: Vec<u8> = p.message.iter().copied().chain([0x2a]).collect();
    let other_pkg = SigningPackage::<C>::new(commitments.clone(), &other_msg);
    let legacy = PublicKeyPackage::<C>::new(keys.pubkeys.verifying_shares().clone(), *keys.pubkeys.verifying_key(), None);
    let cases: [(&str, &SigningPackage<C>, &ShareMap<C>, &PublicKeyPackage<C>); 7] = [
        ("honest shares", &package, &shares, &keys.pubkeys),
        ("one share altered", &package, &one_bad, &keys.pubkeys),
        ("every share altered", &package, &all_bad, &keys.pubkeys),
        ("one share missing", &package, &missing, &keys.pubkeys),
        ("a share of a participant without commitment", &package, &surplus, &keys.pubkeys),
        ("signing package with another message", &other_pkg, &shares, &keys.pubkeys),
        ("public key package without min_signers", &package, &shares, &legacy),
    ];
    for (kind, pkg, sh, pkp) in cases {
        let w = C::w_aggregate(pkg, sh, pkp);
        let c = fc::aggregate::<C>(pkg, sh, pkp);
        same::<C, _>("aggregate", kind, &w, &c, notes)?;
        for (mname, mode) in MODES {
            if let Some(w) = C::w_aggregate_custom(pkg, sh, pkp, mode()) {
                let c = fc::aggregate_custom::<C>(pkg, sh, pkp, mode());
                same::<C, _>("aggregate_custom", &format!("{kind}; CheaterDetection::{mname}"), &w, &c, notes)?;
            }
        }
    }
    Ok(())
}

// ------------------------------------------------------------------------------------------------
// <suite>::rerandomized::{sign_with_randomizer_seed, aggregate, aggregate_custom}

pub fn scenario_wrappers_rerandomized<C: Wrapped>(rng: &mut TestRng, p: &Params, notes: &mut Notes) -> Verdict {
    let keys = keygen::<C>(rng, p, false)?;
    let signers = signer_ids::<C>(&keys, p);
    notes.insert("signers_hex".into(), json!(ids_hex::<C>(&signers)));
    let (nonces, commitments) = commit_all::<C>(rng, &keys.key_packages, &signers)?;
    let package = SigningPackage::<C>::new(commitments.clone(), &p.message);
    let (params, seed) = need(
        rr::RandomizedParams::<C>::new_from_commitments(keys.pubkeys.verifying_key(), package.signing_commitments(), &mut *rng),
        "RandomizedParams::new_from_commitments",
    )?;
    notes.insert("randomizer_seed_hex".into(), json!(hex(&seed)));
    let other_seed = rng.bytes(seed.len().max(1));
    let few: BTreeMap<_, _> = commitments.iter().take(p.t as usize - 1).map(|(k, v)| (*k, *v)).collect();
    let few_pkg = SigningPackage::<C>::new(few, &p.message);

    let mut shares: ShareMap<C> = BTreeMap::new();
    for id in &signers {
        let (kp, nn) = match (keys.key_packages.get(id), nonces.get(id)) {
            (Some(k), Some(n)) => (k, n),
            _ => return skip("internal"),
        };
        let w = match C::w_rr_sign(&package, nn, kp, &seed) {
            Some(w) => w,
            None => return skip("this ciphersuite crate does not export the rerandomized wrappers"),
        };
        let c = rr::sign_with_randomizer_seed::<C>(&package, nn, kp, &seed);
        same_as::<C, _>(
            "rerandomized::sign_with_randomizer_seed",
            "frost_rerandomized::sign_with_randomizer_seed",
            "honest package, own nonces and key package, the coordinator's seed",
            &w,
            &c,
            notes,
        )?;
        shares.insert(*id, need(c, "sign_with_randomizer_seed")?);
        for (kind, pkg, sd) in [
            ("another randomizer seed", &package, &other_seed),
            ("empty randomizer seed", &package, &Vec::new()),
            ("signing package with fewer than min_signers entries", &few_pkg, &seed),
        ] {
            if let Some(w) = C::w_rr_sign(pkg, nn, kp, sd) {
                let c = rr::sign_with_randomizer_seed::<C>(pkg, nn, kp, sd);
                same_as::<C, _>(
                    "rerandomized::sign_with_randomizer_seed",
                    "frost_rerandomized::sign_with_randomizer_seed",
                    kind,
                    &w,
                    &c,
                    notes,
                )?;
            }
        }
    }
    let me = pick::<C>(rng, &signers)?;
    let mut one_bad = shares.clone();
    if let Some(s) = one_bad.get_mut(&me) {
        *s = bump::<C>(s)?;
    }
    let mut missing = shares.clone();
    missing.remove(&me);
    let other_params = need(
        rr::RandomizedParams::<C>::regenerate_from_seed_and_commitments(keys.pubkeys.verifying_key(), &other_seed, package.signing_commitments()),
        "RandomizedParams::regenerate_from_seed_and_commitments",
    )?;
    let cases: [(&str, &ShareMap<C>, &rr::RandomizedParams<C>); 4] = [
        ("honest shares", &shares, &params),
        ("one share altered", &one_bad, &params),
        ("one share missing", &missing, &params),
        ("parameters of another seed", &shares, &other_params),
    ];
    for (kind, sh, prm) in cases {
        if let Some(w) = C::w_rr_aggregate(&package, sh, &keys.pubkeys, prm) {
            let c = rr::aggregate::<C>(&package, sh, &keys.pubkeys, prm);
            same_as::<C, _>("rerandomized::aggregate", "frost_rerandomized::aggregate", kind, &w, &c, notes)?;
        }
        for (mname, mode) in MODES {
            if let Some(w) = C::w_rr_aggregate_custom(&package, sh, &keys.pubkeys, mode(), prm) {
                let c = rr::aggregate_custom::<C>(&package, sh, &keys.pubkeys, mode(), prm);
                same_as::<C, _>(
                    "rerandomized::aggregate_custom",
                    "frost_rerandomized::aggregate_custom",
                    &format!("{kind}; CheaterDetection::{mname}"),
                    &w,
                    &c,
                    notes,
                )?;
            }
        }
    }
    Ok(())
}

// ------------------------------------------------------------------------------------------------
// Taproot: round2::sign_with_tweak, aggregate_with_tweak

type T = tr::Secp256K1Sha256TR;

pub fn scenario_wrappers_taproot_tweak(rng: &mut TestRng, p: &Params, notes: &mut Notes) -> Verdict {
    let keys = keygen::<T>(rng, p, false)?;
    let signers = signer_ids::<T>(&keys, p);
    notes.insert("signers_hex".into(), json!(ids_hex::<T>(&signers)));
    let root: Option<Vec<u8>> = match rng.below(4) {
        0 => None,
        1 => {
            let len = [0usize, 1, 31, 33, 64, 100][rng.below(6)];
            Some(rng.bytes(len))
        }
        _ => Some(rng.bytes(32)),
    };
    notes.insert(
        "tweak".into(),
        match &root {
            None => json!("key-path only (no merkle root)"),
            Some(r) => json!(format!("merkle root {}", hex(r))),
        },
    );
    let root = root.as_deref();
    let (nonces, commitments) = commit_all::<T>(rng, &keys.key_packages, &signers)?;
    let package = SigningPackage::<T>::new(commitments.clone(), &p.message);
    const SIGN_TARGET: &str = "frost_core::round2::sign for the key package tweaked with keys::Tweak::tweak(merkle_root) (the wrapper's documentation: same as sign(), but using a Taproot tweak as specified in BIP-341)";
    const AGG_TARGET: &str = "frost_core::aggregate for the public key package tweaked with keys::Tweak::tweak(merkle_root) (the wrapper's documentation: same as aggregate(), but using a Taproot tweak as specified in BIP-341)";

    let few: BTreeMap<_, _> = commitments.iter().take(p.t as usize - 1).map(|(k, v)| (*k, *v)).collect();
    let few_pkg = SigningPackage::<T>::new(few, &p.message);
    let mut shares: ShareMap<T> = BTreeMap::new();
    for id in &signers {
        let (kp, nn) = match (keys.key_packages.get(id), nonces.get(id)) {
            (Some(k), Some(n)) => (k, n),
            _ => return skip("internal"),
        };
        let tweaked = kp.clone().tweak(root);
        let w = tr::round2::sign_with_tweak(&package, nn, kp, root);
        let c = fc::round2::sign::<T>(&package, nn, &tweaked);
        same_as::<T, _>("round2::sign_with_tweak", SIGN_TARGET, "honest signing package, own nonces, own key package", &w, &c, notes)?;
        shares.insert(*id, need(c, "round2::sign with the tweaked key package")?);
        let w = tr::round2::sign_with_tweak(&few_pkg, nn, kp, root);
        let c = fc::round2::sign::<T>(&few_pkg, nn, &tweaked);
        same_as::<T, _>("round2::sign_with_tweak", SIGN_TARGET, "signing package with fewer than min_signers entries", &w, &c, notes)?;
    }
    let me = pick::<T>(rng, &signers)?;
    let mut one_bad = shares.clone();
    if let Some(s) = one_bad.get_mut(&me) {
        *s = bump::<T>(s)?;
    }
    let mut missing = shares.clone();
    missing.remove(&me);
    let tweaked_pkp = keys.pubkeys.clone().tweak(root);
    for (kind, sh) in [("honest shares", &shares), ("one share altered", &one_bad), ("one share missing", &missing)] {
        let w = tr::aggregate_with_tweak(&package, sh, &keys.pubkeys, root);
        let c = fc::aggregate::<T>(&package, sh, &tweaked_pkp);
        same_as::<T, _>("aggregate_with_tweak", AGG_TARGET, kind, &w, &c, notes)?;
    }
    Ok(())
}
