//! Deterministic, seedable random source used both for the generators of the search and as the
//! `CryptoRng` handed to the library under test.  xoshiro256** seeded through splitmix64.
//! It is NOT cryptographically secure and does not need to be: the point is reproducibility
//! from a single u64.

use core::convert::Infallible;
use rand_core::{TryCryptoRng, TryRng};

#[derive(Clone, Debug)]
pub struct TestRng {
    s: [u64; 4],
    /// number of bytes handed out through the rand_core interface (used by the C15 oracle)
    pub bytes_drawn: u64,
    /// number of separate fill_bytes calls and their sizes (C15)
    pub fills: Vec<usize>,
}

pub fn splitmix64(x: &mut u64) -> u64 {
    *x = x.wrapping_add(0x9E37_79B9_7F4A_7C15);
    let mut z = *x;
    z = (z ^ (z >> 30)).wrapping_mul(0xBF58_476D_1CE4_E5B9);
    z = (z ^ (z >> 27)).wrapping_mul(0x94D0_49BB_1331_11EB);
    z ^ (z >> 31)
}

impl TestRng {
    pub fn new(seed: u64) -> Self {
        let mut x = seed;
        let s = [
            splitmix64(&mut x),
            splitmix64(&mut x),
            splitmix64(&mut x),
            splitmix64(&mut x),
        ];
        TestRng {
            s,
            bytes_drawn: 0,
            fills: Vec::new(),
        }
    }

    fn raw(&mut self) -> u64 {
        let r = self.s[1].wrapping_mul(5).rotate_left(7).wrapping_mul(9);
        let t = self.s[1] << 17;
        self.s[2] ^= self.s[0];
        self.s[3] ^= self.s[1];
        self.s[1] ^= self.s[2];
        self.s[0] ^= self.s[3];
        self.s[2] ^= t;
        self.s[3] = self.s[3].rotate_left(45);
        r
    }

    /// An independent child stream (so that generator decisions and library draws can be separated).
    pub fn fork(&mut self) -> TestRng {
        TestRng::new(self.raw())
    }

    pub fn u64(&mut self) -> u64 {
        self.raw()
    }

    /// uniform in 0..n (n > 0); the tiny modulo bias is irrelevant here
    pub fn below(&mut self, n: usize) -> usize {
        if n == 0 {
            0
        } else {
            (self.raw() % n as u64) as usize
        }
    }

    /// uniform in lo..=hi
    pub fn range(&mut self, lo: usize, hi: usize) -> usize {
        lo + self.below(hi - lo + 1)
    }

    /// true with probability pct/100
    pub fn chance(&mut self, pct: usize) -> bool {
        self.below(100) < pct
    }

    pub fn bytes(&mut self, len: usize) -> Vec<u8> {
        let mut v = vec![0u8; len];
        self.fill_raw(&mut v);
        v
    }

    fn fill_raw(&mut self, dst: &mut [u8]) {
        for chunk in dst.chunks_mut(8) {
            let r = self.raw().to_le_bytes();
            chunk.copy_from_slice(&r[..chunk.len()]);
        }
    }

    pub fn shuffle<T>(&mut self, v: &mut [T]) {
        for i in (1..v.len()).rev() {
            let j = self.below(i + 1);
            v.swap(i, j);
        }
    }

    /// random subset of 0..n with exactly k elements, ascending
    pub fn subset(&mut self, n: usize, k: usize) -> Vec<usize> {
        let mut idx: Vec<usize> = (0..n).collect();
        self.shuffle(&mut idx);
        idx.truncate(k.min(n));
        idx.sort_unstable();
        idx
    }
}

impl TryRng for TestRng {
    type Error = Infallible;
    fn try_next_u32(&mut self) -> Result<u32, Infallible> {
        self.bytes_drawn += 4;
        self.fills.push(4);
        Ok(self.raw() as u32)
    }
    fn try_next_u64(&mut self) -> Result<u64, Infallible> {
        self.bytes_drawn += 8;
        self.fills.push(8);
        Ok(self.raw())
    }
    fn try_fill_bytes(&mut self, dst: &mut [u8]) -> Result<(), Infallible> {
        self.bytes_drawn += dst.len() as u64;
        self.fills.push(dst.len());
        self.fill_raw(dst);
        Ok(())
    }
}

impl TryCryptoRng for TestRng {}

/// A random source that replays a fixed byte string (then zeros); used to show that outputs are
/// functions of the bytes drawn.
#[derive(Clone, Debug)]
pub struct FixedRng {
    pub data: Vec<u8>,
    pub pos: usize,
}

impl FixedRng {
    pub fn new(data: Vec<u8>) -> Self {
        FixedRng { data, pos: 0 }
    }
}

impl TryRng for FixedRng {
    type Error = Infallible;
    fn try_next_u32(&mut self) -> Result<u32, Infallible> {
        let mut b = [0u8; 4];
        self.try_fill_bytes(&mut b)?;
        Ok(u32::from_le_bytes(b))
    }
    fn try_next_u64(&mut self) -> Result<u64, Infallible> {
        let mut b = [0u8; 8];
        self.try_fill_bytes(&mut b)?;
        Ok(u64::from_le_bytes(b))
    }
    fn try_fill_bytes(&mut self, dst: &mut [u8]) -> Result<(), Infallible> {
        for d in dst.iter_mut() {
            *d = self.data.get(self.pos).copied().unwrap_or(0);
            self.pos += 1;
        }
        Ok(())
    }
}

impl TryCryptoRng for FixedRng {}

/// Marker payload of the panic raised by `ScriptRng` when a call draws without end (e.g. a "draw again until
/// different" loop fed by a constant source).  `bounded` turns it into a value.
pub struct Runaway;

/// A SCRIPTED random source: replays `data` cyclically (period = data.len()), counts the bytes handed out and
/// refuses (panic with `Runaway`) to hand out more than `limit` bytes.  Used for the "constant or repeating source"
/// part of the quantifiers of C15 / C16 / C02.
#[derive(Clone, Debug)]
pub struct ScriptRng {
    pub data: Vec<u8>,
    /// number of bytes handed out so far
    pub pos: usize,
    pub limit: usize,
}

impl ScriptRng {
    pub fn new(data: Vec<u8>) -> Self {
        let data = if data.is_empty() { vec![0] } else { data };
        ScriptRng { data, pos: 0, limit: 1 << 22 }
    }
    /// bytes `from .. from + len` of the (infinite) stream
    pub fn stream(&self, from: usize, len: usize) -> Vec<u8> {
        (from..from + len).map(|i| self.data[i % self.data.len()]).collect()
    }
}

impl TryRng for ScriptRng {
    type Error = Infallible;
    fn try_next_u32(&mut self) -> Result<u32, Infallible> {
        let mut b = [0u8; 4];
        self.try_fill_bytes(&mut b)?;
        Ok(u32::from_le_bytes(b))
    }
    fn try_next_u64(&mut self) -> Result<u64, Infallible> {
        let mut b = [0u8; 8];
        self.try_fill_bytes(&mut b)?;
        Ok(u64::from_le_bytes(b))
    }
    fn try_fill_bytes(&mut self, dst: &mut [u8]) -> Result<(), Infallible> {
        if self.pos + dst.len() > self.limit {
            std::panic::panic_any(Runaway);
        }
        let n = self.data.len();
        for d in dst.iter_mut() {
            *d = self.data[self.pos % n];
            self.pos += 1;
        }
        Ok(())
    }
}

impl TryCryptoRng for ScriptRng {}

/// Runs `f`; `Err(())` if a `ScriptRng` inside it ran away.  Any other panic is passed on.
pub fn bounded<T>(f: impl FnOnce() -> T) -> Result<T, ()> {
    match std::panic::catch_unwind(std::panic::AssertUnwindSafe(f)) {
        Ok(v) => Ok(v),
        Err(payload) if payload.is::<Runaway>() => Err(()),
        Err(payload) => std::panic::resume_unwind(payload),
    }
}

/// One period of a scripted stream: (description, bytes).  Built from up to three random 32-byte blocks A, B, C.
/// `safe`: every byte lies in 0x01..=0x7f, so that any window of the stream is a non-zero value below every group
/// order in either byte order (sources for functions that sample scalars by rejection: no draw is ever rejected).
pub fn scripted_period(rng: &mut TestRng, safe: bool) -> (String, Vec<u8>) {
    let fix = |v: Vec<u8>| -> Vec<u8> {
        if safe {
            v.into_iter().map(|b| (b % 127) + 1).collect()
        } else {
            v
        }
    };
    let blocks: Vec<Vec<u8>> = (0..3).map(|_| rng.bytes(32)).collect();
    let from_pattern = |pat: &str| -> Vec<u8> {
        pat.bytes().flat_map(|c| blocks[(c - b'A') as usize % 3].clone()).collect()
    };
    const PATTERNS: [&str; 14] = [
        "AABC", "AAB", "ABBC", "ABCC", "AAAB", "ABAC", "ABCA", "AABB", "ABBA", "AABCBBCA", "ABCB", "AAAAB", "ABCABA", "ABACAB",
    ];
    match rng.below(10) {
        0 => {
            let b = [0x00u8, 0xff, 0x01, 0x80, 0x7f, rng.below(256) as u8][rng.below(6)];
            let b = fix(vec![b])[0];
            (format!("constant byte 0x{b:02x}"), vec![b])
        }
        1 | 2 => ("one 32-byte block repeated (period 32)".into(), fix(from_pattern("A"))),
        3 | 4 => ("two 32-byte blocks repeated (period 64)".into(), fix(from_pattern("AB"))),
        5 => {
            // periods that are not a multiple of the block size
            let len = [1usize, 16, 31, 33, 48, 63, 65, 96][rng.below(8)];
            (format!("{len} random bytes repeated (period {len})"), fix(rng.bytes(len)))
        }
        _ => {
            let pat = PATTERNS[rng.below(PATTERNS.len())];
            (format!("32-byte blocks {pat} repeated"), fix(from_pattern(pat)))
        }
    }
}
