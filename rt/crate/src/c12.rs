//! C12: encodings.  Round trips of every transmittable/storable type (binary and JSON); canonicity of
//! the fixed-size encodings (a byte string is accepted only if re-encoding reproduces it); rejection
//! of the identity element, zero identifier / zero signing key, out-of-range scalars, points outside
//! the prime-order group, wrong lengths, wrong format versions and other ciphersuites' identifiers.
//!
//! `scenario_codec_sweep_primitives` is the byte sweep that found the SEC1 compact-tag (0x05)
//! acceptance in p256/secp256k1/secp256k1-tr and the non-canonical Ed448 scalars
//! (/verif/findings/F2_F3_codec_canonicity_sweep.rs), extended by single-bit flips, special
//! encodings and the composite fixed-size types.

use std::collections::BTreeMap;

use frost_core as fc;
use frost_core::keys::dkg;
use frost_core::keys::repairable::{Delta, Sigma};
use frost_core::keys::{self, KeyPackage, PublicKeyPackage, SecretShare, VerifiableSecretSharingCommitment};
use frost_core::serde::de::DeserializeOwned;
use frost_core::serde::Serialize;
use frost_core::{Ciphersuite, Field, Group};
use serde_json::{json, Value};

use crate::common::*;
use crate::rng::TestRng;
use crate::{scn, Scenario};

pub fn scenarios() -> Vec<Scenario> {
    vec![
        scn!(scenario_codec_sweep_primitives, 3),
        scn!(scenario_codec_sweep_composites, 3),
        scn!(scenario_special_encodings_rejected, 2),
        scn!(scenario_round_trips, 2),
        scn!(scenario_header_version_and_ciphersuite, 2),
        scn!(scenario_boundary_values_round_trip, 2),
    ]
}

/// Finding probes (see README "Finding probes"): run once per run, report, never fail.
pub fn probes() -> Vec<Scenario> {
    let mut s = scn!(probe_taproot_signature_odd_y);
    for slot in s.runs.iter_mut().take(5) {
        *slot = None;
    }
    vec![s]
}

/// KNOWN literal deviation from the text of C12 (value round trip of every transmittable type), Taproot suite
/// only: `aggregate` may return a signature whose R has odd Y; the 64-byte BIP-340 encoding is x-only, so decoding
/// it gives the even-Y point: `Signature::deserialize(sig.serialize()) != sig` although the encoding round trip
/// holds and both values verify.  The scenarios' oracle is restricted accordingly (README, "Oracle restrictions").
pub fn probe_taproot_signature_odd_y<C: Suite>(rng: &mut TestRng, _p: &Params, notes: &mut Notes) -> Verdict {
    const TRIES: usize = 64;
    let (shares, pubkeys) = need(
        keys::generate_with_dealer::<C, _>(3, 2, keys::IdentifierList::Default, &mut *rng),
        "generate_with_dealer(3, 2)",
    )?;
    let mut kps = BTreeMap::new();
    for (id, s) in &shares {
        kps.insert(*id, need(KeyPackage::<C>::try_from(s.clone()), "KeyPackage::try_from")?);
    }
    let signers: Vec<Id<C>> = kps.keys().take(2).copied().collect();
    for attempt in 0..TRIES {
        let message = format!("finding probe: taproot-signature-odd-y, attempt {attempt}");
        let sess = need(run_session::<C>(rng, &kps, &signers, message.as_bytes(), false), "signing session")?;
        let sig = need(fc::aggregate::<C>(&sess.package, &sess.shares, &pubkeys), "aggregate")?;
        let r_before = elem_bytes::<C>(sig.R());
        if r_before.first() != Some(&0x03) {
            continue;
        }
        notes.insert("odd_y_group_commitment_at_attempt".into(), json!(attempt));
        let bytes = need(sig.serialize(), "Signature::serialize")?;
        let back = need(fc::Signature::<C>::deserialize(&bytes), "Signature::deserialize of its own encoding")?;
        if back == sig {
            return Ok(());
        }
        return finding(
            "taproot-signature-odd-y-not-value-roundtrip",
            format!(
                "aggregate returned a signature whose R has odd Y (attempt {attempt}); Signature::deserialize(sig.serialize()) != sig: \
                 R before {} / after {} (the 64-byte encoding is x-only; re-encoding gives the same {} bytes: {})",
                hex(&r_before),
                hex(&elem_bytes::<C>(back.R())),
                bytes.len(),
                back.serialize().map(|b| b == bytes).unwrap_or(false)
            ),
        );
    }
    notes.insert("odd_y_group_commitment_at_attempt".into(), json!(null));
    Ok(())
}

// ------------------------------------------------------------------------------------------------
// the sweep machinery

pub enum Decoded {
    Rejected,
    /// accepted; the re-encoding of the decoded value
    Accepted(Vec<u8>),
    /// accepted, and the decoded value violates the property in another way
    Bad(String),
}

type Codec<'a> = Box<dyn Fn(&[u8]) -> Decoded + 'a>;

fn element_codec<C: Suite>() -> Codec<'static> {
    Box::new(|b: &[u8]| {
        let ser = match <<Gr<C> as Group>::Serialization as TryFrom<&[u8]>>::try_from(b) {
            Ok(s) => s,
            Err(_) => return Decoded::Rejected,
        };
        match <Gr<C> as Group>::deserialize(&ser) {
            Err(_) => Decoded::Rejected,
            Ok(e) => {
                if e == <Gr<C> as Group>::identity() {
                    return Decoded::Bad("decodes to the identity element".into());
                }
                // order * e == identity  <=>  e * (order - 1) + e == identity ; (order - 1) is the scalar -1
                let minus_one = zero::<C>() - one::<C>();
                if e * minus_one + e != <Gr<C> as Group>::identity() {
                    return Decoded::Bad("decodes to a point outside the prime-order group".into());
                }
                match <Gr<C> as Group>::serialize(&e) {
                    Ok(s) => Decoded::Accepted(s.as_ref().to_vec()),
                    Err(_) => Decoded::Bad("decodes to an element that cannot be serialized".into()),
                }
            }
        }
    })
}

fn scalar_codec<C: Suite>() -> Codec<'static> {
    Box::new(|b: &[u8]| {
        let ser = match <<Fd<C> as Field>::Serialization as TryFrom<&[u8]>>::try_from(b) {
            Ok(s) => s,
            Err(_) => return Decoded::Rejected,
        };
        match <Fd<C> as Field>::deserialize(&ser) {
            Err(_) => Decoded::Rejected,
            Ok(s) => Decoded::Accepted(<Fd<C> as Field>::serialize(&s).as_ref().to_vec()),
        }
    })
}

/// codec of a composite type from its deserialize / serialize functions
fn codec_of<'a, T: 'a, E: 'a>(
    de: impl Fn(&[u8]) -> Result<T, E> + 'a,
    ser: impl Fn(&T) -> Option<Vec<u8>> + 'a,
) -> Codec<'a> {
    Box::new(move |b: &[u8]| match de(b) {
        Err(_) => Decoded::Rejected,
        Ok(v) => match ser(&v) {
            Some(x) => Decoded::Accepted(x),
            None => Decoded::Bad("decodes to a value that cannot be serialized".into()),
        },
    })
}

/// What a composite type is made of: its encoding must be accepted by the primitive decoder(s) too.
#[derive(Clone, Copy, PartialEq)]
enum Kind {
    Scalar,
    NonZeroScalar,
    Element,
    /// element bytes followed by scalar bytes (Taproot: x-only element)
    Signature,
    Elements,
}

struct Fixed<'a> {
    name: &'static str,
    valid: Vec<u8>,
    kind: Kind,
    codec: Codec<'a>,
}

fn judge(name: &str, input: &[u8], d: Decoded, what: &str) -> Verdict {
    match d {
        Decoded::Rejected => Ok(()),
        Decoded::Accepted(re) => check(
            re == input,
            &format!("{name}: a byte string is accepted only if re-encoding the decoded value reproduces it ({what})"),
            format!("rejected, or re-encoding {}", hex(input)),
            format!("accepted {} which re-encodes to {}", hex(input), hex(&re)),
        ),
        Decoded::Bad(why) => fail(
            &format!("{name}: decoding rejects what the property excludes ({what})"),
            "rejected",
            format!("{} {why}", hex(input)),
        ),
    }
}

fn must_reject(name: &str, input: &[u8], d: Decoded, what: &str) -> Verdict {
    match d {
        Decoded::Rejected => Ok(()),
        Decoded::Accepted(re) => fail(
            &format!("{name}: {what} is rejected"),
            "Err(..)",
            format!("accepted {} (re-encodes to {})", hex(input), hex(&re)),
        ),
        Decoded::Bad(why) => fail(&format!("{name}: {what} is rejected"), "Err(..)", format!("accepted {}: {why}", hex(input))),
    }
}

/// The sweep of /verif/findings/F2_F3_codec_canonicity_sweep.rs for one type and one valid encoding.
fn sweep(rng: &mut TestRng, f: &Fixed, primitive: &[(Kind, &Codec)]) -> Verdict {
    let n = f.valid.len();
    if n < 2 {
        return skip("encoding too short");
    }
    // the honest encoding itself
    match (f.codec)(&f.valid) {
        Decoded::Accepted(re) if re == f.valid => {}
        Decoded::Accepted(re) => {
            return fail(
                &format!("{}: the encoding of an honest value decodes and re-encodes to itself", f.name),
                hex(&f.valid),
                hex(&re),
            )
        }
        Decoded::Rejected => {
            return fail(
                &format!("{}: the encoding of an honest value is accepted", f.name),
                "Ok(..)",
                format!("Err for {}", hex(&f.valid)),
            )
        }
        Decoded::Bad(why) => return fail(&format!("{}: honest value", f.name), "fine", why),
    }
    let try_one = |input: &[u8], what: &str| -> Verdict {
        let d = (f.codec)(input);
        let accepted = matches!(d, Decoded::Accepted(_));
        judge(f.name, input, d, what)?;
        if accepted && input.len() == n {
            // a composite type must not be more liberal than the ciphersuite's primitive decoders
            for (k, c) in primitive {
                if *k == f.kind || (*k == Kind::Scalar && f.kind == Kind::NonZeroScalar) {
                    if let Decoded::Rejected = c(input) {
                        return fail(
                            &format!("{}: accepts only what the ciphersuite's Field/Group decoder accepts ({what})", f.name),
                            "rejected",
                            format!("accepted {}", hex(input)),
                        );
                    }
                }
            }
        }
        Ok(())
    };
    // all 256 values at the boundary positions and in the middle
    let mut positions = vec![0usize, 1, n / 2, n - 2, n - 1];
    if f.kind == Kind::Signature || f.kind == Kind::Elements {
        // also around the inner boundaries
        for q in [n / 4, n / 2 - 1, n / 2 + 1, 3 * n / 4] {
            if q < n {
                positions.push(q);
            }
        }
        let zlen = scalar_len_hint(n, f.kind);
        if zlen < n {
            positions.push(n - zlen);
            positions.push(n - zlen - 1);
        }
    }
    positions.sort_unstable();
    positions.dedup();
    for pos in positions {
        for v in 0..=255u8 {
            let mut alt = f.valid.clone();
            if let Some(b) = alt.get_mut(pos) {
                if *b == v {
                    continue;
                }
                *b = v;
            }
            try_one(&alt, &format!("byte {pos} set to 0x{v:02x}"))?;
        }
    }
    // every single-bit deviation
    for bit in 0..n * 8 {
        let mut alt = f.valid.clone();
        if let Some(b) = alt.get_mut(bit / 8) {
            *b ^= 1 << (bit % 8);
        }
        try_one(&alt, &format!("bit {bit} flipped"))?;
    }
    // random strings, all-ones / high values, zeros
    for _ in 0..60 {
        try_one(&rng.bytes(n), "random string")?;
        let mut c = vec![0xffu8; n];
        if let Some(b) = c.get_mut(0) {
            *b = rng.below(256) as u8;
        }
        try_one(&c, "0xff.. with random first byte")?;
        if let Some(b) = c.get_mut(n - 1) {
            *b = rng.below(256) as u8;
        }
        try_one(&c, "0xff.. with random first and last byte")?;
        let mut z = vec![0u8; n];
        if let Some(b) = z.get_mut(rng.below(n)) {
            *b = rng.below(256) as u8;
        }
        try_one(&z, "zeros with one random byte")?;
    }
    try_one(&vec![0u8; n], "all zeros")?;
    try_one(&vec![0xffu8; n], "all 0xff")?;
    // wrong lengths are rejected outright
    if f.kind != Kind::Elements {
        let mut longer = f.valid.clone();
        longer.push(0);
        must_reject(f.name, &longer, (f.codec)(&longer), "an encoding with one trailing zero byte (wrong length)")?;
        let mut longer2 = f.valid.clone();
        let extra = rng.range(1, 40);
        longer2.extend_from_slice(&rng.bytes(extra));
        must_reject(f.name, &longer2, (f.codec)(&longer2), "an encoding with trailing bytes (wrong length)")?;
        let mut front = vec![0u8];
        front.extend_from_slice(&f.valid);
        must_reject(f.name, &front, (f.codec)(&front), "an encoding with a leading zero byte (wrong length)")?;
        for cut in [1usize, 2, n / 2, n - 1, n] {
            let shorter = f.valid.get(..n - cut.min(n)).unwrap_or(&[]).to_vec();
            must_reject(f.name, &shorter, (f.codec)(&shorter), &format!("an encoding truncated by {cut} bytes (wrong length)"))?;
        }
    }
    Ok(())
}

fn scalar_len_hint(n: usize, kind: Kind) -> usize {
    match kind {
        // R || z with |R| = |z| or |z| + 1 (SEC1) or equal (Taproot 32+32, Ed448 57+57)
        Kind::Signature => n / 2,
        _ => n,
    }
}

// ------------------------------------------------------------------------------------------------
// honest sample values

struct Samples<C: Suite> {
    keys: Keys<C>,
    session: Session<C>,
    signature: fc::Signature<C>,
    dkg: DkgRun<C>,
}

fn samples<C: Suite>(rng: &mut TestRng, p: &Params) -> Result<Samples<C>, Stop> {
    // small group: the subject here is the codec, not the protocol
    let mut q = Params::generate_with(rng, 3, 2);
    q.ids = p.ids.iter().take(3).cloned().collect();
    if q.ids.len() < 3 {
        q.ids = gen_ids(rng, "mixed", 3);
    }
    q.id_scheme = "custom";
    q.key_source = KeySource::Dealer;
    q.signers = vec![0, 2];
    q.message = p.message.clone();
    let keys = keygen_dealer::<C>(rng, &q, false)?;
    let signers = signer_ids::<C>(&keys, &q);
    let session = run_session::<C>(rng, &keys.key_packages, &signers, &q.message, false)?;
    let signature = need(fc::aggregate::<C>(&session.package, &session.shares, &keys.pubkeys), "aggregate")?;
    let dkg = dkg_rounds::<C>(rng, &keys.ids, 3, 2, false)?;
    Ok(Samples {
        keys,
        session,
        signature,
        dkg,
    })
}

fn fixed_types<'a, C: Suite>(rng: &mut TestRng, s: &'a Samples<C>) -> Result<Vec<Fixed<'a>>, Stop> {
    let k = random_nonzero_scalar::<C>(rng);
    let kb = scalar_bytes::<C>(&k);
    let pb = elem_bytes::<C>(&base_mul::<C>(&k));
    let any_id = match s.keys.ids.get(rng.below(s.keys.ids.len())) {
        Some(i) => *i,
        None => return skip("internal"),
    };
    let kp = match s.keys.key_packages.get(&any_id) {
        Some(k) => k,
        None => return skip("internal"),
    };
    let (signer, nonces) = match s.session.nonces.iter().next() {
        Some((i, n)) => (*i, n),
        None => return skip("internal"),
    };
    let sigshare = match s.session.shares.get(&signer) {
        Some(x) => *x,
        None => return skip("internal"),
    };
    let commitment = match s.keys.secret_shares.as_ref().and_then(|m| m.get(&any_id)) {
        Some(sh) => sh.commitment().clone(),
        None => return skip("internal"),
    };
    let coeff = match commitment.serialize().ok().and_then(|v| v.into_iter().next_back()) {
        Some(c) => c,
        None => return skip("internal"),
    };
    let opt = |r: Result<Vec<u8>, FErr<C>>| r.ok();
    let mut v: Vec<Fixed<'a>> = Vec::new();
    v.push(Fixed { name: "Identifier", valid: any_id.serialize(), kind: Kind::NonZeroScalar,
        codec: codec_of(|b| Id::<C>::deserialize(b), |x| Some(x.serialize())) });
    v.push(Fixed { name: "SigningKey", valid: kb.clone(), kind: Kind::NonZeroScalar,
        codec: codec_of(|b| fc::SigningKey::<C>::deserialize(b), |x| Some(x.serialize())) });
    v.push(Fixed { name: "SigningShare", valid: kp.signing_share().serialize(), kind: Kind::Scalar,
        codec: codec_of(|b| keys::SigningShare::<C>::deserialize(b), |x| Some(x.serialize())) });
    v.push(Fixed { name: "VerifyingShare", valid: vshare_bytes::<C>(kp.verifying_share()), kind: Kind::Element,
        codec: codec_of(|b| keys::VerifyingShare::<C>::deserialize(b), move |x| opt(x.serialize())) });
    v.push(Fixed { name: "VerifyingKey", valid: vkey_bytes::<C>(kp.verifying_key()), kind: Kind::Element,
        codec: codec_of(|b| fc::VerifyingKey::<C>::deserialize(b), move |x| opt(x.serialize())) });
    v.push(Fixed { name: "CoefficientCommitment", valid: coeff, kind: Kind::Element,
        codec: codec_of(|b| keys::CoefficientCommitment::<C>::deserialize(b), move |x| opt(x.serialize())) });
    v.push(Fixed { name: "NonceCommitment", valid: nonces.commitments().hiding().serialize().unwrap_or_default(), kind: Kind::Element,
        codec: codec_of(|b| fc::round1::NonceCommitment::<C>::deserialize(b), move |x| opt(x.serialize())) });
    v.push(Fixed { name: "Nonce", valid: nonces.binding().serialize(), kind: Kind::Scalar,
        codec: codec_of(|b| fc::round1::Nonce::<C>::deserialize(b), |x| Some(x.serialize())) });
    v.push(Fixed { name: "SignatureShare", valid: sigshare.serialize(), kind: Kind::Scalar,
        codec: codec_of(|b| fc::round2::SignatureShare::<C>::deserialize(b), |x| Some(x.serialize())) });
    v.push(Fixed { name: "Signature", valid: s.signature.serialize().unwrap_or_default(), kind: Kind::Signature,
        codec: codec_of(|b| fc::Signature::<C>::deserialize(b), move |x| opt(x.serialize())) });
    v.push(Fixed { name: "repairable::Delta", valid: kb.clone(), kind: Kind::Scalar,
        codec: codec_of(|b| Delta::<C>::deserialize(b), |x| Some(x.serialize())) });
    v.push(Fixed { name: "repairable::Sigma", valid: kb.clone(), kind: Kind::Scalar,
        codec: codec_of(|b| Sigma::<C>::deserialize(b), |x| Some(x.serialize())) });
    v.push(Fixed { name: "Randomizer", valid: kb.clone(), kind: Kind::Scalar,
        codec: codec_of(|b| frost_rerandomized::Randomizer::<C>::deserialize(b), |x| Some(x.serialize())) });
    v.push(Fixed { name: "VerifiableSecretSharingCommitment (whole)", valid: commitment.serialize_whole().unwrap_or_default(), kind: Kind::Elements,
        codec: codec_of(|b| VerifiableSecretSharingCommitment::<C>::deserialize_whole(b), move |x| opt(x.serialize_whole())) });
    let _ = pb;
    Ok(v)
}

/// The F2/F3 sweep on the ciphersuite's own Field::deserialize / Group::deserialize.
pub fn scenario_codec_sweep_primitives<C: Suite>(rng: &mut TestRng, _p: &Params, notes: &mut Notes) -> Verdict {
    let k = if rng.chance(5) { one::<C>() } else { random_nonzero_scalar::<C>(rng) };
    notes.insert("scalar_hex".into(), json!(hex(&scalar_bytes::<C>(&k))));
    let e = Fixed {
        name: "Group::deserialize",
        valid: elem_bytes::<C>(&base_mul::<C>(&k)),
        kind: Kind::Element,
        codec: element_codec::<C>(),
    };
    sweep(rng, &e, &[])?;
    let s = Fixed {
        name: "Field::deserialize",
        valid: scalar_bytes::<C>(&k),
        kind: Kind::Scalar,
        codec: scalar_codec::<C>(),
    };
    sweep(rng, &s, &[])?;
    // small scalars / small multiples of the generator have sparse encodings; the edges of the scalar range
    // (order-1, 2^top, 2^top +- 1, ...) sit next to the encodings that must be refused
    let small = if rng.chance(50) {
        let (name, x) = pick_boundary::<C>(rng, false);
        notes.insert("second_scalar".into(), json!(name));
        x
    } else {
        let mut acc = zero::<C>();
        for _ in 0..rng.range(1, 40) {
            acc = acc + one::<C>();
        }
        acc
    };
    let s2 = Fixed {
        name: "Field::deserialize",
        valid: scalar_bytes::<C>(&small),
        kind: Kind::Scalar,
        codec: scalar_codec::<C>(),
    };
    sweep(rng, &s2, &[])
}

/// The same sweep through the deserialize()/serialize() of the composite fixed-size types.
pub fn scenario_codec_sweep_composites<C: Suite>(rng: &mut TestRng, p: &Params, notes: &mut Notes) -> Verdict {
    let s = samples::<C>(rng, p)?;
    let types = fixed_types::<C>(rng, &s)?;
    let ec = element_codec::<C>();
    let sc = scalar_codec::<C>();
    let prim: Vec<(Kind, &Codec)> = vec![(Kind::Element, &ec), (Kind::Scalar, &sc)];
    // three types per case keep a case short
    let start = rng.below(types.len());
    let mut swept = Vec::new();
    for j in 0..3 {
        if let Some(f) = types.get((start + j * 5) % types.len()) {
            swept.push(f.name);
            sweep(rng, f, &prim)?;
        }
    }
    notes.insert("types".into(), json!(swept));
    Ok(())
}

// ------------------------------------------------------------------------------------------------
// explicit rejection cases

fn little_endian<C: Suite>() -> bool {
    scalar_bytes::<C>(&one::<C>()).first() == Some(&1)
}

/// a + b on byte strings of equal width in the suite's endianness; None on overflow
fn add_bytes(a: &[u8], b: &[u8], le: bool) -> Option<Vec<u8>> {
    let n = a.len();
    let mut out = vec![0u8; n];
    let mut carry = 0u16;
    for k in 0..n {
        let i = if le { k } else { n - 1 - k };
        let s = *a.get(i)? as u16 + *b.get(i)? as u16 + carry;
        *out.get_mut(i)? = (s & 0xff) as u8;
        carry = s >> 8;
    }
    if carry != 0 {
        None
    } else {
        Some(out)
    }
}

fn small_int_bytes(x: u64, n: usize, le: bool) -> Vec<u8> {
    let mut v = vec![0u8; n];
    for (k, b) in x.to_le_bytes().iter().enumerate() {
        let i = if le { k } else { n - 1 - k };
        if let Some(slot) = v.get_mut(i) {
            *slot = *b;
        }
    }
    v
}

/// The group order as an (unreduced) byte string: encoding(-1) + 1.
fn order_bytes<C: Suite>() -> Option<Vec<u8>> {
    let le = little_endian::<C>();
    let m1 = scalar_bytes::<C>(&(zero::<C>() - one::<C>()));
    add_bytes(&m1, &small_int_bytes(1, m1.len(), le), le)
}

/// Encodings of special curve points, by suite: (description, bytes).
fn special_points(suite: &str, valid: &[u8]) -> Vec<(String, Vec<u8>)> {
    let mut out: Vec<(String, Vec<u8>)> = Vec::new();
    match suite {
        "ed25519" => {
            use curve25519_dalek::constants::EIGHT_TORSION;
            use curve25519_dalek::edwards::CompressedEdwardsY;
            let p = <[u8; 32]>::try_from(valid).ok().and_then(|b| CompressedEdwardsY(b).decompress());
            for (i, t) in EIGHT_TORSION.iter().enumerate() {
                let name = if i == 0 { "the identity".to_string() } else { format!("the small-order point T{i}") };
                out.push((name, t.compress().0.to_vec()));
                if let (Some(p), true) = (p, i > 0) {
                    out.push((format!("a mixed-order point P + T{i}"), (p + t).compress().0.to_vec()));
                }
            }
            // non-canonical encodings of the identity and of small-order points
            let mut id_neg = [0u8; 32];
            id_neg[0] = 1;
            id_neg[31] = 0x80;
            out.push(("the identity with the sign bit set".into(), id_neg.to_vec()));
            let mut y_p1 = [0xffu8; 32]; // y = p + 1 = 2^255 - 18  -> bytes ee ff .. ff 7f
            y_p1[0] = 0xee;
            y_p1[31] = 0x7f;
            out.push(("the identity encoded with y = p + 1 (non-reduced)".into(), y_p1.to_vec()));
        }
        "ristretto255" => {
            out.push(("the identity".into(), vec![0u8; 32]));
            // negative / non-canonical field elements
            let mut neg = valid.to_vec();
            if let Some(b) = neg.get_mut(0) {
                *b |= 1;
            }
            out.push(("an encoding with a negative (odd) field element".into(), neg));
            let mut big = vec![0xffu8; 32];
            big[31] = 0x7f;
            out.push(("a non-reduced field element".into(), big));
        }
        "ed448" => {
            use ed448_goldilocks::CompressedEdwardsY;
            let mut ident = vec![0u8; 57];
            ident[0] = 1;
            out.push(("the identity".into(), ident.clone()));
            let mut ident_neg = ident.clone();
            ident_neg[56] = 0x80;
            out.push(("the identity with the sign bit set".into(), ident_neg));
            // order 2: (0, -1): y = p - 1 = 2^448 - 2^224 - 2
            let mut t2 = vec![0xffu8; 57];
            t2[0] = 0xfe;
            t2[28] = 0xfe;
            t2[56] = 0;
            out.push(("the order-2 point (0,-1)".into(), t2.clone()));
            // order 4: (+-1, 0): y = 0
            out.push(("an order-4 point (x,0)".into(), vec![0u8; 57]));
            let mut t4 = vec![0u8; 57];
            t4[56] = 0x80;
            out.push(("the other order-4 point (x,0)".into(), t4.clone()));
            // mixed order: P + T for the torsion points above
            let dec = |b: &[u8]| -> Option<ed448_goldilocks::EdwardsPoint> {
                let arr: [u8; 57] = b.try_into().ok()?;
                Option::<ed448_goldilocks::AffinePoint>::from(CompressedEdwardsY(arr).decompress_unchecked()).map(|a| a.to_edwards())
            };
            if let Some(p) = dec(valid) {
                for (nm, tb) in [("T2", &t2), ("T4", &vec![0u8; 57]), ("T4'", &t4)] {
                    if let Some(t) = dec(tb) {
                        out.push((format!("a mixed-order point P + {nm}"), (p + t).to_affine().compress().0.to_vec()));
                    }
                }
            }
            // y >= p (non-reduced)
            let mut big = vec![0xffu8; 57];
            big[56] = 0;
            out.push(("a non-reduced y coordinate".into(), big));
        }
        _ => {
            // SEC1 curves: 33-byte compressed points, tag 02/03
            out.push(("33 zero bytes (SEC1 identity padded)".into(), vec![0u8; 33]));
            for tag in [0x00u8, 0x01, 0x04, 0x05, 0x06, 0x07, 0x82, 0x83, 0xff] {
                let mut v = valid.to_vec();
                if let Some(b) = v.get_mut(0) {
                    *b = tag;
                }
                out.push((format!("a valid x coordinate under SEC1 tag 0x{tag:02x}"), v));
            }
            // x >= p
            let mut big = vec![0xffu8; 33];
            big[0] = 0x02;
            out.push(("x = 2^256 - 1 (not a field element)".into(), big));
            // uncompressed / hybrid lengths are wrong lengths
            let mut unc = vec![0x04u8];
            unc.extend_from_slice(valid.get(1..).unwrap_or(&[]));
            unc.extend_from_slice(&[0u8; 32]);
            out.push(("a 65-byte uncompressed-style string".into(), unc));
            out.push(("the 1-byte SEC1 identity".into(), vec![0u8]));
        }
    }
    out
}

pub fn scenario_special_encodings_rejected<C: Suite>(rng: &mut TestRng, p: &Params, notes: &mut Notes) -> Verdict {
    let s = samples::<C>(rng, p)?;
    let types = fixed_types::<C>(rng, &s)?;
    let ec = element_codec::<C>();
    let sc = scalar_codec::<C>();
    let le = little_endian::<C>();
    let k = random_nonzero_scalar::<C>(rng);
    let valid_point = elem_bytes::<C>(&base_mul::<C>(&k));

    // --- special points: rejected by the group decoder and by every single-element type
    let points = special_points(C::NAME, &valid_point);
    notes.insert("special_points".into(), json!(points.len()));
    for (what, bytes) in &points {
        must_reject("Group::deserialize", bytes, ec(bytes), what)?;
        for f in types.iter().filter(|f| f.kind == Kind::Element) {
            must_reject(f.name, bytes, (f.codec)(bytes), what)?;
        }
        // as the R part of a signature
        if let Some(f) = types.iter().find(|f| f.kind == Kind::Signature) {
            let n = f.valid.len();
            let rlen = bytes.len();
            let r_in_sig = if C::IS_TAPROOT { 32 } else { n - scalar_bytes::<C>(&k).len() };
            let rb: &[u8] = if C::IS_TAPROOT { bytes.get(1..).unwrap_or(&[]) } else { bytes };
            if rb.len() == r_in_sig && rlen >= r_in_sig {
                let mut sig = rb.to_vec();
                sig.extend_from_slice(f.valid.get(r_in_sig..).unwrap_or(&[]));
                // (x-only Taproot encodings carry no tag, so a tag variant of a valid x is the valid point itself)
                if !(C::IS_TAPROOT && rb == valid_point.get(1..).unwrap_or(&[])) {
                    judge(f.name, &sig, (f.codec)(&sig), &format!("R = {what}"))?;
                    if !C::IS_TAPROOT {
                        must_reject(f.name, &sig, (f.codec)(&sig), &format!("a signature whose R is {what}"))?;
                    }
                }
            }
        }
    }

    // --- out-of-range scalars
    let order = match order_bytes::<C>() {
        Some(o) => o,
        None => return skip("cannot compute the group order"),
    };
    let n = order.len();
    let mut bad_scalars: Vec<(String, Vec<u8>)> = vec![
        ("the group order itself".into(), order.clone()),
        ("all 0xff".into(), vec![0xffu8; n]),
    ];
    // s + k * order for small s, as long as it fits the width
    let mut kq = order.clone();
    for mult in 1..=16u32 {
        for small in [0u64, 1, 2, rng.u64() >> 1, rng.u64() >> 33] {
            if let Some(v) = add_bytes(&kq, &small_int_bytes(small, n, le), le) {
                bad_scalars.push((format!("{small} + {mult} * order"), v));
            }
        }
        // a genuine random scalar shifted by a multiple of the order
        if let Some(v) = add_bytes(&kq, &scalar_bytes::<C>(&k), le) {
            bad_scalars.push((format!("a random scalar + {mult} * order"), v));
        }
        match add_bytes(&kq, &order, le) {
            Some(next) => kq = next,
            None => break,
        }
    }
    // high bits set above the order's bit length
    for bit in 0..8 {
        let mut v = scalar_bytes::<C>(&k);
        let top = if le { n - 1 } else { 0 };
        if let Some(b) = v.get_mut(top) {
            if *b & (1 << bit) == 0 {
                *b |= 1 << bit;
                // only out of range if >= order: compare as big integers
                if ge_bytes(&v, &order, le) {
                    bad_scalars.push((format!("a scalar with bit {bit} of the top byte set (>= order)"), v));
                }
            }
        }
    }
    notes.insert("out_of_range_scalars".into(), json!(bad_scalars.len()));
    for (what, bytes) in &bad_scalars {
        must_reject("Field::deserialize", bytes, sc(bytes), &format!("the out-of-range scalar `{what}`"))?;
        for f in types.iter().filter(|f| f.kind == Kind::Scalar || f.kind == Kind::NonZeroScalar) {
            must_reject(f.name, bytes, (f.codec)(bytes), &format!("the out-of-range scalar `{what}`"))?;
        }
        if let Some(f) = types.iter().find(|f| f.kind == Kind::Signature) {
            let mut sig = f.valid.get(..f.valid.len() - n).unwrap_or(&[]).to_vec();
            sig.extend_from_slice(bytes);
            must_reject(f.name, &sig, (f.codec)(&sig), &format!("a signature whose z is the out-of-range scalar `{what}`"))?;
        }
    }

    // --- zero identifier, zero signing key
    let z = vec![0u8; n];
    must_reject("Identifier", &z, codec_of(|b| Id::<C>::deserialize(b), |x| Some(x.serialize()))(&z), "the zero identifier")?;
    must_reject("SigningKey", &z, codec_of(|b| fc::SigningKey::<C>::deserialize(b), |x| Some(x.serialize()))(&z), "the zero signing key")?;
    check(
        Id::<C>::try_from(0u16).is_err(),
        "Identifier::try_from(0) is refused",
        "Err(..)",
        "Ok(..)",
    )?;
    check(
        fc::SigningKey::<C>::from_scalar(zero::<C>()).is_err(),
        "SigningKey::from_scalar(0) is refused",
        "Err(..)",
        "Ok(..)",
    )?;
    // a zero identifier inside packages (JSON and binary)
    let kp = match s.keys.key_packages.values().next() {
        Some(k) => k,
        None => return skip("internal"),
    };
    let mut j = need(serde_json::to_value(kp), "json")?;
    if let Some(slot) = j.get_mut("identifier") {
        *slot = json!(hex(&z));
    }
    must_refuse(serde_json::from_value::<KeyPackage<C>>(j), "a JSON KeyPackage whose identifier is zero")?;
    let bin = need(kp.serialize(), "KeyPackage::serialize")?;
    let idb = kp.identifier().serialize();
    if let Some(pos) = find_sub(&bin, &idb) {
        let mut alt = bin.clone();
        for b in alt.iter_mut().skip(pos).take(idb.len()) {
            *b = 0;
        }
        must_refuse(KeyPackage::<C>::deserialize(&alt), "a binary KeyPackage whose identifier is zero")?;
    }
    Ok(())
}

fn ge_bytes(a: &[u8], b: &[u8], le: bool) -> bool {
    let n = a.len();
    for k in 0..n {
        let i = if le { n - 1 - k } else { k };
        match (a.get(i), b.get(i)) {
            (Some(x), Some(y)) if x != y => return x > y,
            _ => {}
        }
    }
    true
}

fn find_sub(hay: &[u8], needle: &[u8]) -> Option<usize> {
    if needle.is_empty() || hay.len() < needle.len() {
        return None;
    }
    (0..=hay.len() - needle.len()).find(|i| hay.get(*i..*i + needle.len()) == Some(needle))
}

// ------------------------------------------------------------------------------------------------
// round trips

fn round_trip<T, C: Suite>(
    name: &str,
    v: &T,
    ser: impl Fn(&T) -> Result<Vec<u8>, FErr<C>>,
    de: impl Fn(&[u8]) -> Result<T, FErr<C>>,
    compare_values: bool,
) -> Verdict
where
    T: Serialize + DeserializeOwned + PartialEq + std::fmt::Debug,
{
    // binary
    let bytes = must(ser(v), &format!("{name}::serialize"))?;
    let back = must(de(&bytes), &format!("{name}::deserialize of its own serialization"))?;
    if compare_values {
        check(back == *v, &format!("{name}: binary decoding of an encoding returns an equal value"), short_dbg(v), short_dbg(&back))?;
    }
    let again = must(ser(&back), &format!("{name}::serialize of the decoded value"))?;
    check(again == bytes, &format!("{name}: re-encoding the decoded value reproduces the encoding"), hex(&bytes), hex(&again))?;
    // JSON
    let text = must(serde_json::to_string(v), &format!("{name}: serde_json::to_string"))?;
    let back: T = must(serde_json::from_str(&text), &format!("{name}: serde_json::from_str of its own JSON"))?;
    if compare_values {
        check(back == *v, &format!("{name}: JSON decoding of an encoding returns an equal value"), short_dbg(v), short_dbg(&back))?;
    }
    let again = must(serde_json::to_string(&back), &format!("{name}: serde_json::to_string of the decoded value"))?;
    check(again == text, &format!("{name}: re-encoding the JSON-decoded value reproduces the JSON"), text, again)
}

pub fn scenario_round_trips<C: Suite>(rng: &mut TestRng, p: &Params, notes: &mut Notes) -> Verdict {
    let s = samples::<C>(rng, p)?;
    let _ = notes;
    for kp in s.keys.key_packages.values() {
        round_trip::<_, C>("KeyPackage", kp, |x| x.serialize(), |b| KeyPackage::<C>::deserialize(b), true)?;
    }
    round_trip::<_, C>("PublicKeyPackage", &s.keys.pubkeys, |x| x.serialize(), |b| PublicKeyPackage::<C>::deserialize(b), true)?;
    let legacy = PublicKeyPackage::<C>::new(s.keys.pubkeys.verifying_shares().clone(), *s.keys.pubkeys.verifying_key(), None);
    round_trip::<_, C>("PublicKeyPackage (pre-3.0.0 form without min_signers)", &legacy, |x| x.serialize(), |b| PublicKeyPackage::<C>::deserialize(b), true)?;
    if let Some(shares) = &s.keys.secret_shares {
        for sh in shares.values() {
            round_trip::<_, C>("SecretShare", sh, |x| x.serialize(), |b| SecretShare::<C>::deserialize(b), true)?;
        }
    }
    round_trip::<_, C>("SigningPackage", &s.session.package, |x| x.serialize(), |b| fc::SigningPackage::<C>::deserialize(b), true)?;
    let empty_msg = fc::SigningPackage::<C>::new(s.session.commitments.clone(), b"");
    round_trip::<_, C>("SigningPackage (empty message)", &empty_msg, |x| x.serialize(), |b| fc::SigningPackage::<C>::deserialize(b), true)?;
    for n in s.session.nonces.values() {
        round_trip::<_, C>("SigningNonces", n, |x| x.serialize(), |b| fc::round1::SigningNonces::<C>::deserialize(b), true)?;
    }
    for c in s.session.commitments.values() {
        round_trip::<_, C>("SigningCommitments", c, |x| x.serialize(), |b| fc::round1::SigningCommitments::<C>::deserialize(b), true)?;
    }
    for sh in s.session.shares.values() {
        round_trip::<_, C>("SignatureShare", sh, |x| Ok(x.serialize()), |b| fc::round2::SignatureShare::<C>::deserialize(b), true)?;
    }
    // Taproot: aggregate() may return R with odd Y while the 64-byte encoding is x-only, so the decoded
    // VALUE differs in the sign of R (both verify); only the encoding round trip is required there.
    round_trip::<_, C>("Signature", &s.signature, |x| x.serialize(), |b| fc::Signature::<C>::deserialize(b), !C::IS_TAPROOT)?;
    for pk in s.dkg.r1_pkg.values() {
        round_trip::<_, C>("dkg::round1::Package", pk, |x| x.serialize(), |b| dkg::round1::Package::<C>::deserialize(b), true)?;
    }
    for sp in s.dkg.r1_secret.values() {
        round_trip::<_, C>("dkg::round1::SecretPackage", sp, |x| x.serialize(), |b| dkg::round1::SecretPackage::<C>::deserialize(b), true)?;
    }
    for sp in s.dkg.r2_secret.values() {
        round_trip::<_, C>("dkg::round2::SecretPackage", sp, |x| x.serialize(), |b| dkg::round2::SecretPackage::<C>::deserialize(b), true)?;
    }
    for out in s.dkg.r2_out.values() {
        for pk in out.values() {
            round_trip::<_, C>("dkg::round2::Package", pk, |x| x.serialize(), |b| dkg::round2::Package::<C>::deserialize(b), true)?;
        }
    }
    // the fixed-size types: value equality through deserialize(serialize(x))
    let types = fixed_types::<C>(rng, &s)?;
    for f in &types {
        match (f.codec)(&f.valid) {
            Decoded::Accepted(re) if re == f.valid => {}
            _ => {
                return fail(
                    &format!("{}: decoding the encoding of an honest value and re-encoding reproduces it", f.name),
                    hex(&f.valid),
                    "rejected or different",
                )
            }
        }
    }
    for id in &s.keys.ids {
        let b = id.serialize();
        let back = must(Id::<C>::deserialize(&b), "Identifier::deserialize")?;
        check(back == *id, "Identifier: decoding an encoding returns an equal value", id_hex::<C>(id), id_hex::<C>(&back))?;
        let j = must(serde_json::to_string(id), "Identifier json")?;
        let back: Id<C> = must(serde_json::from_str(&j), "Identifier from json")?;
        check(back == *id, "Identifier: JSON decoding returns an equal value", id_hex::<C>(id), id_hex::<C>(&back))?;
    }
    // VSS commitment: list form and whole form
    if let Some(sh) = s.keys.secret_shares.as_ref().and_then(|m| m.values().next()) {
        let c = sh.commitment();
        let list = must(c.serialize(), "VerifiableSecretSharingCommitment::serialize")?;
        let back = must(VerifiableSecretSharingCommitment::<C>::deserialize(list), "VerifiableSecretSharingCommitment::deserialize")?;
        check(&back == c, "VerifiableSecretSharingCommitment: list form round trip", short_dbg(c), short_dbg(&back))?;
        let whole = must(c.serialize_whole(), "serialize_whole")?;
        let back = must(VerifiableSecretSharingCommitment::<C>::deserialize_whole(&whole), "deserialize_whole")?;
        check(&back == c, "VerifiableSecretSharingCommitment: whole form round trip", short_dbg(c), short_dbg(&back))?;
        // a whole form whose length is not a multiple of the element size is refused
        let mut odd = whole.clone();
        odd.push(2);
        must_refuse(VerifiableSecretSharingCommitment::<C>::deserialize_whole(&odd), "deserialize_whole of a string whose length is not a multiple of the element size")?;
    }
    Ok(())
}

// ------------------------------------------------------------------------------------------------
// format version / ciphersuite identifier

/// The header-carrying types, as (name, binary encoding, binary decoder, JSON value, JSON decoder).
#[allow(clippy::type_complexity)]
fn header_types<'a, C: Suite>(
    s: &'a Samples<C>,
) -> Result<Vec<(&'static str, Vec<u8>, Box<dyn Fn(&[u8]) -> bool + 'a>, Value, Box<dyn Fn(Value) -> bool + 'a>)>, Stop> {
    fn entry<'a, T, C: Suite>(
        name: &'static str,
        v: &T,
        ser: impl Fn(&T) -> Result<Vec<u8>, FErr<C>>,
        de: impl Fn(&[u8]) -> Result<T, FErr<C>> + 'a,
    ) -> Result<(&'static str, Vec<u8>, Box<dyn Fn(&[u8]) -> bool + 'a>, Value, Box<dyn Fn(Value) -> bool + 'a>), Stop>
    where
        T: Serialize + DeserializeOwned + 'a,
    {
        let bytes = need(ser(v), "serialize")?;
        let j = need(serde_json::to_value(v), "to_value")?;
        Ok((
            name,
            bytes,
            Box::new(move |b: &[u8]| de(b).is_ok()),
            j,
            Box::new(|j: Value| serde_json::from_value::<T>(j).is_ok()),
        ))
    }
    let kp = match s.keys.key_packages.values().next() {
        Some(k) => k,
        None => return skip("internal"),
    };
    let sh = match s.keys.secret_shares.as_ref().and_then(|m| m.values().next()) {
        Some(k) => k,
        None => return skip("internal"),
    };
    let (nonces, comm, sigshare) = match (
        s.session.nonces.values().next(),
        s.session.commitments.values().next(),
        s.session.shares.values().next(),
    ) {
        (Some(a), Some(b), Some(c)) => (a, b, c),
        _ => return skip("internal"),
    };
    let (r1, r2) = match (s.dkg.r1_pkg.values().next(), s.dkg.r2_out.values().next().and_then(|m| m.values().next())) {
        (Some(a), Some(b)) => (a, b),
        _ => return skip("internal"),
    };
    Ok(vec![
        entry::<_, C>("KeyPackage", kp, |x| x.serialize(), |b| KeyPackage::<C>::deserialize(b))?,
        entry::<_, C>("PublicKeyPackage", &s.keys.pubkeys, |x| x.serialize(), |b| PublicKeyPackage::<C>::deserialize(b))?,
        entry::<_, C>("SecretShare", sh, |x| x.serialize(), |b| SecretShare::<C>::deserialize(b))?,
        entry::<_, C>("SigningPackage", &s.session.package, |x| x.serialize(), |b| fc::SigningPackage::<C>::deserialize(b))?,
        entry::<_, C>("SigningNonces", nonces, |x| x.serialize(), |b| fc::round1::SigningNonces::<C>::deserialize(b))?,
        entry::<_, C>("SigningCommitments", comm, |x| x.serialize(), |b| fc::round1::SigningCommitments::<C>::deserialize(b))?,
        entry::<_, C>("dkg::round1::Package", r1, |x| x.serialize(), |b| dkg::round1::Package::<C>::deserialize(b))?,
        entry::<_, C>("dkg::round2::Package", r2, |x| x.serialize(), |b| dkg::round2::Package::<C>::deserialize(b))?,
        // serde form of SignatureShare (its serialize() is the bare scalar)
        entry::<_, C>(
            "SignatureShare (serde form)",
            sigshare,
            |x| postcard_like::<_, C>(x),
            |b| postcard_like_de::<fc::round2::SignatureShare<C>, C>(b),
        )?,
    ])
}

/// SignatureShare has no public postcard (de)serializer; its header only exists in the serde form, so
/// for the binary side we use the JSON bytes (the JSON side below does the real work).
fn postcard_like<T: Serialize, C: Suite>(x: &T) -> Result<Vec<u8>, FErr<C>> {
    serde_json::to_vec(x).map_err(|_| fc::Error::SerializationError)
}
fn postcard_like_de<T: DeserializeOwned, C: Suite>(b: &[u8]) -> Result<T, FErr<C>> {
    serde_json::from_slice(b).map_err(|_| fc::Error::DeserializationError)
}

/// every JSON object that has a "header" member, as a path
fn header_paths(v: &Value, path: &mut Vec<String>, out: &mut Vec<Vec<String>>) {
    if let Value::Object(m) = v {
        for (k, x) in m {
            path.push(k.clone());
            if k == "header" {
                out.push(path.clone());
            } else {
                header_paths(x, path, out);
            }
            path.pop();
        }
    }
}

fn at_path<'a>(v: &'a mut Value, path: &[String]) -> Option<&'a mut Value> {
    let mut cur = v;
    for k in path {
        cur = cur.get_mut(k.as_str())?;
    }
    Some(cur)
}

pub fn scenario_header_version_and_ciphersuite<C: Suite>(rng: &mut TestRng, p: &Params, notes: &mut Notes) -> Verdict {
    let s = samples::<C>(rng, p)?;
    let types = header_types::<C>(&s)?;
    let other_id = <C::Sibling as Ciphersuite>::ID;
    // the 4-byte short id of the sibling ciphersuite, read off one of its own encodings
    let sib_pkg = fc::SigningPackage::<C::Sibling>::new(BTreeMap::new(), b"");
    let sib_hdr: Vec<u8> = need(sib_pkg.serialize(), "sibling serialize")?.get(1..5).unwrap_or(&[]).to_vec();
    notes.insert("other_ciphersuite".into(), json!(other_id));
    for (name, bytes, bin_ok, j, json_ok) in &types {
        let is_json_bytes = name.starts_with("SignatureShare");
        check(bin_ok(bytes), &format!("{name}: honest binary encoding is accepted"), "Ok", "Err")?;
        check(json_ok(j.clone()), &format!("{name}: honest JSON encoding is accepted"), "Ok", "Err")?;
        // ---- binary: byte 0 is the version, bytes 1..5 the ciphersuite id
        if !is_json_bytes {
            for v in 1..=255u8 {
                let mut alt = bytes.clone();
                if let Some(b) = alt.get_mut(0) {
                    *b = v;
                }
                check(
                    !bin_ok(&alt),
                    &format!("{name}: a binary encoding with format version {v} is rejected"),
                    "Err(..)",
                    format!("accepted {}", hex(alt.get(..8.min(alt.len())).unwrap_or(&[]))),
                )?;
            }
            let mut alt = bytes.clone();
            for (k, b) in sib_hdr.iter().enumerate() {
                if let Some(slot) = alt.get_mut(1 + k) {
                    *slot = *b;
                }
            }
            check(
                !bin_ok(&alt),
                &format!("{name}: a binary encoding carrying the identifier of ciphersuite {other_id} is rejected"),
                "Err(..)",
                "accepted",
            )?;
            for pos in 1..5usize {
                let mut alt = bytes.clone();
                if let Some(b) = alt.get_mut(pos) {
                    *b ^= 1 << rng.below(8);
                }
                check(
                    !bin_ok(&alt),
                    &format!("{name}: a binary encoding with an altered ciphersuite identifier (byte {pos}) is rejected"),
                    "Err(..)",
                    "accepted",
                )?;
            }
            // nested headers (e.g. the SigningCommitments inside a SigningPackage): every later
            // occurrence of the 5 header bytes
            let hdr: Vec<u8> = bytes.get(..5).unwrap_or(&[]).to_vec();
            let mut from = 5;
            while let Some(off) = bytes.get(from..).and_then(|h| find_sub(h, &hdr)) {
                let pos = from + off;
                for v in [1u8, 2, 0x80, 0xff, rng.range(1, 255) as u8] {
                    let mut alt = bytes.clone();
                    if let Some(b) = alt.get_mut(pos) {
                        *b = v;
                    }
                    check(
                        !bin_ok(&alt),
                        &format!("{name}: a binary encoding whose nested header (offset {pos}) has format version {v} is rejected"),
                        "Err(..)",
                        "accepted",
                    )?;
                }
                from = pos + 5;
            }
        }
        // ---- JSON: every header object, top level and nested
        let mut paths = Vec::new();
        header_paths(j, &mut Vec::new(), &mut paths);
        check(!paths.is_empty(), &format!("{name}: JSON form has a header"), ">= 1 header", "none")?;
        for path in &paths {
            for v in 1..=255u32 {
                let mut alt = j.clone();
                if let Some(h) = at_path(&mut alt, path) {
                    h["version"] = json!(v);
                }
                check(
                    !json_ok(alt),
                    &format!("{name}: a JSON encoding with format version {v} at {} is rejected", path.join(".")),
                    "Err(..)",
                    "accepted",
                )?;
            }
            for other in [other_id.to_string(), String::new(), C::ID.to_lowercase(), format!("{} ", C::ID)] {
                if other == C::ID {
                    continue;
                }
                let mut alt = j.clone();
                if let Some(h) = at_path(&mut alt, path) {
                    h["ciphersuite"] = json!(other);
                }
                check(
                    !json_ok(alt),
                    &format!("{name}: a JSON encoding naming ciphersuite {other:?} at {} is rejected", path.join(".")),
                    "Err(..)",
                    "accepted",
                )?;
            }
        }
    }
    // whole encodings of the sibling ciphersuite
    let mut q = Params::generate_with(rng, 3, 2);
    q.id_scheme = "default";
    q.ids = gen_ids(rng, "default", 3);
    if let Ok(sib) = keygen_dealer::<C::Sibling>(rng, &q, false) {
        if let Some(kp) = sib.key_packages.values().next() {
            if let Ok(b) = kp.serialize() {
                must_refuse(KeyPackage::<C>::deserialize(&b), &format!("a binary KeyPackage of ciphersuite {other_id}"))?;
            }
            if let Ok(j) = serde_json::to_value(kp) {
                must_refuse(serde_json::from_value::<KeyPackage<C>>(j), &format!("a JSON KeyPackage of ciphersuite {other_id}"))?;
            }
        }
        if let Ok(b) = sib.pubkeys.serialize() {
            must_refuse(PublicKeyPackage::<C>::deserialize(&b), &format!("a binary PublicKeyPackage of ciphersuite {other_id}"))?;
        }
    }
    Ok(())
}

// ------------------------------------------------------------------------------------------------
// JSON documents with a member missing

/// every STRUCT object of a JSON document as a path: the document itself, every object that has a `header` member and every
/// `header` object.  (Objects whose keys are identifiers - verifying shares, signing commitments - are maps: dropping one of
/// their entries gives another valid value; their values are searched for structs.)
fn struct_paths(v: &Value, path: &mut Vec<String>, top: bool, under_header: bool, out: &mut Vec<Vec<String>>) {
    match v {
        Value::Object(m) => {
            if top || under_header || m.contains_key("header") {
                out.push(path.clone());
            }
            for (k, x) in m {
                path.push(k.clone());
                struct_paths(x, path, false, k == "header", out);
                path.pop();
            }
        }
        Value::Array(a) => {
            for (i, x) in a.iter().enumerate() {
                path.push(i.to_string());
                struct_paths(x, path, false, false, out);
                path.pop();
            }
        }
        _ => {}
    }
}

fn remove_at(v: &mut Value, path: &[String], member: &str) -> bool {
    let mut cur = v;
    for k in path {
        let next = match cur {
            Value::Object(m) => m.get_mut(k.as_str()),
            Value::Array(a) => k.parse::<usize>().ok().and_then(|i| a.get_mut(i)),
            _ => None,
        };
        cur = match next {
            Some(n) => n,
            None => return false,
        };
    }
    match cur {
        Value::Object(m) => m.remove(member).is_some(),
        _ => false,
    }
}

/// All documents obtained from the JSON form of `v` by deleting ONE member of one struct object, as
/// (dotted path of the deleted member, document).  Empty if the JSON form is not an object.
pub fn json_with_one_member_deleted<T: Serialize>(v: &T) -> Vec<(String, Value)> {
    let j = match serde_json::to_value(v) {
        Ok(j @ Value::Object(_)) => j,
        _ => return Vec::new(),
    };
    let mut paths = Vec::new();
    struct_paths(&j, &mut Vec::new(), true, false, &mut paths);
    let mut out = Vec::new();
    for path in paths {
        let members: Vec<String> = {
            let mut cur = &j;
            for k in &path {
                cur = match cur {
                    Value::Object(m) => m.get(k.as_str()).unwrap_or(&Value::Null),
                    Value::Array(a) => k.parse::<usize>().ok().and_then(|i| a.get(i)).unwrap_or(&Value::Null),
                    _ => &Value::Null,
                };
            }
            cur.as_object().map(|m| m.keys().cloned().collect()).unwrap_or_default()
        };
        for member in members {
            let mut alt = j.clone();
            if remove_at(&mut alt, &path, &member) {
                let mut dotted = path.clone();
                dotted.push(member);
                out.push((dotted.join("."), alt));
            }
        }
    }
    out
}

// ------------------------------------------------------------------------------------------------
// edge values of the scalar range in every type that carries a scalar

/// "Decoding an encoding returns an equal value" for values at the edges of the scalar range (`common::boundary_scalars`: 0, 1, 2,
/// order-1, order-2, 2^top, 2^top +- 1, ...), which random sampling never produces: the ciphersuite's `Field` codec, every bare
/// scalar type, identifiers, and the packages that carry such a scalar as identifier, polynomial coefficient, signing share,
/// secret share, nonce or signature response - binary and JSON.  Zero is used where the property does not exclude it
/// (not as identifier or signing key; not as signing share or nonce, whose public image would be the identity).
pub fn scenario_boundary_values_round_trip<C: Suite>(rng: &mut TestRng, p: &Params, notes: &mut Notes) -> Verdict {
    let all = boundary_scalars::<C>();
    let sc = scalar_codec::<C>();
    // (1) the Field codec itself and the bare scalar types, for EVERY boundary scalar
    for (name, x) in &all {
        let enc = scalar_bytes::<C>(x);
        match sc(&enc) {
            Decoded::Accepted(re) if re == enc => {}
            Decoded::Accepted(re) => return fail(&format!("Field::deserialize of the encoding of the scalar {name} re-encodes to it"), hex(&enc), hex(&re)),
            _ => return fail(&format!("Field::deserialize accepts the encoding Field::serialize produces for the scalar {name}"), "Ok(..)", format!("Err for {}", hex(&enc))),
        }
        let back = scalar_from_bytes::<C>(&enc);
        check(back == Some(*x), &format!("Field: decoding the encoding of the scalar {name} returns an equal value"), hex(&enc), format!("{:?}", back.map(|b| hex(&scalar_bytes::<C>(&b)))))?;
        let nonzero = *x != zero::<C>();
        let bare = |ty: &str, r: Result<Vec<u8>, FErr<C>>| -> Verdict {
            let re = must(r, &format!("{ty}::deserialize of the encoding of the scalar {name}"))?;
            check(re == enc, &format!("{ty}: decoding the encoding of the scalar {name} and re-encoding reproduces it"), hex(&enc), hex(&re))
        };
        bare("SignatureShare", fc::round2::SignatureShare::<C>::deserialize(&enc).map(|v| v.serialize()))?;
        bare("repairable::Delta", Delta::<C>::deserialize(&enc).map(|v| v.serialize()))?;
        bare("repairable::Sigma", Sigma::<C>::deserialize(&enc).map(|v| v.serialize()))?;
        bare("Randomizer", frost_rerandomized::Randomizer::<C>::deserialize(&enc).map(|v| v.serialize()))?;
        if nonzero {
            bare("SigningShare", keys::SigningShare::<C>::deserialize(&enc).map(|v| v.serialize()))?;
            bare("round1::Nonce", fc::round1::Nonce::<C>::deserialize(&enc).map(|v| v.serialize()))?;
            bare("SigningKey", fc::SigningKey::<C>::deserialize(&enc).map(|v| v.serialize()))?;
            bare("Identifier", Id::<C>::deserialize(&enc).map(|v| v.serialize()))?;
            let id = need(Id::<C>::new(*x), "Identifier::new")?;
            check(Id::<C>::deserialize(&id.serialize()).ok() == Some(id), &format!("Identifier: decoding the encoding of the identifier {name} returns an equal value"), id_hex::<C>(&id), "Err or another value")?;
            let j = must(serde_json::to_string(&id), "Identifier json")?;
            let back: Id<C> = must(serde_json::from_str(&j), &format!("Identifier: serde_json::from_str of the JSON form of the identifier {name}"))?;
            check(back == id, &format!("Identifier: JSON decoding returns an equal value (identifier {name})"), id_hex::<C>(&id), id_hex::<C>(&back))?;
        }
    }
    // (2) composite types carrying boundary scalars; a few per case
    let pick = |rng: &mut TestRng| pick_boundary::<C>(rng, true);
    let (id_name, id_s) = pick(rng);
    let id = need(Id::<C>::new(id_s), "Identifier::new")?;
    let (share_name, share_s) = pick(rng);
    let (n1_name, n1) = pick(rng);
    let (n2_name, n2) = pick(rng);
    let (z_name, z) = pick_boundary::<C>(rng, false);
    let t = rng.range(2, 4);
    let coeff_names: Vec<(&str, Sc<C>)> = (0..t).map(|_| pick_boundary::<C>(rng, false)).collect();
    notes.insert(
        "boundary_values".into(),
        json!({"identifier": id_name, "signing_share": share_name, "hiding_nonce": n1_name, "binding_nonce": n2_name, "signature_response": z_name,
               "coefficients": coeff_names.iter().map(|c| c.0).collect::<Vec<_>>()}),
    );
    let share = keys::SigningShare::<C>::new(share_s);
    let vshare = keys::VerifyingShare::<C>::from(share);
    let vk = fc::VerifyingKey::<C>::from(&fc::SigningKey::<C>::new(rng));
    let kp = KeyPackage::<C>::new(id, share, vshare, vk, t as u16);
    round_trip::<_, C>(&format!("KeyPackage (identifier {id_name}, signing share {share_name})"), &kp, |x| x.serialize(), |b| KeyPackage::<C>::deserialize(b), true)?;
    let nonces = fc::round1::SigningNonces::<C>::from_nonces(fc::round1::Nonce::<C>::from_scalar(n1), fc::round1::Nonce::<C>::from_scalar(n2));
    round_trip::<_, C>(&format!("SigningNonces (hiding {n1_name}, binding {n2_name})"), &nonces, |x| x.serialize(), |b| fc::round1::SigningNonces::<C>::deserialize(b), true)?;
    let mut cm = BTreeMap::new();
    cm.insert(id, *nonces.commitments());
    let sp = fc::SigningPackage::<C>::new(cm, &p.message);
    round_trip::<_, C>(&format!("SigningPackage (signer {id_name})"), &sp, |x| x.serialize(), |b| fc::SigningPackage::<C>::deserialize(b), true)?;
    // a signature whose response is a boundary scalar (R = any valid point)
    let sig = fc::Signature::<C>::new(base_mul::<C>(&random_nonzero_scalar::<C>(rng)), z);
    round_trip::<_, C>(&format!("Signature (response {z_name})"), &sig, |x| x.serialize(), |b| fc::Signature::<C>::deserialize(b), !C::IS_TAPROOT)?;
    // key generation state: polynomial with boundary coefficients, its commitment, the shares it gives
    let coeffs: Vec<Sc<C>> = coeff_names.iter().map(|c| c.1).collect();
    let nonzero_commitment = coeffs.iter().all(|c| *c != zero::<C>());
    if nonzero_commitment {
        let commitment = VerifiableSecretSharingCommitment::<C>::new(coeffs.iter().map(|c| keys::CoefficientCommitment::<C>::new(base_mul::<C>(c))).collect());
        let s1 = dkg::round1::SecretPackage::<C>::new(id, coeffs.clone(), commitment.clone(), t as u16, t as u16 + 1);
        round_trip::<_, C>(
            &format!("dkg::round1::SecretPackage (identifier {id_name}, coefficients {:?})", coeff_names.iter().map(|c| c.0).collect::<Vec<_>>()),
            &s1,
            |x| x.serialize(),
            |b| dkg::round1::SecretPackage::<C>::deserialize(b),
            true,
        )?;
        let s2 = dkg::round2::SecretPackage::<C>::new(id, commitment.clone(), share_s, t as u16, t as u16 + 1);
        round_trip::<_, C>(&format!("dkg::round2::SecretPackage (identifier {id_name}, secret share {share_name})"), &s2, |x| x.serialize(), |b| dkg::round2::SecretPackage::<C>::deserialize(b), true)?;
        let sh = SecretShare::<C>::new(id, share, commitment);
        round_trip::<_, C>(&format!("SecretShare (identifier {id_name}, signing share {share_name})"), &sh, |x| x.serialize(), |b| SecretShare::<C>::deserialize(b), true)?;
    }
    let r2p = dkg::round2::Package::<C>::new(share);
    round_trip::<_, C>(&format!("dkg::round2::Package (signing share {share_name})"), &r2p, |x| x.serialize(), |b| dkg::round2::Package::<C>::deserialize(b), true)?;
    // a public key package listing boundary identifiers
    let mut vs = BTreeMap::new();
    vs.insert(id, vshare);
    for _ in 0..2 {
        let (_, s) = pick(rng);
        vs.insert(need(Id::<C>::new(s), "Identifier::new")?, vshare);
    }
    let pkp = PublicKeyPackage::<C>::new(vs, vk, Some(t as u16));
    round_trip::<_, C>("PublicKeyPackage (boundary identifiers)", &pkp, |x| x.serialize(), |b| PublicKeyPackage::<C>::deserialize(b), true)
}
