//! C16: use of the random source.  With the same source output key generation, DKG part one, repair
//! part one, both refresh variants, signing-key generation and randomizer generation are
//! reproducible bit for bit; with a different output every drawn value changes; within one call no
//! two drawn values coincide (polynomial coefficients, proof-of-knowledge nonce, repair deltas).

use std::collections::BTreeSet;

use frost_core as fc;
use frost_core::keys::dkg;
use frost_core::keys::refresh;
use frost_core::keys::repairable;
use frost_core::keys::{self, IdentifierList};
use serde_json::json;

use crate::c19::scenario_batch_cancelling_errors;
use crate::common::*;
use crate::rng::{bounded, scripted_period, ScriptRng, TestRng};
use crate::{scn, Scenario};

pub fn scenarios() -> Vec<Scenario> {
    vec![
        scn!(scenario_dealer_randomness),
        scn!(scenario_dkg_part1_randomness),
        scn!(scenario_repair_randomness),
        scn!(scenario_refresh_randomness),
        scn!(scenario_randomizer_and_key_randomness),
        scn!(scenario_batch_blinders),
        scn!(scenario_repeating_source_reproducible),
        // the observable consequence of equal blinders: errors that cancel are accepted
        scn!(scenario_batch_cancelling_errors),
    ]
}

fn all_distinct(items: &[Vec<u8>]) -> Option<(usize, usize)> {
    for i in 0..items.len() {
        for j in (i + 1)..items.len() {
            if items.get(i) == items.get(j) {
                return Some((i, j));
            }
        }
    }
    None
}

fn distinct_check(items: &[Vec<u8>], what: &str) -> Verdict {
    match all_distinct(items) {
        None => Ok(()),
        Some((i, j)) => fail(
            what,
            "pairwise distinct values",
            format!("values {i} and {j} coincide: {}", items.get(i).map(|x| hex(x)).unwrap_or_default()),
        ),
    }
}

fn disjoint_check(a: &[Vec<u8>], b: &[Vec<u8>], what: &str) -> Verdict {
    let sa: BTreeSet<&Vec<u8>> = a.iter().collect();
    match b.iter().find(|x| sa.contains(x)) {
        None => Ok(()),
        Some(x) => fail(what, "every value differs", format!("value {} occurs in both runs", hex(x))),
    }
}

pub fn scenario_dealer_randomness<C: Suite>(rng: &mut TestRng, p: &Params, notes: &mut Notes) -> Verdict {
    let ids = make_ids::<C>(&p.ids)?;
    let seed = rng.u64();
    notes.insert("stream_seed".into(), json!(seed.to_string()));
    let run = |s: u64| keys::generate_with_dealer::<C, _>(p.n, p.t, IdentifierList::Custom(&ids), &mut TestRng::new(s));
    let (s1, pk1) = need(run(seed), "generate_with_dealer")?;
    let (s2, pk2) = need(run(seed), "generate_with_dealer")?;
    check(s1 == s2 && pk1 == pk2, "generate_with_dealer is reproducible from the same random stream", "identical output", "different output")?;
    let (s3, pk3) = need(run(seed ^ 1), "generate_with_dealer")?;
    check(pk1.verifying_key() != pk3.verifying_key(), "another random stream gives another key", "different", "equal")?;
    let c1 = match s1.values().next() {
        Some(s) => need(s.commitment().serialize(), "serialize")?,
        None => return skip("no shares"),
    };
    let c3 = match s3.values().next() {
        Some(s) => need(s.commitment().serialize(), "serialize")?,
        None => return skip("no shares"),
    };
    distinct_check(&c1, "dealer: key and polynomial coefficients are distinct draws (commitments pairwise distinct)")?;
    disjoint_check(&c1, &c3, "dealer: with another random stream every coefficient changes")?;
    // split(): the coefficients are new draws, unrelated to the given key
    let sk = fc::SigningKey::<C>::new(rng);
    let (sa, _) = need(keys::split::<C, _>(&sk, p.n, p.t, IdentifierList::Custom(&ids), &mut TestRng::new(seed)), "split")?;
    let (sb, _) = need(keys::split::<C, _>(&sk, p.n, p.t, IdentifierList::Custom(&ids), &mut TestRng::new(seed ^ 2)), "split")?;
    let (ca, cb) = match (sa.values().next(), sb.values().next()) {
        (Some(a), Some(b)) => (need(a.commitment().serialize(), "serialize")?, need(b.commitment().serialize(), "serialize")?),
        _ => return skip("no shares"),
    };
    distinct_check(&ca, "split: polynomial coefficients are distinct draws")?;
    disjoint_check(ca.get(1..).unwrap_or(&[]), cb.get(1..).unwrap_or(&[]), "split: with another random stream every non-constant coefficient changes")
}

pub fn scenario_dkg_part1_randomness<C: Suite>(rng: &mut TestRng, p: &Params, notes: &mut Notes) -> Verdict {
    let ids = make_ids::<C>(&p.ids)?;
    let id = match ids.first() {
        Some(i) => *i,
        None => return skip("internal"),
    };
    let seed = rng.u64();
    notes.insert("stream_seed".into(), json!(seed.to_string()));
    let run = |s: u64| dkg::part1::<C, _>(id, p.n, p.t, TestRng::new(s));
    let (sa, pa) = need(run(seed), "part1")?;
    let (sb, pb) = need(run(seed), "part1")?;
    check(sa == sb && pa == pb, "dkg::part1 is reproducible from the same random stream", "identical output", "different output")?;
    let (_, pc) = need(run(seed ^ 1), "part1")?;
    let ca = need(pa.commitment().serialize(), "serialize")?;
    let cc = need(pc.commitment().serialize(), "serialize")?;
    distinct_check(&ca, "dkg::part1: secret and coefficients are distinct draws")?;
    disjoint_check(&ca, &cc, "dkg::part1: with another random stream every coefficient changes")?;
    // the proof-of-knowledge nonce is one more independent draw: its commitment R differs from all coefficient commitments
    let sig_a = need(pa.proof_of_knowledge().serialize(), "serialize")?;
    let sig_c = need(pc.proof_of_knowledge().serialize(), "serialize")?;
    let rlen = sig_a.len() - scalar_bytes::<C>(&zero::<C>()).len();
    let (ra, rc) = (sig_a.get(..rlen).unwrap_or(&[]).to_vec(), sig_c.get(..rlen).unwrap_or(&[]).to_vec());
    check(ra != rc, "dkg::part1: with another random stream the proof-of-knowledge nonce changes", "different R", "equal R")?;
    let tail = |c: &Vec<u8>| c.get(c.len() - rlen.min(c.len())..).unwrap_or(&[]).to_vec();
    check(
        ca.iter().all(|c| tail(c) != ra),
        "dkg::part1: the proof-of-knowledge nonce is a draw of its own (R differs from every coefficient commitment)",
        "R not among the commitments",
        "R equals a coefficient commitment",
    )
}

pub fn scenario_repair_randomness<C: Suite>(rng: &mut TestRng, p: &Params, notes: &mut Notes) -> Verdict {
    let keys = keygen::<C>(rng, p, false)?;
    let helpers: Vec<Id<C>> = keys.ids.clone();
    let target = need(Id::<C>::derive(b"participant under repair"), "derive")?;
    if helpers.contains(&target) {
        return skip("collision");
    }
    let me = match helpers.get(rng.below(helpers.len())) {
        Some(i) => *i,
        None => return skip("internal"),
    };
    let kp = match keys.key_packages.get(&me) {
        Some(k) => k,
        None => return skip("internal"),
    };
    let seed = rng.u64();
    notes.insert("stream_seed".into(), json!(seed.to_string()));
    let run = |s: u64| repairable::repair_share_part1::<C, _>(&helpers, kp, &mut TestRng::new(s), target);
    let a = need(run(seed), "repair_share_part1")?;
    let b = need(run(seed), "repair_share_part1")?;
    check(a == b, "repair_share_part1 is reproducible from the same random stream", "identical deltas", "different deltas")?;
    let c = need(run(seed ^ 1), "repair_share_part1")?;
    let va: Vec<Vec<u8>> = a.values().map(|d| d.serialize()).collect();
    let vc: Vec<Vec<u8>> = c.values().map(|d| d.serialize()).collect();
    distinct_check(&va, "repair_share_part1: the blinding values are distinct draws")?;
    disjoint_check(&va, &vc, "repair_share_part1: with another random stream every delta changes")
}

pub fn scenario_refresh_randomness<C: Suite>(rng: &mut TestRng, p: &Params, notes: &mut Notes) -> Verdict {
    let keys = keygen::<C>(rng, p, false)?;
    let seed = rng.u64();
    notes.insert("stream_seed".into(), json!(seed.to_string()));
    let run = |s: u64| refresh::compute_refreshing_shares::<C, _>(keys.pubkeys.clone(), &keys.ids, &mut TestRng::new(s));
    let (a, pa) = need(run(seed), "compute_refreshing_shares")?;
    let (b, pb) = need(run(seed), "compute_refreshing_shares")?;
    check(a == b && pa == pb, "compute_refreshing_shares is reproducible from the same random stream", "identical output", "different output")?;
    let (c, _) = need(run(seed ^ 1), "compute_refreshing_shares")?;
    let (ca, cc) = match (a.first(), c.first()) {
        (Some(x), Some(y)) => (need(x.commitment().serialize(), "serialize")?, need(y.commitment().serialize(), "serialize")?),
        _ => return skip("no shares"),
    };
    distinct_check(&ca, "compute_refreshing_shares: refresh polynomial coefficients are distinct draws")?;
    disjoint_check(&ca, &cc, "compute_refreshing_shares: with another random stream every coefficient changes")?;
    // distributed variant
    let id = match keys.ids.first() {
        Some(i) => *i,
        None => return skip("internal"),
    };
    let n = keys.ids.len() as u16;
    let run = |s: u64| refresh::refresh_dkg_part1::<C, _>(id, n, p.t, TestRng::new(s));
    let (sa, pa) = need(run(seed), "refresh_dkg_part1")?;
    let (sb, pb) = need(run(seed), "refresh_dkg_part1")?;
    check(sa == sb && pa == pb, "refresh_dkg_part1 is reproducible from the same random stream", "identical output", "different output")?;
    let (_, pc) = need(run(seed ^ 1), "refresh_dkg_part1")?;
    let ca = need(pa.commitment().serialize(), "serialize")?;
    let cc = need(pc.commitment().serialize(), "serialize")?;
    distinct_check(&ca, "refresh_dkg_part1: refresh polynomial coefficients are distinct draws")?;
    disjoint_check(&ca, &cc, "refresh_dkg_part1: with another random stream every coefficient changes")
}

pub fn scenario_randomizer_and_key_randomness<C: Suite>(rng: &mut TestRng, p: &Params, notes: &mut Notes) -> Verdict {
    let seed = rng.u64();
    notes.insert("stream_seed".into(), json!(seed.to_string()));
    let k1 = fc::SigningKey::<C>::new(&mut TestRng::new(seed));
    let k2 = fc::SigningKey::<C>::new(&mut TestRng::new(seed));
    let k3 = fc::SigningKey::<C>::new(&mut TestRng::new(seed ^ 1));
    check(k1 == k2, "SigningKey::new is reproducible from the same random stream", "equal", "different")?;
    check(k1 != k3, "SigningKey::new gives another key from another stream", "different", "equal")?;
    // single-signer signatures: same stream, same signature; other stream, other nonce
    let s1 = k1.sign(TestRng::new(seed), &p.message);
    let s2 = k1.sign(TestRng::new(seed), &p.message);
    let s3 = k1.sign(TestRng::new(seed ^ 1), &p.message);
    check(s1 == s2, "SigningKey::sign is reproducible from the same random stream", "equal", "different")?;
    check(s1 != s3, "SigningKey::sign uses a new nonce from another stream", "different", "equal")?;
    // randomizer seeds
    let (keys, _signers, sess) = setup_session::<C>(rng, p)?;
    let vk = keys.pubkeys.verifying_key();
    let a = need(frost_rerandomized::RandomizedParams::<C>::new_from_commitments(vk, &sess.commitments, TestRng::new(seed)), "new_from_commitments")?;
    let b = need(frost_rerandomized::RandomizedParams::<C>::new_from_commitments(vk, &sess.commitments, TestRng::new(seed)), "new_from_commitments")?;
    let c = need(frost_rerandomized::RandomizedParams::<C>::new_from_commitments(vk, &sess.commitments, TestRng::new(seed ^ 1)), "new_from_commitments")?;
    check(a.0 == b.0 && a.1 == b.1, "RandomizedParams::new_from_commitments is reproducible from the same random stream", "equal", "different")?;
    check(a.1 != c.1 && a.0.randomizer() != c.0.randomizer(), "another random stream gives another randomizer seed and randomizer", "different", "equal")?;
    check(a.1.iter().any(|x| *x != 0), "the randomizer seed is drawn from the random source", "non-zero bytes", "all zero")
}

/// Batch verification draws one blinder per item from the supplied source: a recording source shows that `verify`
/// (the only function of the verifier that is handed a source: all draws happen after the items are fixed) draws, for a
/// batch of k items, at least k times what it draws for one item, for k = 1, 2, 3, n with n up to 64; the size of one
/// `Field::random` draw is recorded next to it.
pub fn scenario_batch_blinders<C: Suite>(rng: &mut TestRng, _p: &Params, notes: &mut Notes) -> Verdict {
    use frost_core::batch;
    let sk = fc::SigningKey::<C>::new(rng);
    let vk = fc::VerifyingKey::<C>::from(&sk);
    let n = match rng.below(4) {
        0 => [16usize, 33, 64][rng.below(3)],
        _ => rng.range(2, 9),
    };
    notes.insert("batch_size".into(), json!(n));
    let items: Vec<batch::Item<C>> = (0..n)
        .filter_map(|i| {
            let msg = format!("item {i}").into_bytes();
            let sig = sk.sign(&mut *rng, &msg);
            batch::Item::<C>::new(vk, sig, &msg).ok()
        })
        .collect();
    if items.len() != n {
        return skip("cannot build items");
    }
    let seed = rng.u64();
    let drawn = |k: usize| -> (bool, u64) {
        let mut src = TestRng::new(seed);
        let mut v = batch::Verifier::<C>::new();
        for it in items.iter().take(k) {
            v.queue(it.clone());
        }
        (v.verify(&mut src).is_ok(), src.bytes_drawn)
    };
    // what one scalar sampled from the same source costs (information; 128-bit blinders would be smaller)
    let mut probe = TestRng::new(seed);
    let _ = <Fd<C> as fc::Field>::random(&mut probe);
    notes.insert("bytes_of_one_field_random_draw".into(), json!(probe.bytes_drawn));
    let (ok1, b1) = drawn(1);
    check(ok1, "a batch of one valid signature verifies", "Ok", "Err")?;
    check(b1 > 0, "batch verification draws its blinder from the supplied random source", "> 0 bytes", "0 bytes")?;
    notes.insert("bytes_drawn_for_one_item".into(), json!(b1));
    let mut sizes = vec![2usize, 3, n / 2, n];
    sizes.retain(|k| *k >= 2 && *k <= n);
    sizes.dedup();
    for k in sizes {
        let (ok, bk) = drawn(k);
        check(ok, "batches of valid signatures verify", "Ok", format!("Err for {k} items"))?;
        check(
            bk >= k as u64 * b1,
            "batch verification obtains one blinder per item from distinct draws of the supplied random source",
            format!("at least {} bytes for {k} items ({b1} bytes for one item; one Field::random draw takes {} bytes)", k as u64 * b1, probe.bytes_drawn),
            format!("{bk} bytes"),
        )?;
    }
    Ok(())
}

/// "With the same source output the whole computation is reproducible bit for bit" for sources whose output is constant or
/// repeats (rng::scripted_period, restricted to bytes that no rejection sampler refuses): every entry point that takes a
/// random source returns, and returns the same result from an equal source.  (Distinctness of the drawn values cannot be
/// required from a repeating source.)  A call that keeps drawing from such a source without end gives no verdict.
pub fn scenario_repeating_source_reproducible<C: Suite>(rng: &mut TestRng, p: &Params, notes: &mut Notes) -> Verdict {
    let ids = make_ids::<C>(&p.ids)?;
    let (kind, period) = scripted_period(rng, true);
    notes.insert("random_source".into(), json!(kind));
    notes.insert("random_source_period_hex".into(), json!(hex(&period)));
    let entry = ["dealer", "split", "dkg-part1", "refresh-dealer", "refresh-dkg-part1", "repair-part1", "signing-key-and-sign", "randomizer", "commit"][rng.below(9)];
    notes.insert("entry_point".into(), json!(entry));
    let src = || ScriptRng::new(period.clone());
    // a call fed by the scripted source, twice; `what` names it
    fn twice<T: PartialEq>(what: &str, f: impl Fn() -> T) -> Result<T, Stop> {
        let run = || bounded(&f);
        match (run(), run()) {
            (Ok(a), Ok(b)) => {
                check(a == b, &format!("{what} is reproducible from the same (repeating) random stream"), "identical output", "different output")?;
                Ok(a)
            }
            // the property does not say that a call must return from a source that repeats itself (a redraw-until-distinct
            // implementation conforms): no verdict
            _ => skip(format!("{what} keeps drawing from a repeating source")),
        }
    }
    let id = match ids.first() {
        Some(i) => *i,
        None => return skip("internal"),
    };
    match entry {
        "dealer" => {
            let r = twice("generate_with_dealer", || keys::generate_with_dealer::<C, _>(p.n, p.t, IdentifierList::Custom(&ids), &mut src()))?;
            need(r, "generate_with_dealer from a repeating source").map(|_| ())
        }
        "split" => {
            let sk = fc::SigningKey::<C>::new(rng);
            let r = twice("split", || keys::split::<C, _>(&sk, p.n, p.t, IdentifierList::Custom(&ids), &mut src()))?;
            need(r, "split from a repeating source").map(|_| ())
        }
        "dkg-part1" => {
            let r = twice("dkg::part1", || dkg::part1::<C, _>(id, p.n, p.t, src()))?;
            need(r, "dkg::part1 from a repeating source").map(|_| ())
        }
        "refresh-dealer" => {
            let keys = keygen::<C>(rng, p, false)?;
            let r = twice("compute_refreshing_shares", || refresh::compute_refreshing_shares::<C, _>(keys.pubkeys.clone(), &keys.ids, &mut src()))?;
            need(r, "compute_refreshing_shares from a repeating source").map(|_| ())
        }
        "refresh-dkg-part1" => {
            let r = twice("refresh_dkg_part1", || refresh::refresh_dkg_part1::<C, _>(id, p.n, p.t, src()))?;
            need(r, "refresh_dkg_part1 from a repeating source").map(|_| ())
        }
        "repair-part1" => {
            let keys = keygen::<C>(rng, p, false)?;
            let target = need(Id::<C>::derive(b"participant under repair"), "derive")?;
            let kp = match keys.key_packages.get(&id) {
                Some(k) => k.clone(),
                None => return skip("internal"),
            };
            if keys.ids.contains(&target) {
                return skip("collision");
            }
            let r = twice("repair_share_part1", || repairable::repair_share_part1::<C, _>(&keys.ids, &kp, &mut src(), target))?;
            need(r, "repair_share_part1 from a repeating source").map(|_| ())
        }
        "signing-key-and-sign" => {
            let k = twice("SigningKey::new", || fc::SigningKey::<C>::new(&mut src()))?;
            let sig = twice("SigningKey::sign", || k.sign(src(), &p.message))?;
            must(fc::VerifyingKey::<C>::from(&k).verify(&p.message, &sig), "a signature made with nonce randomness from a repeating source verifies")
        }
        "randomizer" => {
            let (keys, _signers, sess) = setup_session::<C>(rng, p)?;
            let vk = keys.pubkeys.verifying_key();
            let r = twice("RandomizedParams::new_from_commitments", || {
                frost_rerandomized::RandomizedParams::<C>::new_from_commitments(vk, &sess.commitments, src()).map(|(a, b)| (a.randomizer().serialize(), b))
            })?;
            need(r, "new_from_commitments from a repeating source").map(|_| ())
        }
        _ => {
            let share = make_signing_share::<C>(&random_nonzero_scalar::<C>(rng))?;
            twice("round1::commit", || fc::round1::commit::<C, _>(&share, &mut src())).map(|_| ())
        }
    }
}
