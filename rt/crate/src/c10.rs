//! C10: share refresh (trusted dealer and distributed): group key unchanged, identifier/threshold
//! kept, verifying share = G * new signing share = entry of the refreshed public key package,
//! t refreshed participants can sign, mixed old/new signer sets and removed participants fail,
//! threshold change / unknown participant / non-zero constant term are rejected.

use std::collections::{BTreeMap, BTreeSet};

use frost_core as fc;
use frost_core::keys::dkg;
use frost_core::keys::refresh;
use frost_core::keys::{self, IdentifierList, KeyPackage, PublicKeyPackage, SecretShare, VerifiableSecretSharingCommitment};
use serde_json::json;

use crate::c01::honest_session_checks;
use crate::c07::key_package_consistent;
use crate::common::*;
use crate::rng::TestRng;
use crate::{scn, Scenario};

pub fn scenarios() -> Vec<Scenario> {
    vec![
        scn!(scenario_refresh_dealer, 2),
        scn!(scenario_refresh_dkg, 2),
        crate::wrap::scn_refresh(1),
    ]
}

/// Finding probes (see README "Finding probes"): run once per run, report, never fail.
pub fn probes() -> Vec<Scenario> {
    // the five default-world suites (the Taproot suite is not part of this finding)
    let mut s = scn!(probe_mixed_refresh_set_cancels);
    s.runs[5] = None;
    vec![s]
}

/// KNOWN literal deviation from the text of C10 ("any signer set mixing pre-refresh and post-refresh shares ...
/// fails"): 2-of-4 dealer group with the identifiers {130,132,133,135}, dealer refresh, one signing session of
/// all four with OLD shares at {130,135} and NEW shares at {132,133}.  The refreshing polynomial is a*x; the
/// Lagrange-weighted refresh terms of the new-share holders, a * (l_132 * 132 + l_133 * 133), cancel for this
/// symmetric set, so the aggregate is a valid signature under the (unchanged) group key.  The scenarios'
/// oracle is restricted accordingly (README, "Oracle restrictions"); this probe only reports the fact.
pub fn probe_mixed_refresh_set_cancels<C: Suite>(rng: &mut TestRng, _p: &Params, notes: &mut Notes) -> Verdict {
    const IDS: [u16; 4] = [130, 132, 133, 135];
    const OLD: [u16; 2] = [130, 135];
    let ids: Vec<Id<C>> = IDS.iter().map(|i| need(Id::<C>::try_from(*i), "Identifier::try_from(u16)")).collect::<Result<_, _>>()?;
    let (shares, pubkeys) = need(
        keys::generate_with_dealer::<C, _>(4, 2, IdentifierList::Custom(&ids), &mut *rng),
        "generate_with_dealer(4, 2, {130,132,133,135})",
    )?;
    let mut old_kps = BTreeMap::new();
    for (id, s) in &shares {
        old_kps.insert(*id, need(KeyPackage::<C>::try_from(s.clone()), "KeyPackage::try_from")?);
    }
    let (refreshing, new_pkp) = need(
        refresh::compute_refreshing_shares::<C, _>(pubkeys.clone(), &ids, &mut *rng),
        "compute_refreshing_shares",
    )?;
    let mut mixed: BTreeMap<Id<C>, KeyPackage<C>> = BTreeMap::new();
    for share in refreshing {
        let id = *share.identifier();
        let old = match old_kps.get(&id) {
            Some(k) => k,
            None => return skip("internal: refreshing share for an unknown participant"),
        };
        let is_old = ids.iter().zip(IDS).any(|(i, n)| *i == id && OLD.contains(&n));
        let kp = if is_old {
            old.clone()
        } else {
            need(refresh::refresh_share::<C>(share, old), "refresh_share")?
        };
        mixed.insert(id, kp);
    }
    let message = b"finding probe: mixed-refresh-set-cancels";
    let sess = need(run_session::<C>(rng, &mixed, &ids, message, false), "signing session of all four participants")?;
    let mut valid_with: Vec<&str> = Vec::new();
    for (which, pkp) in [("refreshed", &new_pkp), ("pre-refresh", &pubkeys)] {
        if let Ok(sig) = fc::aggregate::<C>(&sess.package, &sess.shares, pkp) {
            if pubkeys.verifying_key().verify(message, &sig).is_ok() {
                valid_with.push(which);
            }
        }
    }
    notes.insert("aggregate_ok_and_valid_with_public_key_package".into(), json!(valid_with));
    if valid_with.is_empty() {
        return Ok(());
    }
    finding(
        "mixed-refresh-set-cancels",
        format!(
            "2-of-4 dealer group, identifiers {{130,132,133,135}}, dealer refresh; one signing session of all four with OLD (pre-refresh) \
             shares at {{130,135}} and NEW (refreshed) shares at {{132,133}}: aggregate returns Ok and the signature verifies under the \
             group key ({} public key package): Lagrange-weighted refresh terms cancel",
            valid_with.join(" and ")
        ),
    )
}

/// The participants that stay (in the order handed to the library) and those removed.
fn choose_remaining<C: Suite>(rng: &mut TestRng, keys: &Keys<C>, p: &Params, notes: &mut Notes) -> (Vec<Id<C>>, Vec<Id<C>>) {
    let n = p.n as usize;
    let t = p.t as usize;
    let size = match rng.below(5) {
        0 | 1 => n,
        2 => t,
        _ => rng.range(t, n),
    };
    let mut idx = rng.subset(n, size);
    if rng.chance(50) {
        rng.shuffle(&mut idx);
    }
    let remaining: Vec<Id<C>> = idx.iter().filter_map(|i| keys.ids.get(*i)).copied().collect();
    let removed: Vec<Id<C>> = keys.ids.iter().filter(|i| !remaining.contains(i)).copied().collect();
    notes.insert("remaining_indices".into(), json!(idx));
    notes.insert("remaining_hex".into(), json!(ids_hex::<C>(&remaining)));
    notes.insert("removed_hex".into(), json!(ids_hex::<C>(&removed)));
    (remaining, removed)
}

/// Everything the property says about the result of a successful refresh.
#[allow(clippy::too_many_arguments)]
fn refreshed_state_checks<C: Suite>(
    rng: &mut TestRng,
    p: &Params,
    old: &Keys<C>,
    remaining: &[Id<C>],
    removed: &[Id<C>],
    new_kps: &BTreeMap<Id<C>, KeyPackage<C>>,
    new_pkp: &PublicKeyPackage<C>,
    notes: &mut Notes,
) -> Verdict {
    check(
        new_pkp.verifying_key() == old.pubkeys.verifying_key(),
        "the group verifying key is unchanged by the refresh",
        hex(&vkey_bytes::<C>(old.pubkeys.verifying_key())),
        hex(&vkey_bytes::<C>(new_pkp.verifying_key())),
    )?;
    let want: BTreeSet<Id<C>> = remaining.iter().copied().collect();
    let got: BTreeSet<Id<C>> = new_pkp.verifying_shares().keys().copied().collect();
    check(
        want == got,
        "the refreshed public key package lists exactly the remaining participants",
        format!("{:?}", want.iter().map(id_hex::<C>).collect::<Vec<_>>()),
        format!("{:?}", got.iter().map(id_hex::<C>).collect::<Vec<_>>()),
    )?;
    for id in remaining {
        let kp = match new_kps.get(id) {
            Some(k) => k,
            None => return skip("internal: refreshed key package missing"),
        };
        key_package_consistent::<C>(kp, new_pkp, id, p.t, "after refresh")?;
    }

    // any >= t refreshed participants can sign
    let k = rng.range(p.t as usize, remaining.len());
    let sub = rng.subset(remaining.len(), k);
    let signers: Vec<Id<C>> = sub.iter().filter_map(|i| remaining.get(*i)).copied().collect();
    notes.insert("refreshed_signers_hex".into(), json!(ids_hex::<C>(&signers)));
    let sess = run_session::<C>(rng, new_kps, &signers, &p.message, true)?;
    honest_session_checks::<C>(new_pkp, &sess, &p.message)?;

    // A signer set mixing pre- and post-refresh shares fails (with either public key package).
    // Oracle restriction (found by the self-test on the unchanged tree): if >= t holders of ONE
    // generation are in the set, the Lagrange-weighted contributions of the other generation can
    // cancel for symmetric identifier sets (e.g. t=2, signers {130,132,133,135}, old {130,135}),
    // and t holders of old shares can always sign anyway.  With 1..t-1 old AND 1..t-1 new holders
    // the refreshing polynomial's contribution vanishes only with probability 1/q.
    let t = p.t as usize;
    let k_mixed = rng.range(t, remaining.len().min(2 * t - 2).max(t));
    let sub = rng.subset(remaining.len(), k_mixed);
    let signers: Vec<Id<C>> = sub.iter().filter_map(|i| remaining.get(*i)).copied().collect();
    let lo = 1.max(signers.len().saturating_sub(t - 1));
    let hi = (t - 1).min(signers.len() - 1);
    let n_old = rng.range(lo, hi.max(lo));
    let old_pos = rng.subset(signers.len(), n_old);
    let mut mixed: BTreeMap<Id<C>, KeyPackage<C>> = BTreeMap::new();
    let mut uses_old = Vec::new();
    for (pos, id) in signers.iter().enumerate() {
        let src = if old_pos.contains(&pos) {
            uses_old.push(*id);
            old.key_packages.get(id)
        } else {
            new_kps.get(id)
        };
        match src {
            Some(kp) => {
                mixed.insert(*id, kp.clone());
            }
            None => return skip("internal: key package missing"),
        }
    }
    notes.insert("mixed_session_old_share_holders_hex".into(), json!(ids_hex::<C>(&uses_old)));
    if let Ok(sess) = run_session::<C>(rng, &mixed, &signers, &p.message, false) {
        for (which, pkp) in [("refreshed", new_pkp), ("pre-refresh", &old.pubkeys)] {
            if let Ok(sig) = fc::aggregate::<C>(&sess.package, &sess.shares, pkp) {
                return fail(
                    &format!("a signer set mixing pre-refresh and post-refresh shares fails to aggregate ({which} public key package)"),
                    "Err(..)",
                    format!(
                        "Ok({}); verifies under the group key: {}",
                        short_dbg(&sig),
                        old.pubkeys.verifying_key().verify(&p.message, &sig).is_ok()
                    ),
                );
            }
        }
    }

    // a removed participant cannot take part any more
    if let Some(gone) = removed.first() {
        let mut kps = new_kps.clone();
        if let Some(kp) = old.key_packages.get(gone) {
            kps.insert(*gone, kp.clone());
        }
        let mut signers: Vec<Id<C>> = remaining.iter().take((p.t as usize).saturating_sub(1)).copied().collect();
        signers.push(*gone);
        if let Ok(sess) = run_session::<C>(rng, &kps, &signers, &p.message, false) {
            if let Ok(sig) = fc::aggregate::<C>(&sess.package, &sess.shares, new_pkp) {
                return fail(
                    "a signer set including a removed participant fails to aggregate under the refreshed public key package",
                    "Err(..)",
                    format!("Ok({})", short_dbg(&sig)),
                );
            }
        }
    }
    Ok(())
}

fn strip_first<C: Suite>(c: &VerifiableSecretSharingCommitment<C>) -> Result<VerifiableSecretSharingCommitment<C>, Stop> {
    let mut v = need(c.serialize(), "commitment serialize")?;
    if !v.is_empty() {
        v.remove(0);
    }
    need(VerifiableSecretSharingCommitment::<C>::deserialize(v), "commitment deserialize")
}

fn outsider<C: Suite>(keys: &Keys<C>) -> Result<Id<C>, Stop> {
    let o = need(Id::<C>::derive(b"not a member of this group"), "derive")?;
    if keys.ids.contains(&o) {
        return skip("outsider collides");
    }
    Ok(o)
}

pub fn scenario_refresh_dealer<C: Suite>(rng: &mut TestRng, p: &Params, notes: &mut Notes) -> Verdict {
    let keys = keygen::<C>(rng, p, false)?;
    let (remaining, removed) = choose_remaining::<C>(rng, &keys, p, notes);

    let (shares, new_pkp) = must(
        refresh::compute_refreshing_shares::<C, _>(keys.pubkeys.clone(), &remaining, rng),
        "compute_refreshing_shares for >= t known participants",
    )?;
    check(
        shares.iter().map(|s| *s.identifier()).collect::<Vec<_>>() == remaining,
        "refreshing shares are returned in the order of the identifiers",
        format!("{:?}", ids_hex::<C>(&remaining)),
        format!("{:?}", shares.iter().map(|s| id_hex::<C>(s.identifier())).collect::<Vec<_>>()),
    )?;
    let mut new_kps = BTreeMap::new();
    for share in &shares {
        let old_kp = match keys.key_packages.get(share.identifier()) {
            Some(k) => k,
            None => return skip("internal"),
        };
        let kp = must(
            refresh::refresh_share::<C>(share.clone(), old_kp),
            "refresh_share with the honest dealer's refreshing share",
        )?;
        new_kps.insert(*share.identifier(), kp);
    }
    refreshed_state_checks::<C>(rng, p, &keys, &remaining, &removed, &new_kps, &new_pkp, notes)?;

    // --- refusals ---
    // unknown participant
    let o = outsider::<C>(&keys)?;
    let mut with_unknown = remaining.clone();
    let pos = rng.below(with_unknown.len());
    if let Some(slot) = with_unknown.get_mut(pos) {
        *slot = o;
    }
    must_refuse(
        refresh::compute_refreshing_shares::<C, _>(keys.pubkeys.clone(), &with_unknown, rng),
        "compute_refreshing_shares naming a participant that is not in the public key package",
    )?;
    // a later refresh that names a removed (now unknown) participant
    if let Some(gone) = removed.first() {
        let mut again = remaining.clone();
        again.push(*gone);
        must_refuse(
            refresh::compute_refreshing_shares::<C, _>(new_pkp.clone(), &again, rng),
            "a later compute_refreshing_shares (on the refreshed package) naming a removed participant",
        )?;
    }
    // fewer than t participants
    if p.t > 2 || remaining.len() > 1 {
        let few: Vec<Id<C>> = remaining.iter().take(p.t as usize - 1).copied().collect();
        must_refuse(
            refresh::compute_refreshing_shares::<C, _>(keys.pubkeys.clone(), &few, rng),
            "compute_refreshing_shares for fewer than min_signers participants",
        )?;
    }
    // threshold change: the dealer works from a package claiming another threshold
    let t2 = if (p.t as usize) < remaining.len() && rng.chance(60) {
        p.t + 1
    } else if p.t > 2 {
        p.t - 1
    } else {
        0
    };
    if t2 >= 2 && (t2 as usize) <= remaining.len() {
        notes.insert("attempted_threshold".into(), json!(t2));
        let lying = PublicKeyPackage::<C>::new(keys.pubkeys.verifying_shares().clone(), *keys.pubkeys.verifying_key(), Some(t2));
        if let Ok((shares2, _)) = refresh::compute_refreshing_shares::<C, _>(lying, &remaining, rng) {
            for share in shares2 {
                if let Some(old_kp) = keys.key_packages.get(share.identifier()) {
                    let who = *share.identifier();
                    must_refuse(
                        refresh::refresh_share::<C>(share, old_kp),
                        &format!(
                            "refresh_share with a refreshing share for threshold {t2} while the key package has {} (participant {})",
                            p.t,
                            id_hex::<C>(&who)
                        ),
                    )?;
                }
            }
        }
    }
    // refreshing contribution whose constant term is not zero: a fresh sharing of a random key
    let sk = fc::SigningKey::<C>::new(rng);
    let (bad_shares, _) = need(
        keys::split::<C, _>(&sk, remaining.len() as u16, p.t, IdentifierList::Custom(&remaining), rng),
        "split of a random key among the remaining participants",
    )?;
    for (id, share) in &bad_shares {
        let old_kp = match keys.key_packages.get(id) {
            Some(k) => k,
            None => continue,
        };
        // (a) with the full commitment, (b) with the constant-term commitment stripped like honest dealers do
        let stripped = SecretShare::<C>::new(*id, *share.signing_share(), strip_first::<C>(share.commitment())?);
        for (form, s) in [("full-length commitment", share.clone()), ("commitment without its first entry", stripped)] {
            if let Ok(kp) = refresh::refresh_share::<C>(s, old_kp) {
                return fail(
                    &format!("refresh_share rejects a refreshing share of a polynomial with non-zero constant term ({form})"),
                    "Err(..)",
                    format!(
                        "Ok(key package with verifying key {} and verifying share {})",
                        hex(&vkey_bytes::<C>(kp.verifying_key())),
                        hex(&vshare_bytes::<C>(kp.verifying_share()))
                    ),
                );
            }
        }
    }
    Ok(())
}

type RefreshResult<C> = BTreeMap<Id<C>, Result<(KeyPackage<C>, PublicKeyPackage<C>), (String, FErr<C>)>>;

/// One run of the distributed refresh among `ids` with parameters (n2, t2).  `outsiders` take part
/// without owning an old key package (they can only do parts one and two).  `evil` replaces the
/// named participant's contribution by a sharing with NON-zero constant term.
fn refresh_dkg_run<C: Suite>(
    rng: &mut TestRng,
    old: &Keys<C>,
    ids: &[Id<C>],
    n2: u16,
    t2: u16,
    evil: Option<Id<C>>,
) -> Result<RefreshResult<C>, Stop> {
    let mut results: RefreshResult<C> = BTreeMap::new();
    let mut r1_secret = BTreeMap::new();
    let mut r1_pkg = BTreeMap::new();
    for id in ids {
        match refresh::refresh_dkg_part1::<C, _>(*id, n2, t2, &mut *rng) {
            Ok((s, pk)) => {
                r1_secret.insert(*id, s);
                r1_pkg.insert(*id, pk);
            }
            Err(e) => {
                results.insert(*id, Err(("refresh_dkg_part1".into(), e)));
            }
        }
    }
    // the evil participant publishes the (stripped) commitment of a polynomial with non-zero constant term
    let mut evil_shares: BTreeMap<Id<C>, keys::SigningShare<C>> = BTreeMap::new();
    if let Some(ev) = evil {
        let sk = fc::SigningKey::<C>::new(rng);
        let (sh, _) = need(
            keys::split::<C, _>(&sk, ids.len() as u16, t2, IdentifierList::Custom(ids), rng),
            "split of a random key",
        )?;
        if let (Some(any), Some(honest_pkg)) = (sh.values().next(), r1_pkg.get(&ev)) {
            let c = strip_first::<C>(any.commitment())?;
            let forged = dkg::round1::Package::new(c, *honest_pkg.proof_of_knowledge());
            r1_pkg.insert(ev, forged);
        }
        for (id, s) in sh {
            evil_shares.insert(id, *s.signing_share());
        }
    }
    let mut r2_secret = BTreeMap::new();
    let mut r2_out: BTreeMap<Id<C>, BTreeMap<Id<C>, dkg::round2::Package<C>>> = BTreeMap::new();
    for id in ids {
        let s = match r1_secret.get(id) {
            Some(s) => s.clone(),
            None => continue,
        };
        let others: BTreeMap<_, _> = r1_pkg.iter().filter(|(k, _)| *k != id).map(|(k, v)| (*k, v.clone())).collect();
        match refresh::refresh_dkg_part2::<C>(s, &others) {
            Ok((s2, out)) => {
                r2_secret.insert(*id, s2);
                if Some(*id) == evil {
                    let forged: BTreeMap<_, _> = out
                        .keys()
                        .filter_map(|to| evil_shares.get(to).map(|s| (*to, dkg::round2::Package::new(*s))))
                        .collect();
                    r2_out.insert(*id, forged);
                } else {
                    r2_out.insert(*id, out);
                }
            }
            Err(e) => {
                results.insert(*id, Err(("refresh_dkg_part2".into(), e)));
            }
        }
    }
    for id in ids {
        let (s2, old_kp) = match (r2_secret.get(id), old.key_packages.get(id)) {
            (Some(a), Some(b)) => (a, b),
            _ => continue, // failed earlier, or an outsider without old key material
        };
        let r1: BTreeMap<_, _> = r1_pkg.iter().filter(|(k, _)| *k != id).map(|(k, v)| (*k, v.clone())).collect();
        let mut r2 = BTreeMap::new();
        for (sender, out) in &r2_out {
            if let Some(pk) = out.get(id) {
                r2.insert(*sender, pk.clone());
            }
        }
        let r = refresh::refresh_dkg_shares::<C>(s2, &r1, &r2, old.pubkeys.clone(), old_kp.clone());
        results.insert(*id, r.map_err(|e| ("refresh_dkg_shares".to_string(), e)));
    }
    Ok(results)
}

pub fn scenario_refresh_dkg<C: Suite>(rng: &mut TestRng, p: &Params, notes: &mut Notes) -> Verdict {
    let keys = keygen::<C>(rng, p, false)?;
    let (remaining, removed) = choose_remaining::<C>(rng, &keys, p, notes);
    let n2 = remaining.len() as u16;

    let res = refresh_dkg_run::<C>(rng, &keys, &remaining, n2, p.t, None)?;
    let mut new_kps = BTreeMap::new();
    let mut new_pkp: Option<PublicKeyPackage<C>> = None;
    for id in &remaining {
        match res.get(id) {
            Some(Ok((kp, pkp))) => {
                if let Some(first) = &new_pkp {
                    check(
                        first == pkp,
                        "all participants of the distributed refresh obtain the same public key package",
                        short_dbg(first),
                        short_dbg(pkp),
                    )?;
                } else {
                    new_pkp = Some(pkp.clone());
                }
                new_kps.insert(*id, kp.clone());
            }
            Some(Err((stepname, e))) => {
                return fail(
                    &format!("honest distributed refresh: {stepname} of participant {}", id_hex::<C>(id)),
                    "Ok(..)",
                    format!("Err({e:?})"),
                )
            }
            None => return skip("internal: no result"),
        }
    }
    let new_pkp = match new_pkp {
        Some(x) => x,
        None => return skip("internal: no participants"),
    };
    refreshed_state_checks::<C>(rng, p, &keys, &remaining, &removed, &new_kps, &new_pkp, notes)?;

    // --- refusals ---
    // threshold change
    let t2 = if p.t < n2 && rng.chance(60) {
        p.t + 1
    } else if p.t > 2 {
        p.t - 1
    } else {
        0
    };
    if t2 >= 2 && t2 <= n2 {
        notes.insert("attempted_threshold".into(), json!(t2));
        let res = refresh_dkg_run::<C>(rng, &keys, &remaining, n2, t2, None)?;
        for id in &remaining {
            if let Some(Ok((kp, pkp))) = res.get(id) {
                return fail(
                    &format!("a distributed refresh run with min_signers {t2} instead of the group's {} is rejected by every participant", p.t),
                    "Err(..) at part one, two or three",
                    format!(
                        "participant {} completed: key package threshold {}, public key package threshold {:?}",
                        id_hex::<C>(id),
                        kp.min_signers(),
                        pkp.min_signers()
                    ),
                );
            }
        }
    }
    // a participant unknown to the group joins the refresh
    let o = outsider::<C>(&keys)?;
    let mut with_unknown = remaining.clone();
    with_unknown.push(o);
    let res = refresh_dkg_run::<C>(rng, &keys, &with_unknown, n2 + 1, p.t, None)?;
    for id in &remaining {
        if let Some(Ok(_)) = res.get(id) {
            return fail(
                "a distributed refresh in which a participant unknown to the group takes part is rejected by the members",
                "Err(..)",
                format!("participant {} completed with Ok", id_hex::<C>(id)),
            );
        }
    }
    // one participant's refreshing polynomial has a non-zero constant term
    let ev = match remaining.get(rng.below(remaining.len())) {
        Some(e) => *e,
        None => return skip("internal"),
    };
    notes.insert("nonzero_constant_term_by_hex".into(), json!(id_hex::<C>(&ev)));
    let res = refresh_dkg_run::<C>(rng, &keys, &remaining, n2, p.t, Some(ev))?;
    for id in &remaining {
        if *id == ev {
            continue;
        }
        if let Some(Ok((kp, _))) = res.get(id) {
            return fail(
                "a refreshing contribution whose constant term is not zero is rejected by its receivers",
                "Err(..)",
                format!(
                    "participant {} completed with Ok (verifying key {})",
                    id_hex::<C>(id),
                    hex(&vkey_bytes::<C>(kp.verifying_key()))
                ),
            );
        }
    }
    Ok(())
}
