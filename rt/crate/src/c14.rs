//! C14: no panics.  Every decoding entry point returns for every byte string; every protocol step that
//! consumes material from other parties returns for every well-typed input (empty, oversized,
//! duplicated, mutually inconsistent, cross-session, cross-ciphersuite) while the caller's own secret
//! state is honestly generated.  Each library call runs under catch_unwind; the verdict only looks at
//! "returned or panicked", never at the returned value.

use std::collections::BTreeMap;
use std::panic::{catch_unwind, AssertUnwindSafe};

use frost_core as fc;
use frost_core::keys::dkg;
use frost_core::keys::refresh;
use frost_core::keys::repairable::{self, Delta, Sigma};
use frost_core::keys::{self, IdentifierList, KeyPackage, PublicKeyPackage, SecretShare, VerifiableSecretSharingCommitment};
use frost_core::CheaterDetection;
use serde_json::json;

use crate::common::*;
use crate::rng::TestRng;
use crate::{scn, Scenario};

pub fn scenarios() -> Vec<Scenario> {
    vec![
        scn!(scenario_decoders_do_not_panic, 2),
        scn!(scenario_signing_steps_do_not_panic, 2),
        scn!(scenario_keygen_steps_do_not_panic, 2),
        scn!(scenario_refresh_and_repair_do_not_panic, 2),
    ]
}

/// Runs `f`; a panic becomes a property failure naming the call.
fn calm<T>(what: &str, f: impl FnOnce() -> T) -> Result<T, Stop> {
    match catch_unwind(AssertUnwindSafe(f)) {
        Ok(v) => Ok(v),
        Err(payload) => {
            let (msg, loc) = crate::take_last_panic().unwrap_or_else(|| ("<panic>".into(), "<unknown>".into()));
            if crate::is_harness_location(&loc) {
                // our own bug: let the engine report it as such
                std::panic::resume_unwind(payload);
            }
            fail(&format!("{what} returns a value or an error"), "no panic", format!("panic at {loc}: {msg}"))
        }
    }
}

fn mutate(rng: &mut TestRng, b: &[u8]) -> Vec<u8> {
    let mut v = b.to_vec();
    match rng.below(8) {
        0 => v.truncate(rng.below(v.len() + 1)),
        1 => {
            let extra = rng.range(1, 64);
            v.extend_from_slice(&rng.bytes(extra))
        }
        2 => {
            for _ in 0..rng.range(1, 4) {
                if !v.is_empty() {
                    let i = rng.below(v.len());
                    if let Some(x) = v.get_mut(i) {
                        *x = rng.below(256) as u8;
                    }
                }
            }
        }
        3 => {
            // length prefixes / counts blown up
            if !v.is_empty() {
                let i = rng.below(v.len().min(64));
                if let Some(x) = v.get_mut(i) {
                    *x = 0xff;
                }
                if let Some(x) = v.get_mut(i + 1) {
                    *x = 0xff;
                }
                if let Some(x) = v.get_mut(i + 2) {
                    *x = 0x7f;
                }
            }
        }
        4 => v = rng.bytes(b.len()),
        5 => v = Vec::new(),
        6 => v = vec![0xff; b.len()],
        _ => {
            if !v.is_empty() {
                let i = rng.below(v.len());
                if let Some(x) = v.get_mut(i) {
                    *x ^= 1 << rng.below(8);
                }
            }
        }
    }
    v
}

pub fn scenario_decoders_do_not_panic<C: Suite>(rng: &mut TestRng, p: &Params, notes: &mut Notes) -> Verdict {
    let (keys, _signers, sess) = setup_session::<C>(rng, p)?;
    let run = dkg_rounds::<C>(rng, &keys.ids.iter().take(3).copied().collect::<Vec<_>>(), keys.ids.len().min(3).max(2) as u16, 2, false).ok();
    let kp = match keys.key_packages.values().next() {
        Some(k) => k.clone(),
        None => return skip("internal"),
    };
    let sig = need(fc::aggregate::<C>(&sess.package, &sess.shares, &keys.pubkeys), "aggregate")?;
    // honest encodings of everything (binary), then hostile variants of them into every decoder
    let mut encs: Vec<Vec<u8>> = vec![
        kp.serialize().unwrap_or_default(),
        keys.pubkeys.serialize().unwrap_or_default(),
        sess.package.serialize().unwrap_or_default(),
        sig.serialize().unwrap_or_default(),
        kp.identifier().serialize(),
        kp.signing_share().serialize(),
        vshare_bytes::<C>(kp.verifying_share()),
    ];
    if let Some(s) = keys.secret_shares.as_ref().and_then(|m| m.values().next()) {
        encs.push(s.serialize().unwrap_or_default());
        encs.push(s.commitment().serialize_whole().unwrap_or_default());
    }
    if let Some(n) = sess.nonces.values().next() {
        encs.push(n.serialize().unwrap_or_default());
    }
    if let Some(c) = sess.commitments.values().next() {
        encs.push(c.serialize().unwrap_or_default());
    }
    if let Some(run) = &run {
        if let Some(x) = run.r1_pkg.values().next() {
            encs.push(x.serialize().unwrap_or_default());
        }
        if let Some(x) = run.r1_secret.values().next() {
            encs.push(x.serialize().unwrap_or_default());
        }
        if let Some(x) = run.r2_secret.values().next() {
            encs.push(x.serialize().unwrap_or_default());
        }
        if let Some(x) = run.r2_out.values().next().and_then(|m| m.values().next()) {
            encs.push(x.serialize().unwrap_or_default());
        }
    }
    // an encoding of another ciphersuite
    let sib = fc::SigningPackage::<C::Sibling>::new(BTreeMap::new(), &p.message);
    encs.push(sib.serialize().unwrap_or_default());
    let mut count = 0usize;
    for _ in 0..40 {
        let base = match encs.get(rng.below(encs.len())) {
            Some(b) => b.clone(),
            None => continue,
        };
        let input = if rng.chance(10) { base } else { mutate(rng, &base) };
        let b: &[u8] = &input;
        count += 1;
        calm("KeyPackage::deserialize", || KeyPackage::<C>::deserialize(b).is_ok())?;
        calm("PublicKeyPackage::deserialize", || PublicKeyPackage::<C>::deserialize(b).is_ok())?;
        calm("SecretShare::deserialize", || SecretShare::<C>::deserialize(b).is_ok())?;
        calm("SigningPackage::deserialize", || fc::SigningPackage::<C>::deserialize(b).is_ok())?;
        calm("SigningNonces::deserialize", || fc::round1::SigningNonces::<C>::deserialize(b).is_ok())?;
        calm("SigningCommitments::deserialize", || fc::round1::SigningCommitments::<C>::deserialize(b).is_ok())?;
        calm("SignatureShare::deserialize", || fc::round2::SignatureShare::<C>::deserialize(b).is_ok())?;
        calm("Signature::deserialize", || fc::Signature::<C>::deserialize(b).is_ok())?;
        calm("Identifier::deserialize", || Id::<C>::deserialize(b).is_ok())?;
        calm("SigningKey::deserialize", || fc::SigningKey::<C>::deserialize(b).is_ok())?;
        calm("VerifyingKey::deserialize", || fc::VerifyingKey::<C>::deserialize(b).is_ok())?;
        calm("SigningShare::deserialize", || keys::SigningShare::<C>::deserialize(b).is_ok())?;
        calm("VerifyingShare::deserialize", || keys::VerifyingShare::<C>::deserialize(b).is_ok())?;
        calm("CoefficientCommitment::deserialize", || keys::CoefficientCommitment::<C>::deserialize(b).is_ok())?;
        calm("VerifiableSecretSharingCommitment::deserialize_whole", || VerifiableSecretSharingCommitment::<C>::deserialize_whole(b).is_ok())?;
        calm("VerifiableSecretSharingCommitment::deserialize", || {
            VerifiableSecretSharingCommitment::<C>::deserialize(b.chunks(7).map(|c| c.to_vec()).collect::<Vec<_>>()).is_ok()
        })?;
        calm("Nonce::deserialize", || fc::round1::Nonce::<C>::deserialize(b).is_ok())?;
        calm("NonceCommitment::deserialize", || fc::round1::NonceCommitment::<C>::deserialize(b).is_ok())?;
        calm("dkg::round1::Package::deserialize", || dkg::round1::Package::<C>::deserialize(b).is_ok())?;
        calm("dkg::round2::Package::deserialize", || dkg::round2::Package::<C>::deserialize(b).is_ok())?;
        calm("dkg::round1::SecretPackage::deserialize", || dkg::round1::SecretPackage::<C>::deserialize(b).is_ok())?;
        calm("dkg::round2::SecretPackage::deserialize", || dkg::round2::SecretPackage::<C>::deserialize(b).is_ok())?;
        calm("Delta::deserialize", || Delta::<C>::deserialize(b).is_ok())?;
        calm("Sigma::deserialize", || Sigma::<C>::deserialize(b).is_ok())?;
        calm("Randomizer::deserialize", || frost_rerandomized::Randomizer::<C>::deserialize(b).is_ok())?;
        calm("Identifier::derive", || Id::<C>::derive(b).is_ok())?;
    }
    // oversized variants of the signature encoding (and of every other honest encoding) into the signature decoder
    for base in &encs {
        for extra in [1usize, 2, 32, 64, 1000] {
            let mut v = base.clone();
            v.extend_from_slice(&rng.bytes(extra));
            calm("Signature::deserialize (oversized input)", || fc::Signature::<C>::deserialize(&v).is_ok())?;
            let text = serde_json::to_string(&hex(&v)).unwrap_or_default();
            calm("serde_json -> Signature (oversized hex)", || serde_json::from_str::<fc::Signature<C>>(&text).is_ok())?;
        }
    }
    // JSON decoders on structurally hostile documents
    let docs = [
        "{}", "[]", "null", "0", "\"\"", "{\"header\":{}}", "{\"header\":{\"version\":0,\"ciphersuite\":\"x\"}}",
        "{\"header\":{\"version\":-1}}", "{\"header\":{\"version\":256}}", "[[[[[[[[[[]]]]]]]]]]",
        "{\"signing_commitments\":{\"00\":{}},\"message\":\"zz\"}", "{\"identifier\":\"\",\"signing_share\":\"\"}",
    ];
    for d in docs {
        calm("serde_json -> KeyPackage", || serde_json::from_str::<KeyPackage<C>>(d).is_ok())?;
        calm("serde_json -> PublicKeyPackage", || serde_json::from_str::<PublicKeyPackage<C>>(d).is_ok())?;
        calm("serde_json -> SigningPackage", || serde_json::from_str::<fc::SigningPackage<C>>(d).is_ok())?;
        calm("serde_json -> SecretShare", || serde_json::from_str::<SecretShare<C>>(d).is_ok())?;
        calm("serde_json -> round1::Package", || serde_json::from_str::<dkg::round1::Package<C>>(d).is_ok())?;
        calm("serde_json -> Signature", || serde_json::from_str::<fc::Signature<C>>(d).is_ok())?;
        calm("serde_json -> Identifier", || serde_json::from_str::<Id<C>>(d).is_ok())?;
    }
    // honest JSON with one string member replaced by hostile text
    if let Ok(mut j) = serde_json::to_value(&kp) {
        for key in ["identifier", "signing_share", "verifying_share", "verifying_key"] {
            for bad in ["", "0", "zz", "00", &"f".repeat(1000), &"00".repeat(31), &"00".repeat(33)] {
                let saved = j[key].clone();
                j[key] = json!(bad);
                let doc = j.clone();
                calm("serde_json -> KeyPackage (hostile member)", || serde_json::from_value::<KeyPackage<C>>(doc).is_ok())?;
                j[key] = saved;
            }
        }
    }
    notes.insert("hostile_byte_strings".into(), json!(count));
    Ok(())
}

pub fn scenario_signing_steps_do_not_panic<C: Suite>(rng: &mut TestRng, p: &Params, notes: &mut Notes) -> Verdict {
    let (keys, signers, a) = setup_session::<C>(rng, p)?;
    let b = run_session::<C>(rng, &keys.key_packages, &signers, b"another concurrent session", false)?;
    let me = match signers.get(rng.below(signers.len())) {
        Some(i) => *i,
        None => return skip("internal"),
    };
    let (kp, nonces) = match (keys.key_packages.get(&me), a.nonces.get(&me)) {
        (Some(k), Some(n)) => (k, n),
        _ => return skip("internal"),
    };
    let outsider = need(Id::<C>::derive(b"nobody"), "derive")?;
    let vk = keys.pubkeys.verifying_key();
    // hostile signing packages
    let mut packages: Vec<(&str, fc::SigningPackage<C>)> = vec![
        ("empty package", fc::SigningPackage::<C>::new(BTreeMap::new(), &p.message)),
        ("package of a concurrent session", b.package.clone()),
    ];
    let mut only_me = BTreeMap::new();
    if let Some(c) = a.commitments.get(&me) {
        only_me.insert(me, *c);
        packages.push(("package with only the signer itself", fc::SigningPackage::<C>::new(only_me.clone(), &p.message)));
        // the same commitment pair filed under every participant and an outsider
        let mut dup = BTreeMap::new();
        for id in keys.ids.iter().chain(std::iter::once(&outsider)) {
            dup.insert(*id, *c);
        }
        packages.push(("one commitment pair duplicated under every identifier", fc::SigningPackage::<C>::new(dup, &p.message)));
    }
    let mut without_me = a.commitments.clone();
    without_me.remove(&me);
    packages.push(("package without the signer", fc::SigningPackage::<C>::new(without_me, &p.message)));
    let mut with_outsider = a.commitments.clone();
    if let Some(c) = b.commitments.values().next() {
        with_outsider.insert(outsider, *c);
    }
    packages.push(("package with an unknown participant", fc::SigningPackage::<C>::new(with_outsider, &p.message)));
    let huge = rng.bytes(200_000);
    packages.push(("package with a 200 kB message", fc::SigningPackage::<C>::new(a.commitments.clone(), &huge)));
    notes.insert("hostile_packages".into(), json!(packages.len()));

    // hostile share maps and public key packages
    let mut share_maps: Vec<(&str, BTreeMap<Id<C>, fc::round2::SignatureShare<C>>)> = vec![
        ("no shares", BTreeMap::new()),
        ("shares of the honest session", a.shares.clone()),
        ("shares of a concurrent session", b.shares.clone()),
    ];
    let mut extra = a.shares.clone();
    if let Some(s) = a.shares.values().next() {
        extra.insert(outsider, *s);
        let mut dup = BTreeMap::new();
        for id in &keys.ids {
            dup.insert(*id, *s);
        }
        share_maps.push(("one share duplicated under every identifier", dup));
    }
    share_maps.push(("a share under an unknown identifier", extra));
    let empty_pkp = PublicKeyPackage::<C>::new(BTreeMap::new(), *vk, keys.pubkeys.min_signers());
    let mut pkps: Vec<(&str, PublicKeyPackage<C>)> = vec![
        ("genuine", keys.pubkeys.clone()),
        ("no verifying shares", empty_pkp),
        ("min_signers None", PublicKeyPackage::<C>::new(keys.pubkeys.verifying_shares().clone(), *vk, None)),
        ("min_signers 0", PublicKeyPackage::<C>::new(keys.pubkeys.verifying_shares().clone(), *vk, Some(0))),
        ("min_signers 65535", PublicKeyPackage::<C>::new(keys.pubkeys.verifying_shares().clone(), *vk, Some(u16::MAX))),
    ];
    // verifying shares that belong to other participants
    let mut rotated = BTreeMap::new();
    let vals: Vec<_> = keys.pubkeys.verifying_shares().values().copied().collect();
    for (k, id) in keys.pubkeys.verifying_shares().keys().enumerate() {
        if let Some(v) = vals.get((k + 1) % vals.len()) {
            rotated.insert(*id, *v);
        }
    }
    pkps.push(("verifying shares rotated", PublicKeyPackage::<C>::new(rotated, *vk, keys.pubkeys.min_signers())));

    for (pname, pkg) in &packages {
        calm(&format!("round2::sign ({pname})"), || fc::round2::sign::<C>(pkg, nonces, kp).is_ok())?;
        // a key package whose threshold field is extreme (still honest share)
        for m in [0u16, 1, u16::MAX] {
            let k2 = KeyPackage::<C>::new(*kp.identifier(), *kp.signing_share(), *kp.verifying_share(), *kp.verifying_key(), m);
            calm(&format!("round2::sign ({pname}, key package min_signers {m})"), || fc::round2::sign::<C>(pkg, nonces, &k2).is_ok())?;
        }
        for (sname, shares) in &share_maps {
            for (kname, pkp) in &pkps {
                for mode in [CheaterDetection::Disabled, CheaterDetection::FirstCheater, CheaterDetection::AllCheaters] {
                    calm(&format!("aggregate_custom ({pname}; {sname}; public key package: {kname})"), || {
                        fc::aggregate_custom::<C>(pkg, shares, pkp, mode).is_ok()
                    })?;
                }
            }
        }
        for id in [me, outsider] {
            if let (Some(vs), Some(sh)) = (keys.pubkeys.verifying_shares().values().next(), a.shares.values().next()) {
                calm(&format!("verify_signature_share ({pname})"), || fc::verify_signature_share::<C>(id, vs, sh, pkg, vk).is_ok())?;
            }
        }
    }
    // rerandomized entry points with hostile seeds
    for seed in [Vec::new(), vec![0u8; 1], rng.bytes(1000)] {
        calm("sign_with_randomizer_seed", || frost_rerandomized::sign_with_randomizer_seed::<C>(&a.package, nonces, kp, &seed).is_ok())?;
        calm("RandomizedParams::regenerate_from_seed_and_commitments (empty commitments)", || {
            frost_rerandomized::RandomizedParams::<C>::regenerate_from_seed_and_commitments(vk, &seed, &BTreeMap::new()).is_ok()
        })?;
    }
    // batch verification: empty batch and garbage items
    calm("batch::Verifier::verify (empty)", || fc::batch::Verifier::<C>::new().verify(&mut *rng).is_ok())?;
    Ok(())
}

pub fn scenario_keygen_steps_do_not_panic<C: Suite>(rng: &mut TestRng, p: &Params, notes: &mut Notes) -> Verdict {
    let ids = make_ids::<C>(&p.ids)?;
    let a = dkg_rounds::<C>(rng, &ids, p.n, p.t, false)?;
    // a concurrent run with other parameters
    let (n2, t2) = if p.n > 2 { (p.n - 1, 2) } else { (3, 3) };
    let ids2: Vec<Id<C>> = if p.n > 2 { ids.iter().take(n2 as usize).copied().collect() } else { make_ids::<C>(&gen_ids(rng, "sparse-ascending", 3))? };
    let b = dkg_rounds::<C>(rng, &ids2, n2, t2, false)?;
    let me = match ids.get(rng.below(ids.len())) {
        Some(i) => *i,
        None => return skip("internal"),
    };
    let outsider = need(Id::<C>::derive(b"nobody"), "derive")?;
    let (s1, s2) = match (a.r1_secret.get(&me), a.r2_secret.get(&me)) {
        (Some(x), Some(y)) => (x.clone(), y.clone()),
        _ => return skip("internal"),
    };
    let empty_commitment = need(VerifiableSecretSharingCommitment::<C>::deserialize(Vec::<Vec<u8>>::new()), "empty commitment")?;
    let any_pkg = match a.r1_pkg.values().next() {
        Some(x) => x.clone(),
        None => return skip("internal"),
    };
    let long_commitment = {
        let mut list = any_pkg.commitment().serialize().unwrap_or_default();
        let first = list.first().cloned().unwrap_or_default();
        for _ in 0..300 {
            list.push(first.clone());
        }
        need(VerifiableSecretSharingCommitment::<C>::deserialize(list), "long commitment")?
    };
    // hostile round-one maps
    let honest_r1 = a.r1_for(&me);
    let mut r1_maps: Vec<(&str, BTreeMap<Id<C>, dkg::round1::Package<C>>)> = vec![
        ("empty", BTreeMap::new()),
        ("all packages incl. own", a.r1_pkg.clone()),
        ("packages of a concurrent run with other parameters", b.r1_pkg.clone()),
    ];
    let mut dup = BTreeMap::new();
    for id in honest_r1.keys() {
        dup.insert(*id, any_pkg.clone());
    }
    r1_maps.push(("one package duplicated under every identifier", dup));
    let mut with_empty = honest_r1.clone();
    if let Some(k) = honest_r1.keys().next() {
        with_empty.insert(*k, dkg::round1::Package::new(empty_commitment.clone(), *any_pkg.proof_of_knowledge()));
    }
    r1_maps.push(("a package with an empty commitment", with_empty));
    let mut with_long = honest_r1.clone();
    if let Some(k) = honest_r1.keys().next() {
        with_long.insert(*k, dkg::round1::Package::new(long_commitment.clone(), *any_pkg.proof_of_knowledge()));
    }
    r1_maps.push(("a package with a 300-coefficient commitment", with_long));
    let mut with_outsider = honest_r1.clone();
    if let Some(k) = honest_r1.keys().next().copied() {
        if let Some(v) = with_outsider.remove(&k) {
            with_outsider.insert(outsider, v);
        }
    }
    r1_maps.push(("a package filed under an unknown identifier", with_outsider));
    r1_maps.push(("honest", honest_r1.clone()));
    // hostile round-two maps
    let honest_r2 = a.r2_for(&me);
    let mut r2_maps: Vec<(&str, BTreeMap<Id<C>, dkg::round2::Package<C>>)> = vec![
        ("empty", BTreeMap::new()),
        ("honest", honest_r2.clone()),
        ("shares of a concurrent run", b.r2_out.values().next().cloned().unwrap_or_default()),
    ];
    let mut r2_dup = BTreeMap::new();
    if let Some(v) = honest_r2.values().next() {
        for id in ids.iter().chain(std::iter::once(&outsider)) {
            r2_dup.insert(*id, v.clone());
        }
    }
    r2_maps.push(("one share duplicated under every identifier incl. own and unknown", r2_dup));
    notes.insert("hostile_round1_maps".into(), json!(r1_maps.len()));
    for (n1, r1) in &r1_maps {
        calm(&format!("dkg::part2 ({n1})"), || dkg::part2::<C>(s1.clone(), r1).is_ok())?;
        for (n2, r2) in &r2_maps {
            calm(&format!("dkg::part3 (round one: {n1}; round two: {n2})"), || dkg::part3::<C>(&s2, r1, r2).is_ok())?;
        }
    }
    // dealer shares from elsewhere
    let share = make_signing_share::<C>(&random_nonzero_scalar::<C>(rng))?;
    for (cname, c) in [("empty commitment", &empty_commitment), ("300-coefficient commitment", &long_commitment)] {
        let s = SecretShare::<C>::new(me, share, c.clone());
        calm(&format!("SecretShare::verify ({cname})"), || s.verify().is_ok())?;
        calm(&format!("KeyPackage::try_from ({cname})"), || KeyPackage::<C>::try_from(s.clone()).is_ok())?;
    }
    calm("PublicKeyPackage::from_dkg_commitments (empty map)", || PublicKeyPackage::<C>::from_dkg_commitments(&BTreeMap::new()).is_ok())?;
    let mut m = BTreeMap::new();
    m.insert(me, &empty_commitment);
    calm("PublicKeyPackage::from_dkg_commitments (empty commitment)", || PublicKeyPackage::<C>::from_dkg_commitments(&m).is_ok())?;
    // commitments of different lengths, in both orders (which one is "first" is decided by the identifier order)
    let short_commitment = {
        let mut list = any_pkg.commitment().serialize().unwrap_or_default();
        list.truncate(1);
        need(VerifiableSecretSharingCommitment::<C>::deserialize(list), "short commitment")?
    };
    let (lo, hi) = if me < outsider { (me, outsider) } else { (outsider, me) };
    for (what, first, second) in [
        ("longer one first", &long_commitment, any_pkg.commitment()),
        ("shorter one first", any_pkg.commitment(), &long_commitment),
        ("one-coefficient commitment second", any_pkg.commitment(), &short_commitment),
        ("one-coefficient commitment first", &short_commitment, any_pkg.commitment()),
        ("empty commitment second", any_pkg.commitment(), &empty_commitment),
    ] {
        let mut m = BTreeMap::new();
        m.insert(lo, first);
        m.insert(hi, second);
        calm(&format!("PublicKeyPackage::from_dkg_commitments (commitments of different lengths, {what})"), || {
            PublicKeyPackage::<C>::from_dkg_commitments(&m).is_ok()
        })?;
    }
    // the same through part3: a peer (ran part1 with a lower / higher threshold) whose round-two share is
    // consistent with its own commitment, so that the per-sender check passes
    for t_bad in [p.t.saturating_sub(1).max(1), p.t + 1] {
        if t_bad < 2 || t_bad == p.t {
            continue;
        }
        for peer in ids.iter().filter(|i| **i != me) {
            let n_bad = p.n.max(t_bad);
            if let Ok((bad_secret, bad_pkg)) = dkg::part1::<C, _>(*peer, n_bad, t_bad, &mut *rng) {
                // its share for `me`, from its coefficients (public serde form of its own state)
                let share = serde_json::to_value(&bad_secret).ok().and_then(|j| {
                    let x = scalar_from_bytes::<C>(&me.serialize())?;
                    let mut acc = zero::<C>();
                    for c in j.get("coefficients")?.as_array()?.iter().rev() {
                        acc = acc * x + scalar_from_bytes::<C>(&unhex(c.as_str()?)?)?;
                    }
                    frost_core::keys::SigningShare::<C>::deserialize(&scalar_bytes::<C>(&acc)).ok()
                });
                if let Some(share) = share {
                    let mut r1 = a.r1_for(&me);
                    let mut r2 = a.r2_for(&me);
                    r1.insert(*peer, bad_pkg);
                    r2.insert(*peer, dkg::round2::Package::new(share));
                    calm(&format!("dkg::part3 (one peer with a consistent {t_bad}-coefficient contribution)"), || dkg::part3::<C>(&s2, &r1, &r2).is_ok())?;
                }
            }
        }
    }
    calm("PublicKeyPackage::from_commitment (no identifiers)", || {
        PublicKeyPackage::<C>::from_commitment(&Default::default(), &empty_commitment).is_ok()
    })?;
    // parameter extremes of the entry points
    for (n, t) in [(0u16, 0u16), (1, 1), (2, 1), (1, 2), (2, 3), (u16::MAX, 2), (3, u16::MAX), (2, 0)] {
        calm(&format!("dkg::part1({n},{t})"), || dkg::part1::<C, _>(me, n, t, &mut *rng).is_ok())?;
        if n < 1000 {
            calm(&format!("generate_with_dealer({n},{t},Default)"), || keys::generate_with_dealer::<C, _>(n, t, IdentifierList::Default, &mut *rng).is_ok())?;
        }
        calm(&format!("generate_with_dealer({n},{t},Custom(ids))"), || keys::generate_with_dealer::<C, _>(n, t, IdentifierList::Custom(&ids), &mut *rng).is_ok())?;
        calm(&format!("generate_with_dealer({n},{t},Custom([]))"), || keys::generate_with_dealer::<C, _>(n, t, IdentifierList::Custom(&[]), &mut *rng).is_ok())?;
    }
    calm("reconstruct (no packages)", || keys::reconstruct::<C>(&[]).is_ok())?;
    Ok(())
}

pub fn scenario_refresh_and_repair_do_not_panic<C: Suite>(rng: &mut TestRng, p: &Params, notes: &mut Notes) -> Verdict {
    let keys = keygen::<C>(rng, p, false)?;
    let me = match keys.ids.get(rng.below(keys.ids.len())) {
        Some(i) => *i,
        None => return skip("internal"),
    };
    let kp = match keys.key_packages.get(&me) {
        Some(k) => k.clone(),
        None => return skip("internal"),
    };
    let vk = *keys.pubkeys.verifying_key();
    let outsider = need(Id::<C>::derive(b"nobody"), "derive")?;
    let empty_commitment = need(VerifiableSecretSharingCommitment::<C>::deserialize(Vec::<Vec<u8>>::new()), "empty commitment")?;
    let pkps: Vec<(&str, PublicKeyPackage<C>)> = vec![
        ("genuine", keys.pubkeys.clone()),
        ("no verifying shares", PublicKeyPackage::<C>::new(BTreeMap::new(), vk, Some(p.t))),
        ("min_signers None", PublicKeyPackage::<C>::new(keys.pubkeys.verifying_shares().clone(), vk, None)),
        ("min_signers 0", PublicKeyPackage::<C>::new(keys.pubkeys.verifying_shares().clone(), vk, Some(0))),
        ("min_signers 1", PublicKeyPackage::<C>::new(keys.pubkeys.verifying_shares().clone(), vk, Some(1))),
        ("min_signers 65535", PublicKeyPackage::<C>::new(keys.pubkeys.verifying_shares().clone(), vk, Some(u16::MAX))),
    ];
    let mut dup_ids = keys.ids.clone();
    dup_ids.extend(keys.ids.iter().copied());
    let mut with_outsider = keys.ids.clone();
    with_outsider.push(outsider);
    let id_lists: Vec<(&str, Vec<Id<C>>)> = vec![
        ("no identifiers", vec![]),
        ("one identifier", vec![me]),
        ("all", keys.ids.clone()),
        ("all twice", dup_ids),
        ("with an unknown one", with_outsider),
    ];
    notes.insert("combinations".into(), json!(pkps.len() * id_lists.len()));
    for (pn, pkp) in &pkps {
        for (ln, list) in &id_lists {
            calm(&format!("compute_refreshing_shares (package: {pn}; identifiers: {ln})"), || {
                refresh::compute_refreshing_shares::<C, _>(pkp.clone(), list, &mut *rng).is_ok()
            })?;
        }
        calm(&format!("repair_share_part3 (package: {pn}; no sigmas)"), || repairable::repair_share_part3::<C>(&[], me, pkp).is_ok())?;
    }
    // refreshing shares from a hostile dealer
    let some_share = make_signing_share::<C>(&random_nonzero_scalar::<C>(rng))?;
    let honest_commitment = keys.secret_shares.as_ref().and_then(|m| m.values().next()).map(|s| s.commitment().clone());
    let mut commitments = vec![("empty commitment", empty_commitment.clone())];
    if let Some(c) = honest_commitment {
        commitments.push(("full-length commitment", c));
    }
    for (cn, c) in &commitments {
        for id in [me, outsider] {
            let s = SecretShare::<C>::new(id, some_share, c.clone());
            calm(&format!("refresh_share ({cn})"), || refresh::refresh_share::<C>(s.clone(), &kp).is_ok())?;
        }
    }
    // distributed refresh with hostile packages
    let n = keys.ids.len() as u16;
    if let Ok((s1, pk1)) = refresh::refresh_dkg_part1::<C, _>(me, n, p.t, &mut *rng) {
        let mut maps: Vec<(&str, BTreeMap<Id<C>, dkg::round1::Package<C>>)> = vec![("empty", BTreeMap::new())];
        let mut dup = BTreeMap::new();
        for id in keys.ids.iter().filter(|i| **i != me) {
            dup.insert(*id, pk1.clone());
        }
        maps.push(("own package duplicated under every peer", dup.clone()));
        let mut with_empty = dup.clone();
        if let Some(k) = dup.keys().next() {
            with_empty.insert(*k, dkg::round1::Package::new(empty_commitment.clone(), *pk1.proof_of_knowledge()));
        }
        maps.push(("a package with an empty commitment", with_empty));
        // ordinary DKG packages (full-length commitments) fed into the refresh
        if let Ok(run) = dkg_rounds::<C>(rng, &keys.ids, p.n, p.t, false) {
            maps.push(("ordinary DKG packages", run.r1_for(&me)));
        }
        for (mn, m) in &maps {
            let r = calm(&format!("refresh_dkg_part2 ({mn})"), || refresh::refresh_dkg_part2::<C>(s1.clone(), m))?;
            if let Ok((s2, out)) = r {
                for (rn, r2) in [("empty", BTreeMap::new()), ("own outgoing shares", out.clone())] {
                    calm(&format!("refresh_dkg_shares (round one: {mn}; round two: {rn})"), || {
                        refresh::refresh_dkg_shares::<C>(&s2, m, &r2, keys.pubkeys.clone(), kp.clone()).is_ok()
                    })?;
                    calm(&format!("refresh_dkg_shares (round one: {mn}; round two: {rn}; empty public key package)"), || {
                        refresh::refresh_dkg_shares::<C>(&s2, m, &r2, PublicKeyPackage::<C>::new(BTreeMap::new(), vk, None), kp.clone()).is_ok()
                    })?;
                }
            }
        }
    }
    for (n, t) in [(0u16, 0u16), (1, 1), (2, 1), (1, 2), (2, 3), (u16::MAX, 2), (3, u16::MAX)] {
        calm(&format!("refresh_dkg_part1({n},{t})"), || refresh::refresh_dkg_part1::<C, _>(me, n, t, &mut *rng).is_ok())?;
    }
    // repair with hostile helper lists and values
    let helper_lists: Vec<(&str, Vec<Id<C>>)> = vec![
        ("no helpers", vec![]),
        ("only the caller", vec![me]),
        ("caller many times", vec![me; 20]),
        ("only unknown helpers", vec![outsider; (p.t as usize).max(2)]),
        ("everybody twice", keys.ids.iter().chain(keys.ids.iter()).copied().collect()),
    ];
    for (hn, h) in &helper_lists {
        for target in [me, outsider] {
            calm(&format!("repair_share_part1 ({hn})"), || repairable::repair_share_part1::<C, _>(h, &kp, &mut *rng, target).is_ok())?;
        }
    }
    calm("repair_share_part2 (no deltas)", || repairable::repair_share_part2::<C>(&[]).serialize())?;
    // key packages with extreme threshold fields
    for m in [0u16, 1, u16::MAX] {
        let k2 = KeyPackage::<C>::new(me, *kp.signing_share(), *kp.verifying_share(), vk, m);
        calm(&format!("repair_share_part1 (key package min_signers {m})"), || repairable::repair_share_part1::<C, _>(&keys.ids, &k2, &mut *rng, outsider).is_ok())?;
        calm(&format!("reconstruct (key package min_signers {m})"), || keys::reconstruct::<C>(&[k2.clone(), k2.clone()]).is_ok())?;
    }
    Ok(())
}
