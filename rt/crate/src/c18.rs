//! C18 (Taproot suite only): the 64-byte signature verifies with an INDEPENDENT BIP-340 verifier
//! (libsecp256k1, see indep.rs) under the x-only output key computed as in BIP-341 from the internal
//! key and the script-tree root (computed independently with sha2 + libsecp256k1), for dealer and DKG
//! keys, with and without root, in every parity case; not under the untweaked key when a tweak was
//! requested; share verification and cheater identification agree in every parity case; the DKG
//! outputs the key-path-only tweaked key.

use std::collections::BTreeMap;

use frost_core as fc;
use frost_core::keys::CoefficientCommitment;
use frost_core::Group;
use frost_secp256k1_tr as tr;
use frost_secp256k1_tr::keys::Tweak;
use serde_json::json;

use crate::common::*;
use crate::indep::{bip340_verify, bip341_output_key};
use crate::rng::TestRng;
use crate::{scn_tr, Scenario};

type T = tr::Secp256K1Sha256TR;

pub fn scenarios() -> Vec<Scenario> {
    vec![
        scn_tr!(scenario_taproot_signing),
        scn_tr!(scenario_taproot_dkg_key),
        scn_tr!(scenario_taproot_cheaters),
        crate::wrap::scn_taproot_tweak(1),
    ]
}

fn xonly(vk: &fc::VerifyingKey<T>) -> Result<(Vec<u8>, bool), Stop> {
    let b = vkey_bytes::<T>(vk);
    match (b.first(), b.get(1..33)) {
        (Some(tag), Some(x)) if b.len() == 33 => Ok((x.to_vec(), *tag == 0x03)),
        _ => skip("verifying key is not a 33-byte SEC1 encoding"),
    }
}

/// None = plain signing (no tweak requested), Some(None) = key-path-only tweak, Some(Some(root))
fn choose_tweak(rng: &mut TestRng, notes: &mut Notes) -> Option<Option<Vec<u8>>> {
    let t = match rng.below(5) {
        0 => None,
        1 => Some(None),
        2 => {
            // the API takes arbitrary tweak data; BIP-341 hashes all of it
            let len = [0usize, 1, 31, 33, 64, 100][rng.below(6)];
            Some(Some(rng.bytes(len)))
        }
        _ => Some(Some(rng.bytes(32))),
    };
    notes.insert(
        "tweak".into(),
        match &t {
            None => json!("none requested"),
            Some(None) => json!("key-path only (no merkle root)"),
            Some(Some(r)) => json!(format!("merkle root {}", hex(r))),
        },
    );
    t
}

struct TrSession {
    keys: Keys<T>,
    signers: Vec<Id<T>>,
    package: fc::SigningPackage<T>,
    shares: BTreeMap<Id<T>, fc::round2::SignatureShare<T>>,
    tweak: Option<Option<Vec<u8>>>,
}

fn tr_session(rng: &mut TestRng, p: &Params, notes: &mut Notes, strict: bool) -> Result<TrSession, Stop> {
    let keys = keygen::<T>(rng, p, false)?;
    let signers = signer_ids::<T>(&keys, p);
    let tweak = choose_tweak(rng, notes);
    let (nonces, commitments) = commit_all::<T>(rng, &keys.key_packages, &signers)?;
    let package = fc::SigningPackage::<T>::new(commitments, &p.message);
    let mut shares = BTreeMap::new();
    for id in &signers {
        let (kp, n) = match (keys.key_packages.get(id), nonces.get(id)) {
            (Some(k), Some(n)) => (k, n),
            _ => return skip("internal"),
        };
        let r = match &tweak {
            None => tr::round2::sign(&package, n, kp),
            Some(root) => tr::round2::sign_with_tweak(&package, n, kp, root.as_deref()),
        };
        shares.insert(*id, step(strict, r, "Taproot round2::sign / sign_with_tweak by an honest signer")?);
    }
    Ok(TrSession {
        keys,
        signers,
        package,
        shares,
        tweak,
    })
}

fn aggregate(s: &TrSession, shares: &BTreeMap<Id<T>, fc::round2::SignatureShare<T>>) -> Result<fc::Signature<T>, FErr<T>> {
    match &s.tweak {
        None => tr::aggregate(&s.package, shares, &s.keys.pubkeys),
        Some(root) => tr::aggregate_with_tweak(&s.package, shares, &s.keys.pubkeys, root.as_deref()),
    }
}

pub fn scenario_taproot_signing(rng: &mut TestRng, p: &Params, notes: &mut Notes) -> Verdict {
    let s = tr_session(rng, p, notes, true)?;
    let sig = must(aggregate(&s, &s.shares), "Taproot aggregate / aggregate_with_tweak of honest shares")?;
    let sig_bytes = must(sig.serialize(), "Signature::serialize")?;
    check(sig_bytes.len() == 64, "the Taproot signature encoding has 64 bytes", "64", sig_bytes.len().to_string())?;
    let (internal_x, internal_odd) = xonly(s.keys.pubkeys.verifying_key())?;
    // expected output key, computed without the library
    let (expected_x, expected_odd) = match &s.tweak {
        None => (internal_x.clone(), internal_odd),
        Some(root) => {
            let (x, odd) = need(bip341_output_key(&internal_x, root.as_deref()), "independent BIP-341 computation")?;
            (x.to_vec(), odd)
        }
    };
    let r_odd = elem_bytes::<T>(sig.R()).first() == Some(&0x03);
    notes.insert("parity".into(), json!({"internal_key_odd": internal_odd, "output_key_odd": expected_odd, "group_commitment_odd": r_odd}));
    // the library's own idea of the output key
    if let Some(root) = &s.tweak {
        let tweaked = s.keys.pubkeys.clone().tweak(root.as_deref());
        let (lib_x, lib_odd) = xonly(tweaked.verifying_key())?;
        check(
            lib_x == expected_x && lib_odd == expected_odd,
            "the tweaked group key equals the BIP-341 output key Q = lift_x(P) + hashTapTweak(P || root) G (independent computation)",
            format!("{} (odd y: {expected_odd})", hex(&expected_x)),
            format!("{} (odd y: {lib_odd})", hex(&lib_x)),
        )?;
        must(tweaked.verifying_key().verify(&p.message, &sig), "the signature verifies under the tweaked key (library verifier)")?;
    } else {
        must(s.keys.pubkeys.verifying_key().verify(&p.message, &sig), "the signature verifies under the group key (library verifier)")?;
    }
    // independent BIP-340 verification under the x-only output key
    must(
        bip340_verify(&expected_x, &p.message, &sig_bytes),
        "independent BIP-340 verification (libsecp256k1) of the 64-byte signature under the BIP-341 x-only output key",
    )?;
    // not under the untweaked key when a tweak was requested
    if s.tweak.is_some() {
        if bip340_verify(&internal_x, &p.message, &sig_bytes).is_ok() {
            return fail("the signature does not verify under the untweaked key (independent verifier)", "Err(..)", "Ok(())");
        }
        if s.keys.pubkeys.verifying_key().verify(&p.message, &sig).is_ok() {
            return fail("the signature does not verify under the untweaked key (library verifier)", "Err(..)", "Ok(())");
        }
    }
    // every honest share passes the share check against the (tweaked) public key package
    let pkp = match &s.tweak {
        None => s.keys.pubkeys.clone(),
        Some(root) => s.keys.pubkeys.clone().tweak(root.as_deref()),
    };
    for (id, sh) in &s.shares {
        let vs = match pkp.verifying_shares().get(id) {
            Some(v) => v,
            None => return fail("tweaked public key package keeps every participant", id_hex::<T>(id), "missing"),
        };
        must(
            fc::verify_signature_share::<T>(*id, vs, sh, &s.package, pkp.verifying_key()),
            &format!("verify_signature_share of an honest Taproot share (group commitment odd: {r_odd}, internal key odd: {internal_odd}, output key odd: {expected_odd})"),
        )?;
    }
    Ok(())
}

/// The DKG outputs the key-path-only tweaked key: Q = lift_x(P) + hashTapTweak(P) G with P the sum of
/// the participants' constant-term commitments.
pub fn scenario_taproot_dkg_key(rng: &mut TestRng, p: &Params, notes: &mut Notes) -> Verdict {
    let ids = make_ids::<T>(&p.ids)?;
    let run = dkg_rounds::<T>(rng, &ids, p.n, p.t, false)?;
    let fin = dkg_finish::<T>(&run, false)?;
    let mut sum = <Gr<T> as Group>::identity();
    for pkg in run.r1_pkg.values() {
        let c0 = pkg.commitment().serialize().ok().and_then(|v| v.first().cloned());
        match c0.and_then(|b| CoefficientCommitment::<T>::deserialize(&b).ok()) {
            Some(c) => sum = sum + c.value(),
            None => return skip("constant-term commitment"),
        }
    }
    let pb = elem_bytes::<T>(&sum);
    let internal_x = match pb.get(1..33) {
        Some(x) => x.to_vec(),
        None => return skip("sum encoding"),
    };
    let (qx, q_odd) = need(bip341_output_key(&internal_x, None), "independent BIP-341 computation")?;
    notes.insert("parity".into(), json!({"untweaked_sum_odd": pb.first() == Some(&0x03), "output_key_odd": q_odd}));
    for (id, (kp, pkp)) in &fin {
        let (x, odd) = xonly(pkp.verifying_key())?;
        check(
            x == qx.to_vec() && odd == q_odd,
            "the DKG group key is the key-path-only BIP-341 output key of the sum of the constant-term commitments",
            format!("{} (odd y: {q_odd})", hex(&qx)),
            format!("{} (odd y: {odd}) at participant {}", hex(&x), id_hex::<T>(id)),
        )?;
        check(kp.verifying_key() == pkp.verifying_key(), "key package carries the tweaked key", "equal", "different")?;
    }
    Ok(())
}

pub fn scenario_taproot_cheaters(rng: &mut TestRng, p: &Params, notes: &mut Notes) -> Verdict {
    let s = tr_session(rng, p, notes, false)?;
    let honest = need(aggregate(&s, &s.shares), "honest Taproot aggregation")?;
    let (_, internal_odd) = xonly(s.keys.pubkeys.verifying_key())?;
    let r_odd = elem_bytes::<T>(honest.R()).first() == Some(&0x03);
    notes.insert("parity".into(), json!({"internal_key_odd": internal_odd, "group_commitment_odd": r_odd}));
    let cheater = match s.signers.get(rng.below(s.signers.len())) {
        Some(c) => *c,
        None => return skip("internal"),
    };
    notes.insert("cheater_hex".into(), json!(id_hex::<T>(&cheater)));
    let mut shares = s.shares.clone();
    if let Some(old) = s.shares.get(&cheater) {
        // a typical parity slip: the negated share; or a random offset
        let z = sigshare_scalar::<T>(old)?;
        let new = if rng.chance(50) { zero::<T>() - z } else { z + random_nonzero_scalar::<T>(rng) };
        if new == z {
            return skip("share unchanged");
        }
        shares.insert(cheater, make_sigshare::<T>(&new)?);
    }
    let e = must_refuse(aggregate(&s, &shares), "Taproot aggregation with one altered share")?;
    check(
        e.culprits() == vec![cheater],
        &format!("Taproot cheater identification names exactly the cheater (group commitment odd: {r_odd}, internal key odd: {internal_odd})"),
        format!("[{}]", id_hex::<T>(&cheater)),
        format!("{:?} ({})", culprits_hex::<T>(&e), short_dbg(&e)),
    )
}
