//! Independent single-signer verifiers (implementations that share no code with frost-core or
//! with the curve library the ciphersuite crate is built on, where one is available offline):
//!   ed25519       -> ed25519-dalek `verify_strict` (strict RFC 8032)
//!   secp256k1-tr  -> libsecp256k1 (C) BIP-340 `schnorrsig_verify` over the x-only key
//! For the other suites there is no second implementation in the offline registry.

/// None = no independent verifier for this suite; Some(Ok) = accepted; Some(Err(why)) = rejected.
pub fn independent_verify(suite: &str, vk: &[u8], msg: &[u8], sig: &[u8]) -> Option<Result<(), String>> {
    match suite {
        "ed25519" => Some(ed25519_strict(vk, msg, sig)),
        "secp256k1-tr" => {
            // vk is the 33-byte SEC1 compressed encoding; BIP-340 uses the x coordinate only
            match vk.get(1..33) {
                Some(x) => Some(bip340_verify(x, msg, sig)),
                None => Some(Err("verifying key encoding is not 33 bytes".into())),
            }
        }
        _ => None,
    }
}

pub fn ed25519_strict(vk: &[u8], msg: &[u8], sig: &[u8]) -> Result<(), String> {
    let vk: [u8; 32] = vk.try_into().map_err(|_| "verifying key is not 32 bytes".to_string())?;
    let sig: [u8; 64] = sig.try_into().map_err(|_| "signature is not 64 bytes".to_string())?;
    let vk = ed25519_dalek::VerifyingKey::from_bytes(&vk).map_err(|e| format!("bad key: {e}"))?;
    let sig = ed25519_dalek::Signature::from_bytes(&sig);
    vk.verify_strict(msg, &sig).map_err(|e| format!("verify_strict: {e}"))
}

/// BIP-340 verification of (64-byte sig, arbitrary-length msg) under a 32-byte x-only key.
pub fn bip340_verify(xonly: &[u8], msg: &[u8], sig: &[u8]) -> Result<(), String> {
    let secp = secp256k1::Secp256k1::verification_only();
    let x: [u8; 32] = xonly.try_into().map_err(|_| "x-only key is not 32 bytes".to_string())?;
    let s: [u8; 64] = sig.try_into().map_err(|_| format!("signature is {} bytes, not 64", sig.len()))?;
    let pk = secp256k1::XOnlyPublicKey::from_byte_array(x).map_err(|e| format!("bad x-only key: {e}"))?;
    let sig = secp256k1::schnorr::Signature::from_byte_array(s);
    secp.verify_schnorr(&sig, msg, &pk).map_err(|e| format!("schnorrsig_verify: {e}"))
}

/// BIP-341 output key: Q = lift_x(P) + int(hashTapTweak(bytes(P) || root)) G ; returns (x(Q), parity of Q).
pub fn bip341_output_key(internal_xonly: &[u8], merkle_root: Option<&[u8]>) -> Result<([u8; 32], bool), String> {
    use sha2::{Digest, Sha256};
    let secp = secp256k1::Secp256k1::verification_only();
    let x: [u8; 32] = internal_xonly.try_into().map_err(|_| "x-only key is not 32 bytes".to_string())?;
    let pk = secp256k1::XOnlyPublicKey::from_byte_array(x).map_err(|e| format!("bad x-only key: {e}"))?;
    let tag = Sha256::digest(b"TapTweak");
    let mut h = Sha256::new();
    h.update(tag);
    h.update(tag);
    h.update(x);
    if let Some(r) = merkle_root {
        h.update(r);
    }
    let t: [u8; 32] = h.finalize().into();
    let tweak = secp256k1::Scalar::from_be_bytes(t).map_err(|_| "tweak out of range".to_string())?;
    let (q, parity) = pk.add_tweak(&secp, &tweak).map_err(|e| format!("add_tweak: {e}"))?;
    Ok((q.serialize(), parity == secp256k1::Parity::Odd))
}
