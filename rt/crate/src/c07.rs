//! C07: honest three-part DKG, any (n, t, identifier set): identical public key packages, consistent
//! key packages, group key = sum of constant-term commitments (Taproot: plus the unspendable tweak,
//! checked in C18), shares on one degree t-1 polynomial, any t participants can sign.

use std::collections::{BTreeMap, BTreeSet};

use frost_core as fc;
use frost_core::keys::{self, KeyPackage, PublicKeyPackage};
use frost_core::Group;
use serde_json::json;

use crate::c01::honest_session_checks;
use crate::common::*;
use crate::rng::TestRng;
use crate::{scn, Scenario};

pub fn scenarios() -> Vec<Scenario> {
    vec![scn!(scenario_honest_dkg, 3), crate::wrap::scn_dkg(1)]
}

/// Consistency of one participant's key package with a public key package (shared with C09/C10/C11).
pub fn key_package_consistent<C: Suite>(
    kp: &KeyPackage<C>,
    pkp: &PublicKeyPackage<C>,
    id: &Id<C>,
    t: u16,
    what: &str,
) -> Verdict {
    check(
        kp.identifier() == id,
        &format!("{what}: key package carries the participant's identifier"),
        id_hex::<C>(id),
        id_hex::<C>(kp.identifier()),
    )?;
    check(
        *kp.min_signers() == t,
        &format!("{what}: key package records the threshold"),
        t.to_string(),
        kp.min_signers().to_string(),
    )?;
    check(
        pkp.min_signers() == Some(t),
        &format!("{what}: public key package records the threshold"),
        format!("Some({t})"),
        format!("{:?}", pkp.min_signers()),
    )?;
    check(
        kp.verifying_key() == pkp.verifying_key(),
        &format!("{what}: key package and public key package agree on the group key"),
        hex(&vkey_bytes::<C>(pkp.verifying_key())),
        hex(&vkey_bytes::<C>(kp.verifying_key())),
    )?;
    let s = share_scalar::<C>(kp.signing_share())?;
    let gs = elem_bytes::<C>(&base_mul::<C>(&s));
    check(
        vshare_bytes::<C>(kp.verifying_share()) == gs,
        &format!("{what}: verifying share equals generator * signing share"),
        hex(&gs),
        hex(&vshare_bytes::<C>(kp.verifying_share())),
    )?;
    match pkp.verifying_shares().get(id) {
        Some(v) => check(
            v == kp.verifying_share(),
            &format!("{what}: verifying share equals the participant's entry in the public key package"),
            hex(&vshare_bytes::<C>(kp.verifying_share())),
            hex(&vshare_bytes::<C>(v)),
        ),
        None => fail(
            &format!("{what}: the public key package has an entry for the participant"),
            format!("entry for {}", id_hex::<C>(id)),
            format!(
                "no entry; entries are {:?}",
                pkp.verifying_shares().keys().map(id_hex::<C>).collect::<Vec<_>>()
            ),
        ),
    }
}

pub fn scenario_honest_dkg<C: Suite>(rng: &mut TestRng, p: &Params, notes: &mut Notes) -> Verdict {
    let ids = make_ids::<C>(&p.ids)?;
    notes.insert("identifiers_hex".into(), json!(ids_hex::<C>(&ids)));
    let run = dkg_rounds::<C>(rng, &ids, p.n, p.t, true)?;

    // shape of the round outputs
    for id in &ids {
        if let Some(pkg) = run.r1_pkg.get(id) {
            let len = pkg.commitment().serialize().map(|v| v.len()).unwrap_or(0);
            check(
                len == p.t as usize,
                "round-one commitment has min_signers coefficients",
                p.t.to_string(),
                len.to_string(),
            )?;
        }
        if let Some(out) = run.r2_out.get(id) {
            let want: BTreeSet<Id<C>> = ids.iter().filter(|i| *i != id).copied().collect();
            let got: BTreeSet<Id<C>> = out.keys().copied().collect();
            check(
                want == got,
                "part2 returns exactly one round-two package per other participant",
                format!("{:?}", want.iter().map(id_hex::<C>).collect::<Vec<_>>()),
                format!("{:?}", got.iter().map(id_hex::<C>).collect::<Vec<_>>()),
            )?;
        }
    }

    let fin = dkg_finish::<C>(&run, true)?;
    let id_set: BTreeSet<Id<C>> = ids.iter().copied().collect();
    let (_, first_pkp) = match fin.values().next() {
        Some(x) => x.clone(),
        None => return skip("no participants"),
    };
    let mut key_packages = BTreeMap::new();
    for (id, (kp, pkp)) in &fin {
        check(
            *pkp == first_pkp,
            "every participant obtains the identical public key package",
            short_dbg(&first_pkp),
            short_dbg(pkp),
        )?;
        key_package_consistent::<C>(kp, pkp, id, p.t, "after part3")?;
        key_packages.insert(*id, kp.clone());
    }
    let got_set: BTreeSet<Id<C>> = first_pkp.verifying_shares().keys().copied().collect();
    check(
        got_set == id_set,
        "the public key package lists exactly the participants",
        format!("{:?}", ids_hex::<C>(&id_set.iter().copied().collect::<Vec<_>>())),
        format!("{:?}", ids_hex::<C>(&got_set.iter().copied().collect::<Vec<_>>())),
    )?;

    // group key = sum of the constant-term commitments (the Taproot suite adds a tweak: see C18)
    if !C::IS_TAPROOT {
        let mut sum = <Gr<C> as Group>::identity();
        for pkg in run.r1_pkg.values() {
            let c0 = match pkg.commitment().serialize() {
                Ok(v) => v.first().cloned(),
                Err(_) => None,
            };
            let c0 = match c0.and_then(|b| keys::CoefficientCommitment::<C>::deserialize(&b).ok()) {
                Some(c) => c,
                None => return skip("cannot read constant-term commitment"),
            };
            sum = sum + c0.value();
        }
        check(
            vkey_bytes::<C>(first_pkp.verifying_key()) == elem_bytes::<C>(&sum),
            "group key is the sum of all participants' constant-term commitments",
            hex(&elem_bytes::<C>(&sum)),
            hex(&vkey_bytes::<C>(first_pkp.verifying_key())),
        )?;
    }

    // "the shares lie on the sum of the participants' polynomials": s_i = sum_j f_j(i), every term of every polynomial evaluated
    // here by plain powers (not for the Taproot suite, whose post-processing shifts every share by the tweak: see C18)
    for (id, kp) in key_packages.iter().filter(|_| !C::IS_TAPROOT) {
        let x = id_scalar::<C>(id)?;
        let mut want = zero::<C>();
        for sp in run.r1_secret.values() {
            let mut pw = one::<C>();
            for c in sp.coefficients() {
                want = want + c * pw;
                pw = pw * x;
            }
        }
        let got = share_scalar::<C>(kp.signing_share())?;
        check(
            got == want,
            "the signing share is the sum of all participants' polynomials (all t coefficients each) evaluated at the participant's identifier",
            hex(&scalar_bytes::<C>(&want)),
            hex(&scalar_bytes::<C>(&got)),
        )?;
    }

    // the shares lie on ONE polynomial of degree t-1: every t-subset interpolates to the same secret,
    // whose public key is the group key; t+1 shares give the same.
    let mut secrets = Vec::new();
    for round in 0..3 {
        let k = if round == 2 { (p.t as usize + 1).min(ids.len()) } else { p.t as usize };
        let sub = rng.subset(ids.len(), k);
        let kps: Vec<KeyPackage<C>> = sub
            .iter()
            .filter_map(|i| ids.get(*i))
            .filter_map(|i| key_packages.get(i))
            .cloned()
            .collect();
        let sk = must(keys::reconstruct::<C>(&kps), "reconstruct from >= t DKG key packages")?;
        secrets.push(sk.serialize());
        let vk = fc::VerifyingKey::<C>::from(&sk);
        check(
            &vk == first_pkp.verifying_key(),
            "any t DKG shares interpolate to the secret of the group key",
            hex(&vkey_bytes::<C>(first_pkp.verifying_key())),
            hex(&vkey_bytes::<C>(&vk)),
        )?;
    }
    check(
        secrets.windows(2).all(|w| w[0] == w[1]),
        "different t-subsets (and a t+1 subset) of DKG shares interpolate to the same secret",
        "equal",
        "different",
    )?;

    // any >= t participants can sign
    let signers: Vec<Id<C>> = p.signers.iter().filter_map(|i| ids.get(*i)).copied().collect();
    notes.insert("signers_hex".into(), json!(ids_hex::<C>(&signers)));
    let sess = run_session::<C>(rng, &key_packages, &signers, &p.message, true)?;
    honest_session_checks::<C>(&first_pkp, &sess, &p.message)
}
