//! C20: secret-bearing types.  Their Debug rendering contains no encoding of a secret scalar,
//! explicit zeroization leaves every secret scalar zero, and dropping a value leaves no copy of its
//! secret scalars in the storage it occupied (inline bytes inspected after `drop_in_place`; heap
//! buffers inspected at deallocation time through the allocator hook of alloc_watch.rs).

use frost_core as fc;
use frost_core::keys::dkg;
use frost_core::keys::{KeyPackage, SecretShare};
use serde_json::json;
use zeroize::Zeroize;

use crate::common::*;
use crate::rng::TestRng;
use crate::{scn, Scenario};

pub fn scenarios() -> Vec<Scenario> {
    vec![scn!(scenario_debug_is_redacted), scn!(scenario_zeroize_leaves_zero), scn!(scenario_drop_wipes_storage)]
}

/// every textual form in which the scalar could leak
fn renderings(secret: &[u8]) -> Vec<String> {
    let mut rev = secret.to_vec();
    rev.reverse();
    let mut v = vec![hex(secret), hex(secret).to_uppercase(), hex(&rev), hex(&rev).to_uppercase()];
    // decimal byte lists as printed by `{:?}` of arrays / vectors
    v.push(format!("{secret:?}"));
    v.push(format!("{rev:?}"));
    // a leak of half the scalar is a leak
    let h = hex(secret);
    v.push(h.get(..h.len() / 2).unwrap_or("").to_string());
    v.push(h.get(h.len() / 2..).unwrap_or("").to_string());
    v.retain(|s| s.len() >= 16);
    v
}

fn no_leak(type_name: &str, rendered: &[String], secrets: &[(&str, Vec<u8>)]) -> Verdict {
    for text in rendered {
        for (what, s) in secrets {
            for needle in renderings(s) {
                if text.contains(&needle) {
                    let mut shown = text.clone();
                    shown.truncate(300);
                    return fail(
                        &format!("the Debug rendering of {type_name} contains no encoding of its {what}"),
                        "redacted",
                        format!("contains {needle}: {shown}"),
                    );
                }
            }
        }
    }
    Ok(())
}

fn dbg2<T: std::fmt::Debug>(v: &T) -> Vec<String> {
    vec![format!("{v:?}"), format!("{v:#?}")]
}

struct Secrets<C: Suite> {
    sk: fc::SigningKey<C>,
    secret_share: SecretShare<C>,
    kp: KeyPackage<C>,
    nonces: fc::round1::SigningNonces<C>,
    r1: dkg::round1::SecretPackage<C>,
    r2: dkg::round2::SecretPackage<C>,
    r2_pkg: dkg::round2::Package<C>,
}

fn secrets<C: Suite>(rng: &mut TestRng, p: &Params) -> Result<Secrets<C>, Stop> {
    let mut q = Params::generate_with(rng, 3, 2);
    q.ids = p.ids.iter().take(3).cloned().collect();
    if q.ids.len() < 3 {
        q.ids = gen_ids(rng, "mixed", 3);
    }
    q.id_scheme = "custom";
    let keys = keygen_dealer::<C>(rng, &q, false)?;
    let id = match keys.ids.get(rng.below(keys.ids.len())) {
        Some(i) => *i,
        None => return skip("internal"),
    };
    let (secret_share, kp) = match (keys.secret_shares.as_ref().and_then(|m| m.get(&id)), keys.key_packages.get(&id)) {
        (Some(a), Some(b)) => (a.clone(), b.clone()),
        _ => return skip("internal"),
    };
    let (nonces, _) = fc::round1::commit::<C, _>(kp.signing_share(), rng);
    let run = dkg_rounds::<C>(rng, &keys.ids, 3, 2, false)?;
    let (r1, r2, r2_pkg) = match (run.r1_secret.get(&id), run.r2_secret.get(&id), run.r2_out.get(&id).and_then(|m| m.values().next())) {
        (Some(a), Some(b), Some(c)) => (a.clone(), b.clone(), c.clone()),
        _ => return skip("internal"),
    };
    Ok(Secrets {
        sk: fc::SigningKey::<C>::new(rng),
        secret_share,
        kp,
        nonces,
        r1,
        r2,
        r2_pkg,
    })
}

pub fn scenario_debug_is_redacted<C: Suite>(rng: &mut TestRng, p: &Params, notes: &mut Notes) -> Verdict {
    let s = secrets::<C>(rng, p)?;
    let _ = notes;
    no_leak("SigningKey", &dbg2(&s.sk), &[("signing key", s.sk.serialize())])?;
    no_leak("SigningShare", &dbg2(s.kp.signing_share()), &[("signing share", s.kp.signing_share().serialize())])?;
    no_leak("SecretShare", &dbg2(&s.secret_share), &[("signing share", s.secret_share.signing_share().serialize())])?;
    no_leak("KeyPackage", &dbg2(&s.kp), &[("signing share", s.kp.signing_share().serialize())])?;
    no_leak(
        "SigningNonces",
        &dbg2(&s.nonces),
        &[("hiding nonce", s.nonces.hiding().serialize()), ("binding nonce", s.nonces.binding().serialize())],
    )?;
    let coeffs: Vec<(&str, Vec<u8>)> = s.r1.coefficients().iter().map(|c| ("polynomial coefficient", scalar_bytes::<C>(c))).collect();
    no_leak("dkg::round1::SecretPackage", &dbg2(&s.r1), &coeffs)?;
    no_leak("dkg::round2::SecretPackage", &dbg2(&s.r2), &[("secret share", scalar_bytes::<C>(&s.r2.secret_share()))])?;
    no_leak("dkg::round2::Package", &dbg2(&s.r2_pkg), &[("signing share", s.r2_pkg.signing_share().serialize())])?;
    // containers of secret types
    let v = vec![s.kp.clone(), s.kp.clone()];
    no_leak("Vec<KeyPackage>", &dbg2(&v), &[("signing share", s.kp.signing_share().serialize())])?;
    let o = Some(s.nonces.clone());
    no_leak(
        "Option<SigningNonces>",
        &dbg2(&o),
        &[("hiding nonce", s.nonces.hiding().serialize()), ("binding nonce", s.nonces.binding().serialize())],
    )
}

pub fn scenario_zeroize_leaves_zero<C: Suite>(rng: &mut TestRng, p: &Params, notes: &mut Notes) -> Verdict {
    let mut s = secrets::<C>(rng, p)?;
    let _ = notes;
    let z = scalar_bytes::<C>(&zero::<C>());
    let is_zero = |b: Vec<u8>, what: &str| check(b == z, &format!("after zeroize() the {what} is zero"), hex(&z), hex(&b));

    let mut share = *s.kp.signing_share();
    share.zeroize();
    is_zero(share.serialize(), "SigningShare")?;

    s.secret_share.zeroize();
    is_zero(s.secret_share.signing_share().serialize(), "signing share of SecretShare")?;

    s.kp.zeroize();
    is_zero(s.kp.signing_share().serialize(), "signing share of KeyPackage")?;

    s.nonces.zeroize();
    is_zero(s.nonces.hiding().serialize(), "hiding nonce of SigningNonces")?;
    is_zero(s.nonces.binding().serialize(), "binding nonce of SigningNonces")?;

    let mut nonce = fc::round1::Nonce::<C>::new(&share, rng);
    nonce.zeroize();
    is_zero(nonce.serialize(), "Nonce")?;

    s.r1.zeroize();
    for c in s.r1.coefficients() {
        is_zero(scalar_bytes::<C>(&c), "polynomial coefficient of dkg::round1::SecretPackage")?;
    }
    s.r2.zeroize();
    is_zero(scalar_bytes::<C>(&s.r2.secret_share()), "secret share of dkg::round2::SecretPackage")?;
    s.r2_pkg.zeroize();
    is_zero(s.r2_pkg.signing_share().serialize(), "signing share of dkg::round2::Package")
}

// ------------------------------------------------------------------------------------------------
// drop path

/// the in-memory bytes of a scalar (whatever representation the field library uses)
fn raw_scalar<C: Suite>(s: &Sc<C>) -> Vec<u8> {
    let n = std::mem::size_of::<Sc<C>>();
    let p = s as *const Sc<C> as *const u8;
    // SAFETY: `s` is a live, initialised value of a plain-data scalar type
    (0..n).map(|i| unsafe { std::ptr::read_volatile(p.add(i)) }).collect()
}

fn interesting(p: &[u8]) -> bool {
    p.len() >= 16 && p.iter().filter(|b| **b != 0).count() >= 8
}

/// Runs the destructor of `value` in place and reports whether any pattern is still present in the
/// bytes the value occupied.
fn residue_after_drop<T>(value: T, patterns: &[Vec<u8>]) -> Option<usize> {
    let mut slot = std::mem::MaybeUninit::new(value);
    let n = std::mem::size_of::<T>();
    // SAFETY: the slot holds an initialised T; after drop_in_place it is never used as a T again
    unsafe { std::ptr::drop_in_place(slot.as_mut_ptr()) };
    let p = slot.as_ptr() as *const u8;
    let bytes: Vec<u8> = (0..n).map(|i| unsafe { std::ptr::read_volatile(p.add(i)) }).collect();
    patterns
        .iter()
        .position(|pat| interesting(pat) && pat.len() <= bytes.len() && bytes.windows(pat.len()).any(|w| w == pat.as_slice()))
}

fn present_before_drop<T>(value: &T, pattern: &[u8]) -> bool {
    let n = std::mem::size_of::<T>();
    let p = value as *const T as *const u8;
    let bytes: Vec<u8> = (0..n).map(|i| unsafe { std::ptr::read_volatile(p.add(i)) }).collect();
    pattern.len() <= bytes.len() && bytes.windows(pattern.len()).any(|w| w == pattern)
}

fn drop_check<T>(name: &str, value: T, patterns: &[Vec<u8>]) -> Verdict {
    // only patterns that are visibly present in the live value can be looked for afterwards
    let live: Vec<Vec<u8>> = patterns.iter().filter(|p| interesting(p) && present_before_drop(&value, p)).cloned().collect();
    if live.is_empty() {
        drop(value);
        return Ok(());
    }
    match residue_after_drop(value, &live) {
        None => Ok(()),
        Some(_) => fail(
            &format!("dropping a {name} leaves no copy of its secret scalars in the storage it occupied"),
            "storage wiped",
            "the secret scalar is still readable in the dropped value's bytes",
        ),
    }
}

pub fn scenario_drop_wipes_storage<C: Suite>(rng: &mut TestRng, p: &Params, notes: &mut Notes) -> Verdict {
    let s = secrets::<C>(rng, p)?;
    let _ = notes;
    let share_raw = raw_scalar::<C>(&share_scalar::<C>(s.kp.signing_share())?);
    let sk_raw = raw_scalar::<C>(&s.sk.clone().to_scalar());
    let hid = scalar_from_bytes::<C>(&s.nonces.hiding().serialize()).map(|x| raw_scalar::<C>(&x)).unwrap_or_default();
    let bin = scalar_from_bytes::<C>(&s.nonces.binding().serialize()).map(|x| raw_scalar::<C>(&x)).unwrap_or_default();
    let r2_raw = raw_scalar::<C>(&s.r2.secret_share());
    let r2p_raw = raw_scalar::<C>(&share_scalar::<C>(s.r2_pkg.signing_share())?);
    let ss_raw = raw_scalar::<C>(&share_scalar::<C>(s.secret_share.signing_share())?);
    let coeffs: Vec<Sc<C>> = s.r1.coefficients();
    let coeff_raw: Vec<Vec<u8>> = coeffs.iter().map(raw_scalar::<C>).filter(|p| interesting(p)).collect();

    drop_check("SigningKey", s.sk, &[sk_raw])?;
    drop_check("KeyPackage", s.kp, &[share_raw])?;
    drop_check("SecretShare", s.secret_share, &[ss_raw])?;
    drop_check("SigningNonces", s.nonces, &[hid, bin])?;
    drop_check("dkg::round2::SecretPackage", s.r2, &[r2_raw])?;
    drop_check("dkg::round2::Package", s.r2_pkg, &[r2p_raw])?;
    // dkg::round1::SecretPackage keeps its coefficients in a heap buffer: watch what is handed back to the allocator
    crate::alloc_watch::start(&coeff_raw);
    drop(s.r1);
    let (hits, freed) = crate::alloc_watch::stop();
    check(
        hits == 0,
        "dropping a dkg::round1::SecretPackage wipes the heap buffer of its polynomial coefficients before freeing it",
        "no coefficient in any freed block",
        format!("{hits} coefficient(s) found in freed memory ({freed} bytes freed)"),
    )
}
