//! C20: secret-bearing types.  Their Debug rendering contains no encoding of a secret scalar, and
//! explicit zeroization leaves every secret scalar zero.  (That dropping a value leaves no copy in
//! the storage it occupied needs raw memory inspection; that part is covered by the Kani harnesses,
//! not here.)

use frost_core as fc;
use frost_core::keys::dkg;
use frost_core::keys::{KeyPackage, SecretShare};
use serde_json::json;
use zeroize::Zeroize;

use crate::common::*;
use crate::rng::TestRng;
use crate::{scn, Scenario};

pub fn scenarios() -> Vec<Scenario> {
    vec![scn!(scenario_debug_is_redacted), scn!(scenario_zeroize_leaves_zero)]
}

/// every textual form in which the scalar could leak
fn renderings(secret: &[u8]) -> Vec<String> {
    let mut rev = secret.to_vec();
    rev.reverse();
    let mut v = vec![hex(secret), hex(secret).to_uppercase(), hex(&rev), hex(&rev).to_uppercase()];
    // decimal byte lists as printed by `{:?}` of arrays / vectors
    v.push(format!("{secret:?}"));
    v.push(format!("{rev:?}"));
    // a leak of half the scalar is a leak
    let h = hex(secret);
    v.push(h.get(..h.len() / 2).unwrap_or("").to_string());
    v.push(h.get(h.len() / 2..).unwrap_or("").to_string());
    v.retain(|s| s.len() >= 16);
    v
}

fn no_leak(type_name: &str, rendered: &[String], secrets: &[(&str, Vec<u8>)]) -> Verdict {
    for text in rendered {
        for (what, s) in secrets {
            for needle in renderings(s) {
                if text.contains(&needle) {
                    let mut shown = text.clone();
                    shown.truncate(300);
                    return fail(
                        &format!("the Debug rendering of {type_name} contains no encoding of its {what}"),
                        "redacted",
                        format!("contains {needle}: {shown}"),
                    );
                }
            }
        }
    }
    Ok(())
}

fn dbg2<T: std::fmt::Debug>(v: &T) -> Vec<String> {
    vec![format!("{v:?}"), format!("{v:#?}")]
}

struct Secrets<C: Suite> {
    sk: fc::SigningKey<C>,
    secret_share: SecretShare<C>,
    kp: KeyPackage<C>,
    nonces: fc::round1::SigningNonces<C>,
    r1: dkg::round1::SecretPackage<C>,
    r2: dkg::round2::SecretPackage<C>,
    r2_pkg: dkg::round2::Package<C>,
}

fn secrets<C: Suite>(rng: &mut TestRng, p: &Params) -> Result<Secrets<C>, Stop> {
    let mut q = Params::generate_with(rng, 3, 2);
    q.ids = p.ids.iter().take(3).cloned().collect();
    if q.ids.len() < 3 {
        q.ids = gen_ids(rng, "mixed", 3);
    }
    q.id_scheme = "custom";
    let keys = keygen_dealer::<C>(rng, &q, false)?;
    let id = match keys.ids.get(rng.below(keys.ids.len())) {
        Some(i) => *i,
        None => return skip("internal"),
    };
    let (secret_share, kp) = match (keys.secret_shares.as_ref().and_then(|m| m.get(&id)), keys.key_packages.get(&id)) {
        (Some(a), Some(b)) => (a.clone(), b.clone()),
        _ => return skip("internal"),
    };
    let (nonces, _) = fc::round1::commit::<C, _>(kp.signing_share(), rng);
    let run = dkg_rounds::<C>(rng, &keys.ids, 3, 2, false)?;
    let (r1, r2, r2_pkg) = match (run.r1_secret.get(&id), run.r2_secret.get(&id), run.r2_out.get(&id).and_then(|m| m.values().next())) {
        (Some(a), Some(b), Some(c)) => (a.clone(), b.clone(), c.clone()),
        _ => return skip("internal"),
    };
    Ok(Secrets {
        sk: fc::SigningKey::<C>::new(rng),
        secret_share,
        kp,
        nonces,
        r1,
        r2,
        r2_pkg,
    })
}

pub fn scenario_debug_is_redacted<C: Suite>(rng: &mut TestRng, p: &Params, notes: &mut Notes) -> Verdict {
    let s = secrets::<C>(rng, p)?;
    let _ = notes;
    no_leak("SigningKey", &dbg2(&s.sk), &[("signing key", s.sk.serialize())])?;
    no_leak("SigningShare", &dbg2(s.kp.signing_share()), &[("signing share", s.kp.signing_share().serialize())])?;
    no_leak("SecretShare", &dbg2(&s.secret_share), &[("signing share", s.secret_share.signing_share().serialize())])?;
    no_leak("KeyPackage", &dbg2(&s.kp), &[("signing share", s.kp.signing_share().serialize())])?;
    no_leak(
        "SigningNonces",
        &dbg2(&s.nonces),
        &[("hiding nonce", s.nonces.hiding().serialize()), ("binding nonce", s.nonces.binding().serialize())],
    )?;
    let coeffs: Vec<(&str, Vec<u8>)> = s.r1.coefficients().iter().map(|c| ("polynomial coefficient", scalar_bytes::<C>(c))).collect();
    no_leak("dkg::round1::SecretPackage", &dbg2(&s.r1), &coeffs)?;
    no_leak("dkg::round2::SecretPackage", &dbg2(&s.r2), &[("secret share", scalar_bytes::<C>(&s.r2.secret_share()))])?;
    no_leak("dkg::round2::Package", &dbg2(&s.r2_pkg), &[("signing share", s.r2_pkg.signing_share().serialize())])?;
    // containers of secret types
    let v = vec![s.kp.clone(), s.kp.clone()];
    no_leak("Vec<KeyPackage>", &dbg2(&v), &[("signing share", s.kp.signing_share().serialize())])?;
    let o = Some(s.nonces.clone());
    no_leak(
        "Option<SigningNonces>",
        &dbg2(&o),
        &[("hiding nonce", s.nonces.hiding().serialize()), ("binding nonce", s.nonces.binding().serialize())],
    )
}

pub fn scenario_zeroize_leaves_zero<C: Suite>(rng: &mut TestRng, p: &Params, notes: &mut Notes) -> Verdict {
    let mut s = secrets::<C>(rng, p)?;
    let _ = notes;
    let z = scalar_bytes::<C>(&zero::<C>());
    let is_zero = |b: Vec<u8>, what: &str| check(b == z, &format!("after zeroize() the {what} is zero"), hex(&z), hex(&b));

    let mut share = *s.kp.signing_share();
    share.zeroize();
    is_zero(share.serialize(), "SigningShare")?;

    s.secret_share.zeroize();
    is_zero(s.secret_share.signing_share().serialize(), "signing share of SecretShare")?;

    s.kp.zeroize();
    is_zero(s.kp.signing_share().serialize(), "signing share of KeyPackage")?;

    s.nonces.zeroize();
    is_zero(s.nonces.hiding().serialize(), "hiding nonce of SigningNonces")?;
    is_zero(s.nonces.binding().serialize(), "binding nonce of SigningNonces")?;

    let mut nonce = fc::round1::Nonce::<C>::new(&share, rng);
    nonce.zeroize();
    is_zero(nonce.serialize(), "Nonce")?;

    s.r1.zeroize();
    for c in s.r1.coefficients() {
        is_zero(scalar_bytes::<C>(&c), "polynomial coefficient of dkg::round1::SecretPackage")?;
    }
    s.r2.zeroize();
    is_zero(scalar_bytes::<C>(&s.r2.secret_share()), "secret share of dkg::round2::SecretPackage")?;
    s.r2_pkg.zeroize();
    is_zero(s.r2_pkg.signing_share().serialize(), "signing share of dkg::round2::Package")
}
