//! C20: secret-bearing types.  Their Debug rendering contains no encoding of a secret scalar,
//! explicit zeroization leaves every secret scalar zero, and dropping a value leaves no copy of its
//! secret scalars in the storage it occupied (inline bytes inspected after `drop_in_place`; heap
//! buffers inspected at deallocation time through the allocator hook of alloc_watch.rs).

use frost_core as fc;
use frost_core::keys::dkg;
use frost_core::keys::refresh;
use frost_core::keys::{KeyPackage, SecretShare};
use serde_json::json;
use zeroize::Zeroize;

use crate::common::*;
use crate::rng::TestRng;
use crate::{scn, Scenario};

pub fn scenarios() -> Vec<Scenario> {
    vec![scn!(scenario_debug_is_redacted), scn!(scenario_zeroize_leaves_zero), scn!(scenario_drop_wipes_storage)]
}

/// every textual form in which the scalar could leak
fn renderings(secret: &[u8]) -> Vec<String> {
    let mut rev = secret.to_vec();
    rev.reverse();
    let mut v = vec![hex(secret), hex(secret).to_uppercase(), hex(&rev), hex(&rev).to_uppercase()];
    // decimal byte lists as printed by `{:?}` of arrays / vectors
    v.push(format!("{secret:?}"));
    v.push(format!("{rev:?}"));
    // a leak of half the scalar is a leak
    let h = hex(secret);
    v.push(h.get(..h.len() / 2).unwrap_or("").to_string());
    v.push(h.get(h.len() / 2..).unwrap_or("").to_string());
    v.retain(|s| s.len() >= 16);
    v
}

fn no_leak(type_name: &str, rendered: &[String], secrets: &[(&str, Vec<u8>)]) -> Verdict {
    for text in rendered {
        for (what, s) in secrets {
            // sparse scalars (the zero constant term of a refresh polynomial, small numbers) occur in public data by accident
            if s.iter().filter(|b| **b != 0).count() < 8 {
                continue;
            }
            for needle in renderings(s) {
                if text.contains(&needle) {
                    let mut shown = text.clone();
                    shown.truncate(300);
                    return fail(
                        &format!("the Debug rendering of {type_name} contains no encoding of its {what}"),
                        "redacted",
                        format!("contains {needle}: {shown}"),
                    );
                }
            }
        }
    }
    Ok(())
}

fn dbg2<T: std::fmt::Debug>(v: &T) -> Vec<String> {
    vec![format!("{v:?}"), format!("{v:#?}")]
}

/// Secret-bearing values of every type, each obtained from EVERY function that produces one (name of the producer, value).
struct Secrets<C: Suite> {
    sks: Vec<(String, fc::SigningKey<C>)>,
    secret_shares: Vec<(String, SecretShare<C>)>,
    kps: Vec<(String, KeyPackage<C>)>,
    nonces: Vec<(String, fc::round1::SigningNonces<C>)>,
    r1s: Vec<(String, dkg::round1::SecretPackage<C>)>,
    r2s: Vec<(String, dkg::round2::SecretPackage<C>)>,
    r2_pkgs: Vec<(String, dkg::round2::Package<C>)>,
}

/// Small group (n in 2..=5, any t) with the case's identifiers; one participant's view.  Producers: `SigningKey::new` /
/// `from_scalar` / `reconstruct`; dealer `generate_with_dealer`, `split`, `compute_refreshing_shares` (secret shares);
/// key packages from the dealer, DKG part3, `refresh_share`, `refresh_dkg_shares`, `repair_share_part3`; nonces from
/// `commit`, `preprocess(k >= 2)`, `from_nonces`; round-one secret packages from `dkg::part1`, `refresh_dkg_part1` and
/// `SecretPackage::new`; round-two secret packages and packages from `dkg::part2` and `refresh_dkg_part2`.
fn secrets<C: Suite>(rng: &mut TestRng, p: &Params) -> Result<Secrets<C>, Stop> {
    let n = rng.range(2, 5).min(p.ids.len().max(2)) as u16;
    let t = match rng.below(3) {
        0 => 2,
        1 => n,
        _ => rng.range(2, n as usize) as u16,
    };
    let mut q = Params::generate_with(rng, n, t);
    q.ids = p.ids.iter().take(n as usize).cloned().collect();
    if q.ids.len() < n as usize {
        q.ids = gen_ids(rng, "mixed", n as usize);
    }
    q.id_scheme = "custom";
    let keys = keygen_dealer::<C>(rng, &q, false)?;
    let id = match keys.ids.get(rng.below(keys.ids.len())) {
        Some(i) => *i,
        None => return skip("internal"),
    };
    let (secret_share, kp) = match (keys.secret_shares.as_ref().and_then(|m| m.get(&id)), keys.key_packages.get(&id)) {
        (Some(a), Some(b)) => (a.clone(), b.clone()),
        _ => return skip("internal"),
    };
    let mut out = Secrets {
        sks: vec![("SigningKey::new".into(), fc::SigningKey::<C>::new(rng))],
        secret_shares: vec![("generate_with_dealer".into(), secret_share)],
        kps: vec![("the dealer's share".into(), kp.clone())],
        nonces: Vec::new(),
        r1s: Vec::new(),
        r2s: Vec::new(),
        r2_pkgs: Vec::new(),
    };
    // signing keys
    if let Ok(k) = fc::SigningKey::<C>::from_scalar(random_nonzero_scalar::<C>(rng)) {
        out.sks.push(("SigningKey::from_scalar".into(), k));
    }
    let all: Vec<KeyPackage<C>> = keys.key_packages.values().cloned().collect();
    if let Ok(k) = frost_core::keys::reconstruct::<C>(&all) {
        out.sks.push(("keys::reconstruct".into(), k));
    }
    // dealer shares of the other producers
    let sk = fc::SigningKey::<C>::new(rng);
    if let Ok((shares, _)) = frost_core::keys::split::<C, _>(&sk, n, t, frost_core::keys::IdentifierList::Custom(&keys.ids), rng) {
        if let Some(sh) = shares.get(&id) {
            out.secret_shares.push(("keys::split".into(), sh.clone()));
        }
    }
    if let Ok((shares, _)) = refresh::compute_refreshing_shares::<C, _>(keys.pubkeys.clone(), &keys.ids, rng) {
        if let Some(sh) = shares.iter().find(|s| *s.identifier() == id) {
            out.secret_shares.push(("refresh::compute_refreshing_shares".into(), sh.clone()));
            if let Ok(k) = refresh::refresh_share::<C>(sh.clone(), &kp) {
                out.kps.push(("refresh::refresh_share".into(), k));
            }
        }
    }
    // nonces
    let (nonces, _) = fc::round1::commit::<C, _>(kp.signing_share(), rng);
    out.nonces.push(("round1::commit".into(), nonces.clone()));
    let k = rng.range(2, 4) as u8;
    let (batch, _) = fc::round1::preprocess::<C, _>(k, kp.signing_share(), rng);
    for (i, x) in batch.into_iter().enumerate() {
        out.nonces.push((format!("round1::preprocess({k}), pair {i}"), x));
    }
    out.nonces.push(("SigningNonces::from_nonces".into(), fc::round1::SigningNonces::<C>::from_nonces(*nonces.binding(), *nonces.hiding())));
    // key generation
    let run = dkg_rounds::<C>(rng, &keys.ids, n, t, false)?;
    if let (Some(a), Some(b), Some(c)) = (run.r1_secret.get(&id), run.r2_secret.get(&id), run.r2_out.get(&id).and_then(|m| m.values().next())) {
        out.r1s.push(("dkg::part1".into(), a.clone()));
        out.r2s.push(("dkg::part2".into(), b.clone()));
        out.r2_pkgs.push(("dkg::part2".into(), c.clone()));
        // the public constructor for callers that store the package themselves
        out.r1s.push(("dkg::round1::SecretPackage::new".into(), dkg::round1::SecretPackage::<C>::new(id, a.coefficients(), a.commitment().clone(), t, n)));
    }
    if let Ok(fin) = dkg_finish::<C>(&run, false) {
        if let Some((k, _)) = fin.get(&id) {
            out.kps.push(("dkg::part3".into(), k.clone()));
        }
    }
    // distributed refresh (its round-one packages carry t coefficients and t-1 commitments)
    let mut rs1 = std::collections::BTreeMap::new();
    let mut rp1 = std::collections::BTreeMap::new();
    for i in &keys.ids {
        let (s, pk) = need(refresh::refresh_dkg_part1::<C, _>(*i, n, t, &mut *rng), "refresh_dkg_part1")?;
        rs1.insert(*i, s);
        rp1.insert(*i, pk);
    }
    let mut rs2 = std::collections::BTreeMap::new();
    let mut rout: std::collections::BTreeMap<Id<C>, std::collections::BTreeMap<Id<C>, dkg::round2::Package<C>>> = std::collections::BTreeMap::new();
    for i in &keys.ids {
        let others: std::collections::BTreeMap<_, _> = rp1.iter().filter(|(k, _)| *k != i).map(|(k, v)| (*k, v.clone())).collect();
        if let Some(s) = rs1.get(i) {
            let (s2, o) = need(refresh::refresh_dkg_part2::<C>(s.clone(), &others), "refresh_dkg_part2")?;
            rs2.insert(*i, s2);
            rout.insert(*i, o);
        }
    }
    if let (Some(a), Some(b), Some(c)) = (rs1.get(&id), rs2.get(&id), rout.get(&id).and_then(|m| m.values().next())) {
        out.r1s.push(("refresh::refresh_dkg_part1".into(), a.clone()));
        out.r2s.push(("refresh::refresh_dkg_part2".into(), b.clone()));
        out.r2_pkgs.push(("refresh::refresh_dkg_part2".into(), c.clone()));
        let r1: std::collections::BTreeMap<_, _> = rp1.iter().filter(|(k, _)| **k != id).map(|(k, v)| (*k, v.clone())).collect();
        let mut r2 = std::collections::BTreeMap::new();
        for (sender, o) in &rout {
            if let Some(pk) = o.get(&id) {
                r2.insert(*sender, pk.clone());
            }
        }
        if let Ok((k, _)) = refresh::refresh_dkg_shares::<C>(b, &r1, &r2, keys.pubkeys.clone(), kp.clone()) {
            out.kps.push(("refresh::refresh_dkg_shares".into(), k));
        }
    }
    // repair (needs t helpers besides the participant)
    let helpers: Vec<Id<C>> = keys.ids.iter().filter(|i| **i != id).copied().collect();
    if helpers.len() >= t as usize {
        if let Ok(sigmas) = crate::c11::repair_parts_1_2::<C>(rng, &helpers, &keys.key_packages, id, false, false) {
            if let Ok(k) = frost_core::keys::repairable::repair_share_part3::<C>(&sigmas, id, &keys.pubkeys) {
                out.kps.push(("repairable::repair_share_part3".into(), k));
            }
        }
    }
    Ok(out)
}

fn producers<T>(v: &[(String, T)]) -> Vec<String> {
    v.iter().map(|x| x.0.clone()).collect()
}

fn note_producers<C: Suite>(s: &Secrets<C>, notes: &mut Notes) {
    notes.insert(
        "producers".into(),
        json!({"SigningKey": producers(&s.sks), "SecretShare": producers(&s.secret_shares), "KeyPackage": producers(&s.kps), "SigningNonces": producers(&s.nonces),
               "dkg::round1::SecretPackage": producers(&s.r1s), "dkg::round2::SecretPackage": producers(&s.r2s), "dkg::round2::Package": producers(&s.r2_pkgs)}),
    );
}

pub fn scenario_debug_is_redacted<C: Suite>(rng: &mut TestRng, p: &Params, notes: &mut Notes) -> Verdict {
    let s = secrets::<C>(rng, p)?;
    note_producers(&s, notes);
    for (from, sk) in &s.sks {
        no_leak(&format!("SigningKey (from {from})"), &dbg2(sk), &[("signing key", sk.serialize())])?;
    }
    for (from, sh) in &s.secret_shares {
        no_leak(&format!("SecretShare (from {from})"), &dbg2(sh), &[("signing share", sh.signing_share().serialize())])?;
    }
    for (from, kp) in &s.kps {
        no_leak(&format!("SigningShare (of the key package from {from})"), &dbg2(kp.signing_share()), &[("signing share", kp.signing_share().serialize())])?;
        no_leak(&format!("KeyPackage (from {from})"), &dbg2(kp), &[("signing share", kp.signing_share().serialize())])?;
    }
    for (from, n) in &s.nonces {
        no_leak(
            &format!("SigningNonces (from {from})"),
            &dbg2(n),
            &[("hiding nonce", n.hiding().serialize()), ("binding nonce", n.binding().serialize())],
        )?;
    }
    for (from, r1) in &s.r1s {
        let coeffs: Vec<(&str, Vec<u8>)> = r1.coefficients().iter().map(|c| ("polynomial coefficient", scalar_bytes::<C>(c))).collect();
        no_leak(&format!("dkg::round1::SecretPackage (from {from})"), &dbg2(r1), &coeffs)?;
    }
    for (from, r2) in &s.r2s {
        no_leak(&format!("dkg::round2::SecretPackage (from {from})"), &dbg2(r2), &[("secret share", scalar_bytes::<C>(&r2.secret_share()))])?;
    }
    for (from, pk) in &s.r2_pkgs {
        no_leak(&format!("dkg::round2::Package (from {from})"), &dbg2(pk), &[("signing share", pk.signing_share().serialize())])?;
    }
    // containers of secret types
    if let (Some((_, kp)), Some((_, n))) = (s.kps.first(), s.nonces.first()) {
        let v = vec![kp.clone(), kp.clone()];
        no_leak("Vec<KeyPackage>", &dbg2(&v), &[("signing share", kp.signing_share().serialize())])?;
        let o = Some(n.clone());
        no_leak(
            "Option<SigningNonces>",
            &dbg2(&o),
            &[("hiding nonce", n.hiding().serialize()), ("binding nonce", n.binding().serialize())],
        )?;
    }
    Ok(())
}

/// no encoding of a secret the value held BEFORE zeroize() is readable from it afterwards through its serializations
fn gone<C: Suite>(what: &str, before: &[Vec<u8>], views: &[Option<Vec<u8>>]) -> Verdict {
    for view in views.iter().flatten() {
        for (i, sec) in before.iter().enumerate() {
            // sparse encodings (0, 1, 2^k) occur by accident
            if sec.iter().filter(|b| **b != 0).count() < 8 {
                continue;
            }
            let hx = hex(sec);
            let found = view.windows(sec.len()).any(|w| w == sec.as_slice()) || view.windows(hx.len()).any(|w| w == hx.as_bytes());
            if found {
                return fail(
                    &format!("after zeroize() no secret scalar of the {what} can be read back from its serialization"),
                    "wiped",
                    format!("secret scalar {i} of the value is still in its serialized form"),
                );
            }
        }
    }
    Ok(())
}

pub fn scenario_zeroize_leaves_zero<C: Suite>(rng: &mut TestRng, p: &Params, notes: &mut Notes) -> Verdict {
    let s = secrets::<C>(rng, p)?;
    note_producers(&s, notes);
    let z = scalar_bytes::<C>(&zero::<C>());
    let is_zero = |b: Vec<u8>, what: &str| check(b == z, &format!("after zeroize() the {what} is zero"), hex(&z), hex(&b));
    let json_of = |v: Result<String, serde_json::Error>| v.ok().map(|t| t.into_bytes());

    for (from, sh) in &s.secret_shares {
        let mut x = sh.clone();
        let before = vec![x.signing_share().serialize()];
        x.zeroize();
        is_zero(x.signing_share().serialize(), &format!("signing share of SecretShare (from {from})"))?;
        gone::<C>(&format!("SecretShare (from {from})"), &before, &[x.serialize().ok(), json_of(serde_json::to_string(&x))])?;
    }
    for (from, kp) in &s.kps {
        let mut share = *kp.signing_share();
        share.zeroize();
        is_zero(share.serialize(), &format!("SigningShare (of the key package from {from})"))?;
        let mut x = kp.clone();
        let before = vec![x.signing_share().serialize()];
        x.zeroize();
        is_zero(x.signing_share().serialize(), &format!("signing share of KeyPackage (from {from})"))?;
        gone::<C>(&format!("KeyPackage (from {from})"), &before, &[x.serialize().ok(), json_of(serde_json::to_string(&x))])?;
    }
    for (from, n) in &s.nonces {
        let mut x = n.clone();
        let before = vec![x.hiding().serialize(), x.binding().serialize()];
        x.zeroize();
        is_zero(x.hiding().serialize(), &format!("hiding nonce of SigningNonces (from {from})"))?;
        is_zero(x.binding().serialize(), &format!("binding nonce of SigningNonces (from {from})"))?;
        gone::<C>(&format!("SigningNonces (from {from})"), &before, &[x.serialize().ok(), json_of(serde_json::to_string(&x))])?;
        let mut nonce = *n.hiding();
        nonce.zeroize();
        is_zero(nonce.serialize(), &format!("round1::Nonce (from {from})"))?;
    }
    if let Some((_, kp)) = s.kps.first() {
        let mut nonce = fc::round1::Nonce::<C>::new(kp.signing_share(), rng);
        nonce.zeroize();
        is_zero(nonce.serialize(), "Nonce")?;
    }
    for (from, r1) in &s.r1s {
        let mut x = r1.clone();
        let before: Vec<Vec<u8>> = x.coefficients().iter().map(scalar_bytes::<C>).collect();
        x.zeroize();
        for (i, c) in x.coefficients().iter().enumerate() {
            is_zero(scalar_bytes::<C>(c), &format!("polynomial coefficient {i} (of {}) of dkg::round1::SecretPackage (from {from})", before.len()))?;
        }
        gone::<C>(&format!("dkg::round1::SecretPackage (from {from})"), &before, &[x.serialize().ok(), json_of(serde_json::to_string(&x))])?;
    }
    for (from, r2) in &s.r2s {
        let mut x = r2.clone();
        let before = vec![scalar_bytes::<C>(&x.secret_share())];
        x.zeroize();
        is_zero(scalar_bytes::<C>(&x.secret_share()), &format!("secret share of dkg::round2::SecretPackage (from {from})"))?;
        gone::<C>(&format!("dkg::round2::SecretPackage (from {from})"), &before, &[x.serialize().ok(), json_of(serde_json::to_string(&x))])?;
    }
    for (from, pk) in &s.r2_pkgs {
        let mut x = pk.clone();
        let before = vec![x.signing_share().serialize()];
        x.zeroize();
        is_zero(x.signing_share().serialize(), &format!("signing share of dkg::round2::Package (from {from})"))?;
        gone::<C>(&format!("dkg::round2::Package (from {from})"), &before, &[x.serialize().ok(), json_of(serde_json::to_string(&x))])?;
    }
    Ok(())
}

// ------------------------------------------------------------------------------------------------
// drop path

/// the in-memory bytes of a scalar (whatever representation the field library uses)
fn raw_scalar<C: Suite>(s: &Sc<C>) -> Vec<u8> {
    let n = std::mem::size_of::<Sc<C>>();
    let p = s as *const Sc<C> as *const u8;
    // SAFETY: `s` is a live, initialised value of a plain-data scalar type
    (0..n).map(|i| unsafe { std::ptr::read_volatile(p.add(i)) }).collect()
}

fn interesting(p: &[u8]) -> bool {
    p.len() >= 16 && p.iter().filter(|b| **b != 0).count() >= 8
}

/// Runs the destructor of `value` in place and reports whether any pattern is still present in the
/// bytes the value occupied.
fn residue_after_drop<T>(value: T, patterns: &[Vec<u8>]) -> Option<usize> {
    let mut slot = std::mem::MaybeUninit::new(value);
    let n = std::mem::size_of::<T>();
    // SAFETY: the slot holds an initialised T; after drop_in_place it is never used as a T again
    unsafe { std::ptr::drop_in_place(slot.as_mut_ptr()) };
    let p = slot.as_ptr() as *const u8;
    let bytes: Vec<u8> = (0..n).map(|i| unsafe { std::ptr::read_volatile(p.add(i)) }).collect();
    patterns
        .iter()
        .position(|pat| interesting(pat) && pat.len() <= bytes.len() && bytes.windows(pat.len()).any(|w| w == pat.as_slice()))
}

fn present_before_drop<T>(value: &T, pattern: &[u8]) -> bool {
    let n = std::mem::size_of::<T>();
    let p = value as *const T as *const u8;
    let bytes: Vec<u8> = (0..n).map(|i| unsafe { std::ptr::read_volatile(p.add(i)) }).collect();
    pattern.len() <= bytes.len() && bytes.windows(pattern.len()).any(|w| w == pattern)
}

fn drop_check<T>(name: &str, value: T, patterns: &[Vec<u8>]) -> Verdict {
    // only patterns that are visibly present in the live value can be looked for afterwards
    let live: Vec<Vec<u8>> = patterns.iter().filter(|p| interesting(p) && present_before_drop(&value, p)).cloned().collect();
    if live.is_empty() {
        drop(value);
        return Ok(());
    }
    match residue_after_drop(value, &live) {
        None => Ok(()),
        Some(_) => fail(
            &format!("dropping a {name} leaves no copy of its secret scalars in the storage it occupied"),
            "storage wiped",
            "the secret scalar is still readable in the dropped value's bytes",
        ),
    }
}

pub fn scenario_drop_wipes_storage<C: Suite>(rng: &mut TestRng, p: &Params, notes: &mut Notes) -> Verdict {
    let s = secrets::<C>(rng, p)?;
    note_producers(&s, notes);
    let raw_of = |b: &[u8]| scalar_from_bytes::<C>(b).map(|x| raw_scalar::<C>(&x)).unwrap_or_default();
    for (from, sk) in s.sks {
        let raw = raw_scalar::<C>(&sk.clone().to_scalar());
        drop_check(&format!("SigningKey (from {from})"), sk, &[raw])?;
    }
    for (from, kp) in s.kps {
        let raw = raw_scalar::<C>(&share_scalar::<C>(kp.signing_share())?);
        drop_check(&format!("KeyPackage (from {from})"), kp, &[raw])?;
    }
    for (from, sh) in s.secret_shares {
        let raw = raw_scalar::<C>(&share_scalar::<C>(sh.signing_share())?);
        drop_check(&format!("SecretShare (from {from})"), sh, &[raw])?;
    }
    for (from, n) in s.nonces {
        let (hid, bin) = (raw_of(&n.hiding().serialize()), raw_of(&n.binding().serialize()));
        drop_check(&format!("SigningNonces (from {from})"), n, &[hid, bin])?;
    }
    for (from, r2) in s.r2s {
        let raw = raw_scalar::<C>(&r2.secret_share());
        drop_check(&format!("dkg::round2::SecretPackage (from {from})"), r2, &[raw])?;
    }
    for (from, pk) in s.r2_pkgs {
        let raw = raw_scalar::<C>(&share_scalar::<C>(pk.signing_share())?);
        drop_check(&format!("dkg::round2::Package (from {from})"), pk, &[raw])?;
    }
    // dkg::round1::SecretPackage keeps its coefficients in a heap buffer: watch what is handed back to the allocator
    for (from, r1) in s.r1s {
        let coeffs: Vec<Sc<C>> = r1.coefficients();
        let coeff_raw: Vec<Vec<u8>> = coeffs.iter().map(raw_scalar::<C>).filter(|p| interesting(p)).collect();
        crate::alloc_watch::start(&coeff_raw);
        drop(r1);
        let (hits, freed) = crate::alloc_watch::stop();
        check(
            hits == 0,
            &if from == "dkg::part1" {
                "dropping a dkg::round1::SecretPackage wipes the heap buffer of its polynomial coefficients before freeing it".to_string()
            } else {
                format!("dropping a dkg::round1::SecretPackage (from {from}) wipes the heap buffer of its polynomial coefficients before freeing it")
            },
            "no coefficient in any freed block",
            format!("{hits} coefficient(s) found in freed memory ({freed} bytes freed)"),
        )?;
    }
    Ok(())
}
