//! C09: DKG under a network that may deliver, in each sender's slot, any contribution that sender
//! made for anyone in any concurrent run (or nothing).  Every participant step either fails or
//! yields internally consistent key material; participants that complete on one common set of
//! round-one contributions hold the same public key package (equal to what the commitments alone
//! give) and can sign together; a round-two share is accepted only if addressed to this recipient
//! and belonging to the round-one contribution filed for the same sender.

use std::collections::BTreeMap;

use frost_core::keys::dkg;
use frost_core::keys::{KeyPackage, PublicKeyPackage, VerifiableSecretSharingCommitment};
use serde_json::json;

use crate::c01::honest_session_checks;
use crate::c07::key_package_consistent;
use crate::common::*;
use crate::rng::TestRng;
use crate::{scn, Scenario};

pub fn scenarios() -> Vec<Scenario> {
    vec![
        scn!(scenario_public_package_from_commitments, 2),
        scn!(scenario_network_mixes_runs, 4),
        scn!(scenario_common_view_of_mixed_contributions, 2),
        crate::wrap::scn_dkg(2),
    ]
}

/// What the published commitments alone give (with the suite's post-processing of DKG output).
fn package_from_commitments<C: Suite>(
    commitments: &BTreeMap<Id<C>, VerifiableSecretSharingCommitment<C>>,
    like: &KeyPackage<C>,
) -> Result<PublicKeyPackage<C>, Stop> {
    let refs: BTreeMap<Id<C>, &VerifiableSecretSharingCommitment<C>> = commitments.iter().map(|(k, v)| (*k, v)).collect();
    let raw = must(
        PublicKeyPackage::<C>::from_dkg_commitments(&refs),
        "PublicKeyPackage::from_dkg_commitments of the published commitments",
    )?;
    if !C::IS_TAPROOT {
        return Ok(raw);
    }
    // the Taproot suite post-processes DKG output (even-Y + unspendable tweak); apply the same public
    // transformation through the ciphersuite hook with a dummy key package for the untweaked key
    let dummy = KeyPackage::<C>::new(*like.identifier(), *like.signing_share(), *like.verifying_share(), *raw.verifying_key(), *like.min_signers());
    let (_, pkp) = need(C::post_dkg(dummy, raw), "post_dkg")?;
    Ok(pkp)
}

pub fn scenario_public_package_from_commitments<C: Suite>(rng: &mut TestRng, p: &Params, notes: &mut Notes) -> Verdict {
    let ids = make_ids::<C>(&p.ids)?;
    let run = dkg_rounds::<C>(rng, &ids, p.n, p.t, false)?;
    let fin = dkg_finish::<C>(&run, false)?;
    let commitments: BTreeMap<Id<C>, VerifiableSecretSharingCommitment<C>> =
        run.r1_pkg.iter().map(|(k, v)| (*k, v.commitment().clone())).collect();
    let mut expected = None;
    for (id, (kp, pkp)) in &fin {
        let want = match &expected {
            Some(w) => w,
            None => {
                expected = Some(package_from_commitments::<C>(&commitments, kp)?);
                match &expected {
                    Some(w) => w,
                    None => return skip("internal"),
                }
            }
        };
        check(
            pkp == want,
            &format!("the public key package of participant {} equals what the published commitments alone give", id_hex::<C>(id)),
            short_dbg(want),
            short_dbg(pkp),
        )?;
    }
    // a participant that holds a different commitment for one sender obtains a different package
    let me = match ids.get(rng.below(ids.len())) {
        Some(i) => *i,
        None => return skip("internal"),
    };
    let x = match ids.iter().find(|i| **i != me) {
        Some(i) => *i,
        None => return skip("internal"),
    };
    notes.insert("participant_hex".into(), json!(id_hex::<C>(&me)));
    notes.insert("sender_with_other_commitment_hex".into(), json!(id_hex::<C>(&x)));
    let other = dkg_rounds::<C>(rng, &ids, p.n, p.t, false)?;
    let mut r1 = run.r1_for(&me);
    let mut r2 = run.r2_for(&me);
    if let (Some(a), Some(b)) = (other.r1_pkg.get(&x), other.r2_out.get(&x).and_then(|m| m.get(&me))) {
        r1.insert(x, a.clone());
        r2.insert(x, b.clone());
    }
    let secret = match run.r1_secret.get(&me) {
        Some(s) => s.clone(),
        None => return skip("internal"),
    };
    if let Ok((s2, _)) = dkg::part2::<C>(secret, &r1) {
        if let Ok((kp, pkp)) = dkg::part3::<C>(&s2, &r1, &r2) {
            if let Some((_, honest_pkp)) = fin.get(&me) {
                check(
                    &pkp != honest_pkp,
                    "a participant holding a different commitment for one sender derives a different public key package",
                    "different packages",
                    "identical packages",
                )?;
            }
            key_package_consistent::<C>(&kp, &pkp, &me, p.t, "completed on a divergent round-one set")?;
        }
    }
    Ok(())
}

/// Delivery choices for the slots of one participant `me`.  One, several (two, three, an even number, all) or ALL sender slots
/// deviate from the honest delivery, each with its own (round-one, round-two) content; the concurrent run B may have another
/// threshold than run A.  "Everything from run B" is the delivery in which `me` (executing run A) is fed run B's round-one
/// packages and the matching shares in every slot.
pub fn scenario_network_mixes_runs<C: Suite>(rng: &mut TestRng, p: &Params, notes: &mut Notes) -> Verdict {
    let ids = make_ids::<C>(&p.ids)?;
    let shape = ["one-slot", "one-slot", "several-slots", "several-slots", "several-slots", "everything-from-run-B", "everything-from-run-B"][rng.below(7)];
    // run A is the one `me` takes part in; run B is concurrent, possibly with another threshold (same n)
    let other_threshold = if shape == "everything-from-run-B" { 70 } else { 50 };
    let t_b = if rng.chance(other_threshold) {
        match rng.below(2) {
            0 if p.t < p.n => p.t + 1,
            _ if p.t > 2 => p.t - 1,
            _ if p.t < p.n => p.t + 1,
            _ => p.t,
        }
    } else {
        p.t
    };
    notes.insert("threshold_of_concurrent_run".into(), json!(t_b));
    notes.insert("delivery_shape".into(), json!(shape));
    let a = dkg_rounds::<C>(rng, &ids, p.n, p.t, false)?;
    dkg_finish::<C>(&a, false)?;
    let b = dkg_rounds::<C>(rng, &ids, p.n, t_b, false)?;
    // the receiver: anybody; the lowest and the highest identifier are over-represented (first / last entry of every map)
    let mut sorted = ids.clone();
    sorted.sort();
    let me = match rng.below(10) {
        0..=2 => sorted.first().copied(),
        3..=4 => sorted.last().copied(),
        _ => ids.get(rng.below(ids.len())).copied(),
    };
    let me = match me {
        Some(m) => m,
        None => return skip("internal"),
    };
    let others: Vec<Id<C>> = sorted.iter().filter(|i| **i != me).copied().collect();
    notes.insert("participant_hex".into(), json!(id_hex::<C>(&me)));
    notes.insert("participant_rank".into(), json!(sorted.iter().position(|i| *i == me)));

    // which sender slots deviate
    let k = match shape {
        "one-slot" => 1,
        "everything-from-run-B" => others.len(),
        _ => match rng.below(6) {
            0 | 1 | 2 => 2,
            3 => 3,
            4 => 2 * rng.range(1, (others.len() / 2).max(1)),
            _ => others.len(),
        },
    }
    .min(others.len())
    .max(1);
    let chosen: Vec<Id<C>> = rng.subset(others.len(), k).iter().filter_map(|i| others.get(*i)).copied().collect();

    let r1_choices = ["run-A", "run-B"];
    let r2_choices = ["run-A-to-me", "run-B-to-me", "run-A-to-someone-else", "run-B-to-someone-else", "nothing"];
    // several slots: the same deviation everywhere (50 %) or an independent one per slot
    let uniform = rng.chance(50);
    let common = (r1_choices[rng.below(2)], r2_choices[rng.below(5)]);
    let mut r1 = a.r1_for(&me);
    let mut r2 = a.r2_for(&me);
    let mut all_match = true;
    let mut log = Vec::new();
    for (j, x) in chosen.iter().enumerate() {
        let (mut r1c, mut r2c) = if shape == "everything-from-run-B" {
            ("run-B", "run-B-to-me")
        } else if uniform {
            common
        } else {
            (r1_choices[rng.below(2)], r2_choices[rng.below(5)])
        };
        // a third party whose share can be delivered instead
        let third: Option<Id<C>> = {
            let cands: Vec<Id<C>> = ids.iter().filter(|i| **i != me && *i != x).copied().collect();
            cands.get(rng.below(cands.len().max(1))).copied()
        };
        if third.is_none() && r2c.ends_with("someone-else") {
            r2c = "nothing";
        }
        if r1c == "run-A" && r2c == "run-A-to-me" {
            // that is the honest delivery; make it interesting
            r2c = if rng.chance(50) { "run-B-to-me" } else { "nothing" };
        }
        if shape == "everything-from-run-B" && j > 0 && rng.chance(10) {
            // ... with an occasional slot that is not even consistent with run B
            r2c = ["run-A-to-me", "run-B-to-someone-else", "nothing"][rng.below(3)];
            if third.is_none() && r2c.ends_with("someone-else") {
                r2c = "nothing";
            }
        }
        if shape == "everything-from-run-B" {
            r1c = "run-B";
        }
        if r1c == "run-B" {
            match b.r1_pkg.get(x) {
                Some(pk) => {
                    r1.insert(*x, pk.clone());
                }
                None => return skip("internal"),
            }
        }
        let pick = |run: &DkgRun<C>, to: &Id<C>| run.r2_out.get(x).and_then(|m| m.get(to)).cloned();
        let delivered = match r2c {
            "run-A-to-me" => pick(&a, &me),
            "run-B-to-me" => pick(&b, &me),
            "run-A-to-someone-else" => third.and_then(|t| pick(&a, &t)),
            "run-B-to-someone-else" => third.and_then(|t| pick(&b, &t)),
            _ => None,
        };
        match delivered {
            Some(pk) => {
                r2.insert(*x, pk);
            }
            None => {
                r2.remove(x);
            }
        }
        // the share is acceptable iff it is X's share for me from the run whose round-one package is filed
        let share_matches = (r1c == "run-A" && r2c == "run-A-to-me") || (r1c == "run-B" && r2c == "run-B-to-me");
        all_match &= share_matches;
        log.push(json!({"sender": id_hex::<C>(x), "sender_rank_among_peers": others.iter().position(|i| i == x), "round_one_slot": r1c, "round_two_slot": r2c}));
    }
    notes.insert("deviating_slots".into(), json!(log.len()));
    let slots = log.iter().map(|l| format!("{} / {}", l["round_one_slot"].as_str().unwrap_or("?"), l["round_two_slot"].as_str().unwrap_or("?"))).collect::<Vec<_>>().join("; ");
    notes.insert("slots".into(), json!(log));

    let secret = match a.r1_secret.get(&me) {
        Some(s) => s.clone(),
        None => return skip("internal"),
    };
    let (s2, _) = match dkg::part2::<C>(secret, &r1) {
        Ok(x) => x,
        Err(_) => return Ok(()), // a failing step is always acceptable
    };
    match dkg::part3::<C>(&s2, &r1, &r2) {
        Err(_) => Ok(()),
        Ok((kp, pkp)) => {
            check(
                all_match,
                &format!("part3 accepts a round-two share only if it was addressed to this recipient and belongs to the round-one contribution filed for the same sender ({} deviating slot(s): {slots})", log.len()),
                "Err(..)",
                "Ok(key material)",
            )?;
            key_package_consistent::<C>(&kp, &pkp, &me, p.t, &format!("key material completed with slot contents {slots}"))
        }
    }
}

/// All participants (X included) use X's contribution from the concurrent run consistently: they
/// complete on one common set of round-one contributions, so they hold the same package and can sign.
pub fn scenario_common_view_of_mixed_contributions<C: Suite>(rng: &mut TestRng, p: &Params, notes: &mut Notes) -> Verdict {
    let ids = make_ids::<C>(&p.ids)?;
    let a = dkg_rounds::<C>(rng, &ids, p.n, p.t, false)?;
    let b = dkg_rounds::<C>(rng, &ids, p.n, p.t, false)?;
    let x = match ids.get(rng.below(ids.len())) {
        Some(i) => *i,
        None => return skip("internal"),
    };
    notes.insert("sender_using_concurrent_run_hex".into(), json!(id_hex::<C>(&x)));
    let mut kps = BTreeMap::new();
    let mut pkps: Vec<PublicKeyPackage<C>> = Vec::new();
    for me in &ids {
        // X itself continues with its run-B state; its peers' packages are the run-A ones
        let (secret, mut r1, mut r2) = if *me == x {
            match b.r1_secret.get(me) {
                Some(s) => (s.clone(), a.r1_for(me), a.r2_for(me)),
                None => return skip("internal"),
            }
        } else {
            match a.r1_secret.get(me) {
                Some(s) => (s.clone(), a.r1_for(me), a.r2_for(me)),
                None => return skip("internal"),
            }
        };
        if *me != x {
            if let (Some(pk1), Some(pk2)) = (b.r1_pkg.get(&x), b.r2_out.get(&x).and_then(|m| m.get(me))) {
                r1.insert(x, pk1.clone());
                r2.insert(x, pk2.clone());
            }
        } else {
            // shares addressed to X by the others were computed in run A from their run-A polynomials: fine
            r1 = a.r1_for(me);
            r2 = a.r2_for(me);
        }
        let (s2, _) = must(dkg::part2::<C>(secret, &r1), "part2 on a common (mixed-run) set of round-one contributions")?;
        let (kp, pkp) = must(dkg::part3::<C>(&s2, &r1, &r2), "part3 on a common (mixed-run) set of contributions with matching shares")?;
        key_package_consistent::<C>(&kp, &pkp, me, p.t, "mixed-run completion")?;
        kps.insert(*me, kp);
        pkps.push(pkp);
    }
    let first = match pkps.first() {
        Some(f) => f.clone(),
        None => return skip("internal"),
    };
    for pk in &pkps {
        check(pk == &first, "participants completing on one common set of round-one contributions hold the same public key package", short_dbg(&first), short_dbg(pk))?;
    }
    let signers: Vec<Id<C>> = p.signers.iter().filter_map(|i| ids.get(*i)).copied().collect();
    let sess = run_session::<C>(rng, &kps, &signers, &p.message, true)?;
    honest_session_checks::<C>(&first, &sess, &p.message)
}
