//! C11: share repair.  For any group, any participant identifier (existing or new) and any >= t
//! distinct helpers, the three repair parts give a key package whose signing share is the group
//! polynomial at that identifier, with matching verifying share, group key and threshold; each
//! helper's deltas sum to its Lagrange-weighted share.  Too few / duplicate helpers, or a helper
//! list that omits the caller, are refused.

use std::collections::BTreeMap;

use frost_core as fc;
use frost_core::keys::repairable::{self, Delta, Sigma};
use frost_core::keys::{self, KeyPackage, PublicKeyPackage};
use serde_json::json;

use crate::common::*;
use crate::rng::TestRng;
use crate::{scn, Scenario};

pub fn scenarios() -> Vec<Scenario> {
    vec![
        scn!(scenario_repair, 3),
        scn!(scenario_repair_refusals, 1),
        crate::wrap::scn_repair(1),
    ]
}

/// Runs parts one and two for all helpers; returns the sigmas (in helper order) or the failing step.
/// `check_deltas`: additionally compare each helper's delta sum with an independently computed
/// Lagrange-weighted share.
pub fn repair_parts_1_2<C: Suite>(
    rng: &mut TestRng,
    helpers: &[Id<C>],
    key_packages: &BTreeMap<Id<C>, KeyPackage<C>>,
    participant: Id<C>,
    strict: bool,
    check_deltas: bool,
) -> Result<Vec<Sigma<C>>, Stop> {
    let mut received: BTreeMap<Id<C>, Vec<Delta<C>>> = BTreeMap::new();
    let xs: Vec<Sc<C>> = helpers.iter().map(id_scalar::<C>).collect::<Result<_, _>>()?;
    let x = id_scalar::<C>(&participant)?;
    for h in helpers {
        let kp = match key_packages.get(h) {
            Some(k) => k,
            None => return skip("helper without key package"),
        };
        let deltas = step(
            strict,
            repairable::repair_share_part1::<C, _>(helpers, kp, rng, participant),
            "repair_share_part1 with >= t distinct helpers including the caller",
        )?;
        if check_deltas {
            check(
                deltas.keys().copied().collect::<Vec<_>>() == {
                    let mut s = helpers.to_vec();
                    s.sort();
                    s
                },
                "repair_share_part1 returns one delta per helper",
                format!("{:?}", ids_hex::<C>(helpers)),
                format!("{:?}", deltas.keys().map(id_hex::<C>).collect::<Vec<_>>()),
            )?;
            let mut sum = zero::<C>();
            for d in deltas.values() {
                match scalar_from_bytes::<C>(&d.serialize()) {
                    Some(s) => sum = sum + s,
                    None => return skip("delta encoding"),
                }
            }
            let xi = id_scalar::<C>(h)?;
            let zeta = match lagrange::<C>(&xs, &xi, &x) {
                Some(z) => z,
                None => return skip("lagrange"),
            };
            let want = zeta * share_scalar::<C>(kp.signing_share())?;
            check(
                sum == want,
                "a helper's outgoing deltas sum to its Lagrange-weighted share (coefficient evaluated at the repaired identifier)",
                hex(&scalar_bytes::<C>(&want)),
                hex(&scalar_bytes::<C>(&sum)),
            )?;
        }
        for (to, d) in deltas {
            received.entry(to).or_default().push(d);
        }
    }
    Ok(helpers
        .iter()
        .map(|h| repairable::repair_share_part2::<C>(received.get(h).map(|v| v.as_slice()).unwrap_or(&[])))
        .collect())
}

pub fn scenario_repair<C: Suite>(rng: &mut TestRng, p: &Params, notes: &mut Notes) -> Verdict {
    let keys = keygen::<C>(rng, p, false)?;
    let n = p.n as usize;
    let t = p.t as usize;
    // who gets repaired: an existing member (needs t OTHER members) or a new identifier
    let new_id = n == t || rng.chance(35);
    let (participant, pool): (Id<C>, Vec<Id<C>>) = if new_id {
        let cand = match rng.below(5) {
            0 | 1 => need(Id::<C>::try_from(rng.range(20000, 30000) as u16), "id")?,
            2 | 3 => need(Id::<C>::derive(format!("newcomer-{}", rng.below(1000)).as_bytes()), "derive")?,
            _ => {
                // an identifier from the edge of the scalar range (order-1, 2^top, ...)
                let (name, s) = pick_boundary::<C>(rng, true);
                notes.insert("repaired_identifier_scalar".into(), json!(name));
                need(Id::<C>::new(s), "Identifier::new")?
            }
        };
        if keys.ids.contains(&cand) {
            return skip("new identifier collides");
        }
        (cand, keys.ids.clone())
    } else {
        let r = rng.below(n);
        let part = match keys.ids.get(r) {
            Some(i) => *i,
            None => return skip("internal"),
        };
        (part, keys.ids.iter().filter(|i| **i != part).copied().collect())
    };
    let hsize = match rng.below(4) {
        0 => t,
        1 => pool.len(),
        _ => rng.range(t, pool.len()),
    };
    let mut hidx = rng.subset(pool.len(), hsize);
    if rng.chance(60) {
        rng.shuffle(&mut hidx);
    }
    let helpers: Vec<Id<C>> = hidx.iter().filter_map(|i| pool.get(*i)).copied().collect();
    notes.insert("repaired_participant_hex".into(), json!(id_hex::<C>(&participant)));
    notes.insert("repaired_is_new_identifier".into(), json!(new_id));
    notes.insert("helpers_hex".into(), json!(ids_hex::<C>(&helpers)));
    notes.insert("helper_count".into(), json!(helpers.len()));

    let sigmas = repair_parts_1_2::<C>(rng, &helpers, &keys.key_packages, participant, true, true)?;
    let kp = must(
        repairable::repair_share_part3::<C>(&sigmas, participant, &keys.pubkeys),
        "repair_share_part3 with the sigmas of all helpers",
    )?;

    check(
        *kp.identifier() == participant,
        "repaired key package carries the participant's identifier",
        id_hex::<C>(&participant),
        id_hex::<C>(kp.identifier()),
    )?;
    check(
        *kp.min_signers() == p.t,
        "repaired key package records the group's threshold",
        p.t.to_string(),
        kp.min_signers().to_string(),
    )?;
    check(
        kp.verifying_key() == keys.pubkeys.verifying_key(),
        "repaired key package carries the group key",
        hex(&vkey_bytes::<C>(keys.pubkeys.verifying_key())),
        hex(&vkey_bytes::<C>(kp.verifying_key())),
    )?;
    let s = share_scalar::<C>(kp.signing_share())?;
    check(
        vshare_bytes::<C>(kp.verifying_share()) == elem_bytes::<C>(&base_mul::<C>(&s)),
        "repaired verifying share equals generator * repaired signing share",
        hex(&elem_bytes::<C>(&base_mul::<C>(&s))),
        hex(&vshare_bytes::<C>(kp.verifying_share())),
    )?;
    if let Some(orig) = keys.key_packages.get(&participant) {
        check(
            kp.signing_share() == orig.signing_share(),
            "the repaired signing share equals the share that was lost",
            "equal to the original share",
            "a different scalar",
        )?;
        if let Some(v) = keys.pubkeys.verifying_shares().get(&participant) {
            check(
                v == kp.verifying_share(),
                "the repaired verifying share equals the group's entry for the participant",
                hex(&vshare_bytes::<C>(v)),
                hex(&vshare_bytes::<C>(kp.verifying_share())),
            )?;
        }
    }
    // the share lies on the group polynomial: together with t-1 other holders it interpolates to the group secret
    let mut kps = vec![kp.clone()];
    let others: Vec<Id<C>> = keys.ids.iter().filter(|i| **i != participant).copied().collect();
    for i in rng.subset(others.len(), t - 1) {
        if let Some(k) = others.get(i).and_then(|id| keys.key_packages.get(id)) {
            kps.push(k.clone());
        }
    }
    let sk = must(keys::reconstruct::<C>(&kps), "reconstruct from the repaired key package and t-1 others")?;
    let vk = fc::VerifyingKey::<C>::from(&sk);
    check(
        &vk == keys.pubkeys.verifying_key(),
        "the repaired share is the group polynomial evaluated at the participant's identifier",
        hex(&vkey_bytes::<C>(keys.pubkeys.verifying_key())),
        hex(&vkey_bytes::<C>(&vk)),
    )
}

pub fn scenario_repair_refusals<C: Suite>(rng: &mut TestRng, p: &Params, notes: &mut Notes) -> Verdict {
    let keys = keygen::<C>(rng, p, false)?;
    let n = p.n as usize;
    let t = p.t as usize;
    let participant = need(Id::<C>::derive(b"the participant that lost its share"), "derive")?;
    if keys.ids.contains(&participant) {
        return skip("collision");
    }
    let caller = match keys.ids.get(rng.below(n)) {
        Some(i) => *i,
        None => return skip("internal"),
    };
    let kp = match keys.key_packages.get(&caller) {
        Some(k) => k,
        None => return skip("internal"),
    };
    let others: Vec<Id<C>> = keys.ids.iter().filter(|i| **i != caller).copied().collect();
    let kinds = ["too-few-helpers", "duplicate-adjacent", "duplicate-non-adjacent", "duplicate-of-caller", "caller-omitted"];
    let kind = kinds[rng.below(kinds.len())];
    notes.insert("fault".into(), json!(kind));
    notes.insert("caller_hex".into(), json!(id_hex::<C>(&caller)));
    let mut helpers: Vec<Id<C>> = match kind {
        "too-few-helpers" => {
            let mut h = vec![caller];
            h.extend(others.iter().take(t.saturating_sub(2)).copied());
            h
        }
        "caller-omitted" => {
            if others.len() < t {
                return skip("not enough other members");
            }
            others.iter().take(rng.range(t, others.len())).copied().collect()
        }
        _ => {
            // a valid base list of t..n helpers including the caller
            let k = rng.range(t - 1, others.len());
            let mut h = vec![caller];
            let sub = rng.subset(others.len(), k);
            h.extend(sub.iter().filter_map(|i| others.get(*i)).copied());
            h
        }
    };
    match kind {
        "duplicate-adjacent" => {
            let i = rng.below(helpers.len());
            if let Some(d) = helpers.get(i).copied() {
                helpers.insert(i, d);
            }
        }
        "duplicate-non-adjacent" => {
            // [a, b, ..., a]: repeat an entry at distance >= 2
            rng.shuffle(&mut helpers);
            if let Some(d) = helpers.first().copied() {
                helpers.push(d);
            }
            if helpers.len() < 3 {
                return skip("list too short for a non-adjacent repeat");
            }
        }
        "duplicate-of-caller" => {
            rng.shuffle(&mut helpers);
            let pos = helpers.iter().position(|h| *h == caller).unwrap_or(0);
            // put the second copy of the caller as far away as possible
            if pos * 2 >= helpers.len() {
                helpers.insert(0, caller);
            } else {
                helpers.push(caller);
            }
        }
        "too-few-helpers" | "caller-omitted" => {
            rng.shuffle(&mut helpers);
        }
        _ => {}
    }
    notes.insert("helpers_hex".into(), json!(ids_hex::<C>(&helpers)));
    match repairable::repair_share_part1::<C, _>(&helpers, kp, rng, participant) {
        Err(_) => Ok(()),
        Ok(m) => fail(
            &format!("repair_share_part1 refuses a bad helper list ({kind})"),
            "Err(..)",
            format!("Ok(map with {} deltas for a helper list of {} entries)", m.len(), helpers.len()),
        ),
    }
}

#[allow(dead_code)]
pub fn legacy_public_key_package<C: Suite>(pkp: &PublicKeyPackage<C>) -> PublicKeyPackage<C> {
    PublicKeyPackage::<C>::new(pkp.verifying_shares().clone(), *pkp.verifying_key(), None)
}
