//! C04: aggregation returns only valid signatures; if the submitted shares do not add up, the error
//! names exactly the cheaters (first / all / nobody, depending on the detection mode) and never an
//! honest participant; errors that cancel can at most give a valid signature.

use std::collections::{BTreeMap, BTreeSet};

use frost_core as fc;
use frost_core::CheaterDetection;
use serde_json::json;

use crate::common::*;
use crate::rng::TestRng;
use crate::c17::scenario_rerandomized_cheaters_and_threshold;
use crate::{scn, Scenario};

pub fn scenarios() -> Vec<Scenario> {
    vec![
        scn!(scenario_cheaters_named, 4),
        scn!(scenario_cancelling_errors, 1),
        crate::wrap::scn_sign_aggregate(1),
        // the same statement for the re-randomized aggregation entry points (seeded2/C04_1 sits there)
        scn!(scenario_rerandomized_cheaters_and_threshold, 1),
    ]
}

const TAMPER_KINDS: [&str; 8] =
    ["add-random", "add-one", "zero-share", "other-signers-share", "random-share", "negated", "share-of-another-session", "boundary-value"];

/// Replaces the shares of a random non-empty subset of the signers by wrong ones.
/// Returns (tampered shares, set of participants whose share now differs, sum of all differences).
#[allow(clippy::type_complexity)]
fn tamper<C: Suite>(
    rng: &mut TestRng,
    signers: &[Id<C>],
    honest: &BTreeMap<Id<C>, fc::round2::SignatureShare<C>>,
    other_session: &BTreeMap<Id<C>, fc::round2::SignatureShare<C>>,
    notes: &mut Notes,
) -> Result<(BTreeMap<Id<C>, fc::round2::SignatureShare<C>>, BTreeSet<Id<C>>, Sc<C>), Stop> {
    let k = signers.len();
    let ncheat = match rng.below(8) {
        0 | 1 => 1,
        2 | 3 => 2.min(k),
        4 => 3.min(k),
        5 => k,
        _ => rng.range(1, k),
    };
    let mut cheat_idx = rng.subset(k, ncheat);
    // two or three cheaters that are NOT neighbours in identifier order, the lowest signer honest (where the set allows it)
    if (ncheat == 2 || ncheat == 3) && k >= 2 * ncheat && rng.chance(50) {
        let first = rng.range(1, k - (2 * ncheat - 1));
        cheat_idx = (0..ncheat).map(|j| first + 2 * j).collect();
    }
    let mut shares = honest.clone();
    let mut cheaters = BTreeSet::new();
    let mut total = zero::<C>();
    let mut log = Vec::new();
    for ci in cheat_idx {
        let id = match signers.get(ci) {
            Some(i) => *i,
            None => continue,
        };
        let old = match honest.get(&id) {
            Some(s) => sigshare_scalar::<C>(s)?,
            None => return skip("signer without share"),
        };
        let kind = TAMPER_KINDS[rng.below(TAMPER_KINDS.len())];
        let new = match kind {
            "add-random" => old + random_nonzero_scalar::<C>(rng),
            "add-one" => old + one::<C>(),
            "zero-share" => zero::<C>(),
            "other-signers-share" => {
                let other = signers.get((ci + 1 + rng.below(k.max(2) - 1)) % k).copied().unwrap_or(id);
                match honest.get(&other) {
                    Some(s) => sigshare_scalar::<C>(s)?,
                    None => old,
                }
            }
            "negated" => zero::<C>() - old,
            "share-of-another-session" => match other_session.get(&id) {
                // the same signer's honest share for the same message under other nonces
                Some(s) => sigshare_scalar::<C>(s)?,
                None => old + one::<C>(),
            },
            "boundary-value" => pick_boundary::<C>(rng, false).1,
            _ => random_nonzero_scalar::<C>(rng),
        };
        if new != old {
            cheaters.insert(id);
            total = total + (new - old);
        }
        shares.insert(id, make_sigshare::<C>(&new)?);
        log.push(json!({"participant": id_hex::<C>(&id), "signer_rank": ci, "tamper": kind, "differs": new != old}));
    }
    notes.insert("tampered".into(), json!(log));
    Ok((shares, cheaters, total))
}

pub fn scenario_cheaters_named<C: Suite>(rng: &mut TestRng, p: &Params, notes: &mut Notes) -> Verdict {
    let (keys, signers, sess) = setup_session::<C>(rng, p)?;
    need(
        fc::aggregate::<C>(&sess.package, &sess.shares, &keys.pubkeys),
        "honest aggregation (subject of C01)",
    )?;
    // a second session of the same signers on the same message (other nonces): a source of well-formed wrong shares
    let other = run_session::<C>(rng, &keys.key_packages, &signers, &p.message, false)?;
    let (shares, cheaters, total) = tamper::<C>(rng, &signers, &sess.shares, &other.shares, notes)?;
    if cheaters.is_empty() {
        return skip("tampering left every share unchanged");
    }
    let cheaters_v: Vec<Id<C>> = cheaters.iter().copied().collect();
    notes.insert("cheaters_hex".into(), json!(ids_hex::<C>(&cheaters_v)));
    let sum_is_valid = total == zero::<C>();
    let vk = keys.pubkeys.verifying_key();

    // the standalone share check tells honest from altered shares
    for id in &signers {
        let (vs, sh) = match (keys.pubkeys.verifying_shares().get(id), shares.get(id)) {
            (Some(a), Some(b)) => (a, b),
            _ => return skip("missing verifying share"),
        };
        let r = fc::verify_signature_share::<C>(*id, vs, sh, &sess.package, vk);
        if cheaters.contains(id) {
            let e = must_refuse(r, "verify_signature_share of an altered share")?;
            check(
                e.culprits() == vec![*id],
                "verify_signature_share names the owner of the altered share",
                format!("[{}]", id_hex::<C>(id)),
                format!("{:?} ({e:?})", culprits_hex::<C>(&e)),
            )?;
        } else {
            must(r, "verify_signature_share of an unaltered share in a session with cheaters")?;
        }
    }

    let modes: [(&str, Option<CheaterDetection>); 4] = [
        ("aggregate()", None),
        ("aggregate_custom(FirstCheater)", Some(CheaterDetection::FirstCheater)),
        ("aggregate_custom(AllCheaters)", Some(CheaterDetection::AllCheaters)),
        ("aggregate_custom(Disabled)", Some(CheaterDetection::Disabled)),
    ];
    for (name, mode) in modes {
        let is_all = matches!(mode, Some(CheaterDetection::AllCheaters));
        let is_disabled = matches!(mode, Some(CheaterDetection::Disabled));
        let r = match mode {
            None => fc::aggregate::<C>(&sess.package, &shares, &keys.pubkeys),
            Some(m) => fc::aggregate_custom::<C>(&sess.package, &shares, &keys.pubkeys, m),
        };
        match r {
            Ok(sig) => {
                // whenever aggregation returns a signature it is valid
                must(
                    vk.verify(&p.message, &sig),
                    &format!("{name} returned Ok: the returned signature verifies under the group key"),
                )?;
                check(
                    sum_is_valid,
                    &format!("{name} fails when the shares do not add up to a valid signature"),
                    "Err(..)",
                    "Ok(signature)",
                )?;
            }
            Err(e) => {
                check(
                    !sum_is_valid,
                    &format!("{name} succeeds when the alterations cancel"),
                    "Ok(..)",
                    format!("Err({e:?})"),
                )?;
                let named = e.culprits();
                if is_disabled {
                    check(
                        e == fc::Error::InvalidSignature && named.is_empty(),
                        &format!("{name} reports an invalid signature and names nobody"),
                        "Err(InvalidSignature), culprits []",
                        format!("Err({e:?}), culprits {:?}", culprits_hex::<C>(&e)),
                    )?;
                } else if is_all {
                    let named_set: BTreeSet<_> = named.iter().copied().collect();
                    check(
                        named_set == cheaters && named.len() == cheaters.len(),
                        &format!("{name} names exactly the set of participants whose share was altered"),
                        format!("{:?}", ids_hex::<C>(&cheaters_v)),
                        format!("{:?} ({})", culprits_hex::<C>(&e), short_dbg(&e)),
                    )?;
                } else {
                    // the lowest identifier by NUMERIC value (not by the library's own `Ord`, which is part of what is checked)
                    let mut by_value: Vec<(Vec<u8>, Id<C>)> = Vec::new();
                    for c in &cheaters_v {
                        by_value.push((id_numeric_be::<C>(c)?, *c));
                    }
                    by_value.sort_by(|a, b| a.0.cmp(&b.0));
                    let first = by_value.first().map(|x| x.1);
                    check(
                        Some(named.as_slice()) == first.as_ref().map(std::slice::from_ref),
                        &format!("{name} names exactly the lowest-identifier participant whose share was altered"),
                        format!("{:?}", first.map(|i| id_hex::<C>(&i))),
                        format!("{:?} ({})", culprits_hex::<C>(&e), short_dbg(&e)),
                    )?;
                }
            }
        }
    }
    Ok(())
}

/// Two (or more) participants alter their shares so that the differences add up to zero.
pub fn scenario_cancelling_errors<C: Suite>(rng: &mut TestRng, p: &Params, notes: &mut Notes) -> Verdict {
    let (keys, signers, sess) = setup_session::<C>(rng, p)?;
    need(
        fc::aggregate::<C>(&sess.package, &sess.shares, &keys.pubkeys),
        "honest aggregation (subject of C01)",
    )?;
    let k = signers.len();
    if k < 2 {
        return skip("needs two signers");
    }
    let m = rng.range(2, k.min(4));
    let idx = rng.subset(k, m);
    let mut shares = sess.shares.clone();
    let mut cheaters = BTreeSet::new();
    let mut acc = zero::<C>();
    for (j, ci) in idx.iter().enumerate() {
        let id = match signers.get(*ci) {
            Some(i) => *i,
            None => continue,
        };
        let old = match sess.shares.get(&id) {
            Some(s) => sigshare_scalar::<C>(s)?,
            None => return skip("signer without share"),
        };
        // the last one compensates all earlier differences
        let d = if j + 1 == idx.len() {
            zero::<C>() - acc
        } else {
            random_nonzero_scalar::<C>(rng)
        };
        acc = acc + d;
        if d != zero::<C>() {
            cheaters.insert(id);
        }
        shares.insert(id, make_sigshare::<C>(&(old + d))?);
    }
    let cheaters_v: Vec<Id<C>> = cheaters.iter().copied().collect();
    notes.insert("cancelling_cheaters_hex".into(), json!(ids_hex::<C>(&cheaters_v)));
    for (name, mode) in [
        ("FirstCheater", CheaterDetection::FirstCheater),
        ("AllCheaters", CheaterDetection::AllCheaters),
        ("Disabled", CheaterDetection::Disabled),
    ] {
        match fc::aggregate_custom::<C>(&sess.package, &shares, &keys.pubkeys, mode) {
            Ok(sig) => must(
                keys.pubkeys.verifying_key().verify(&p.message, &sig),
                &format!("aggregate_custom({name}) returned Ok for cancelling alterations: the signature verifies"),
            )?,
            Err(e) => {
                let named: BTreeSet<_> = e.culprits().into_iter().collect();
                check(
                    named.is_subset(&cheaters),
                    &format!("aggregate_custom({name}) never names a participant whose share is the honest one"),
                    format!("subset of {:?}", ids_hex::<C>(&cheaters_v)),
                    format!("{:?}", culprits_hex::<C>(&e)),
                )?;
            }
        }
    }
    Ok(())
}
