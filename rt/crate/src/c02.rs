//! C02: RFC 9591 byte-exactness, by re-computation.  The STRUCTURE of the RFC computations (nonce
//! derivation from the random stream, integer-to-scalar identifier encoding, commitment list encoding
//! in ascending NUMERIC identifier order, binding factor inputs, group commitment, challenge input,
//! interpolation coefficients, signature shares, final signature bytes; BIP-340 conventions for the
//! Taproot suite) is re-implemented here on top of the ciphersuite's public hash functions H1..H5 and
//! group/field operations.  What is NOT independent: the hash-to-scalar functions themselves and the
//! curve arithmetic (those are pinned by the repository's RFC test vectors).
//! Single-signer interoperability uses second implementations (ed25519-dalek, libsecp256k1).

use std::collections::BTreeMap;

use frost_core as fc;
use frost_core::{Ciphersuite, Group};
use serde_json::json;

use crate::c15::scenario_preprocess_batch;
use crate::common::*;
use crate::indep::independent_verify;
use crate::rng::{FixedRng, TestRng};
use crate::{scn, Scenario};

pub fn scenarios() -> Vec<Scenario> {
    vec![
        scn!(scenario_rfc_recomputation, 4),
        scn!(scenario_identifier_encoding, 1),
        scn!(scenario_single_signer_interop, 1),
        // pre-processing k pairs = k successive nonce_generate pairs from the stream (of C15; seeded2/C02_1 sits in preprocess)
        scn!(scenario_preprocess_batch, 1),
    ]
}

fn le<C: Suite>() -> bool {
    scalar_bytes::<C>(&one::<C>()).first() == Some(&1)
}

/// numeric value of an identifier as big-endian bytes (for an ordering independent of `Ord for Identifier`)
fn id_numeric<C: Suite>(id: &Id<C>) -> Vec<u8> {
    let mut b = id.serialize();
    if le::<C>() {
        b.reverse();
    }
    b
}

fn element_from_bytes<C: Suite>(b: &[u8]) -> Option<El<C>> {
    let ser = <<Gr<C> as Group>::Serialization as TryFrom<&[u8]>>::try_from(b).ok()?;
    <Gr<C> as Group>::deserialize(&ser).ok()
}

fn is_odd_y(enc: &[u8]) -> bool {
    enc.first() == Some(&0x03)
}

pub fn scenario_rfc_recomputation<C: Suite>(rng: &mut TestRng, p: &Params, notes: &mut Notes) -> Verdict {
    let keys = keygen::<C>(rng, p, false)?;
    let signers = signer_ids::<C>(&keys, p);
    notes.insert("signers_hex".into(), json!(ids_hex::<C>(&signers)));
    let vk_bytes = vkey_bytes::<C>(keys.pubkeys.verifying_key());
    let neg = |s: Sc<C>| zero::<C>() - s;

    // ---- round one from a known random stream: nonce_generate(first 32 bytes), nonce_generate(next 32 bytes)
    let mut nonces = BTreeMap::new();
    let mut commitments = BTreeMap::new();
    // (hiding nonce, binding nonce, hiding commitment bytes, binding commitment bytes) per signer, by our own derivation
    let mut mine: BTreeMap<Vec<u8>, (Id<C>, Sc<C>, Sc<C>, Vec<u8>, Vec<u8>)> = BTreeMap::new();
    let stream_kind = match rng.below(10) {
        0 => "second-block-equals-first",
        1 => "constant-byte",
        2 => "same-stream-for-every-signer",
        _ => "random",
    };
    notes.insert("random_streams".into(), json!(stream_kind));
    let shared_stream = rng.bytes(64);
    for id in &signers {
        let kp = match keys.key_packages.get(id) {
            Some(k) => k,
            None => return skip("internal"),
        };
        // mostly 64 random bytes; also the degenerate outputs a caller's source may produce (the quantifier of the nonce
        // derivation covers every source output): second block equal to the first, one byte repeated, the same stream for every signer
        let stream = match stream_kind {
            "second-block-equals-first" => {
                let a = rng.bytes(32);
                [a.clone(), a].concat()
            }
            "constant-byte" => vec![[0x00u8, 0xff, rng.below(256) as u8][rng.below(3)]; 64],
            "same-stream-for-every-signer" => shared_stream.clone(),
            _ => rng.bytes(64),
        };
        let mut fixed = FixedRng::new(stream.clone());
        let (n, c) = fc::round1::commit::<C, _>(kp.signing_share(), &mut fixed);
        check(
            fixed.pos == 64,
            "commit(): one nonce pair consumes exactly 64 bytes of the random stream (RFC 9591 section 5.1: two calls of nonce_generate)",
            "64",
            fixed.pos.to_string(),
        )?;
        let share_enc = kp.signing_share().serialize();
        let (r0, r1) = stream.split_at(32);
        let d = <C as Ciphersuite>::H3(&[r0, &share_enc].concat());
        let e = <C as Ciphersuite>::H3(&[r1, &share_enc].concat());
        check(
            n.hiding().serialize() == scalar_bytes::<C>(&d) && n.binding().serialize() == scalar_bytes::<C>(&e),
            "commit(): hiding_nonce = nonce_generate(first 32 random bytes), binding_nonce = nonce_generate(next 32 bytes) (RFC 9591 section 5.1)",
            format!("hiding {} binding {}", hex(&scalar_bytes::<C>(&d)), hex(&scalar_bytes::<C>(&e))),
            format!("hiding {} binding {}", hex(&n.hiding().serialize()), hex(&n.binding().serialize())),
        )?;
        let dc = elem_bytes::<C>(&base_mul::<C>(&d));
        let ec = elem_bytes::<C>(&base_mul::<C>(&e));
        check(
            c.hiding().serialize().ok().as_ref() == Some(&dc) && c.binding().serialize().ok().as_ref() == Some(&ec),
            "commit(): commitments are ScalarBaseMult of the nonces",
            format!("{} {}", hex(&dc), hex(&ec)),
            format!("{:?} {:?}", c.hiding().serialize().map(|b| hex(&b)), c.binding().serialize().map(|b| hex(&b))),
        )?;
        mine.insert(id_numeric::<C>(id), (*id, d, e, dc, ec));
        nonces.insert(*id, n);
        commitments.insert(*id, c);
    }
    let package = fc::SigningPackage::<C>::new(commitments, &p.message);

    // ---- encode_group_commitment_list in ascending numeric identifier order
    let mut encoded = Vec::new();
    for (_, (id, _, _, dc, ec)) in mine.iter() {
        encoded.extend_from_slice(&id.serialize());
        encoded.extend_from_slice(dc);
        encoded.extend_from_slice(ec);
    }
    // ---- binding factors
    // (Taproot suite: every party works with the even-Y lift of the group key, so the key enters the
    // binding factor input with tag 0x02; there is no RFC text for this suite, this is its convention)
    let mut prefix = vk_bytes.clone();
    if C::IS_TAPROOT {
        if let Some(t) = prefix.get_mut(0) {
            *t = 0x02;
        }
    }
    prefix.extend_from_slice(<C as Ciphersuite>::H4(&p.message).as_ref());
    prefix.extend_from_slice(<C as Ciphersuite>::H5(&encoded).as_ref());
    let mut rho: BTreeMap<Vec<u8>, Sc<C>> = BTreeMap::new();
    for (k, (id, ..)) in mine.iter() {
        let mut input = prefix.clone();
        input.extend_from_slice(&id.serialize());
        rho.insert(k.clone(), <C as Ciphersuite>::H1(&input));
    }
    // ---- group commitment
    let mut r_el = <Gr<C> as Group>::identity();
    for (k, (_, d, e, ..)) in mine.iter() {
        let r = match rho.get(k) {
            Some(r) => *r,
            None => return skip("internal"),
        };
        r_el = r_el + base_mul::<C>(d) + base_mul::<C>(e) * r;
    }
    let r_bytes = elem_bytes::<C>(&r_el);
    // ---- challenge
    let (flip_nonces, flip_key, challenge) = if C::IS_TAPROOT {
        // BIP-340: x-only R and P; shares are made for the even-Y lift of both
        let mut pre = r_bytes.get(1..).unwrap_or(&[]).to_vec();
        pre.extend_from_slice(vk_bytes.get(1..).unwrap_or(&[]));
        pre.extend_from_slice(&p.message);
        (is_odd_y(&r_bytes), is_odd_y(&vk_bytes), <C as Ciphersuite>::H2(&pre))
    } else {
        let mut pre = r_bytes.clone();
        pre.extend_from_slice(&vk_bytes);
        pre.extend_from_slice(&p.message);
        (false, false, <C as Ciphersuite>::H2(&pre))
    };
    notes.insert("taproot_parity".into(), json!({"group_commitment_odd": flip_nonces, "group_key_odd": flip_key}));
    // ---- signature shares
    let xs: Vec<Sc<C>> = mine.values().map(|(id, ..)| id_scalar::<C>(id)).collect::<Result<_, _>>()?;
    let mut z_sum = zero::<C>();
    for (k, (id, d, e, ..)) in mine.iter() {
        let (kp, n) = match (keys.key_packages.get(id), nonces.get(id)) {
            (Some(a), Some(b)) => (a, b),
            _ => return skip("internal"),
        };
        let lib = need(fc::round2::sign::<C>(&package, n, kp), "round2::sign")?;
        let lambda = match lagrange::<C>(&xs, &id_scalar::<C>(id)?, &zero::<C>()) {
            Some(l) => l,
            None => return skip("lagrange"),
        };
        let r = match rho.get(k) {
            Some(r) => *r,
            None => return skip("internal"),
        };
        let (d, e) = if flip_nonces { (neg(*d), neg(*e)) } else { (*d, *e) };
        let s = share_scalar::<C>(kp.signing_share())?;
        let s = if flip_key { neg(s) } else { s };
        let z = d + e * r + lambda * s * challenge;
        check(
            lib.serialize() == scalar_bytes::<C>(&z),
            &format!(
                "signature share of {} equals hiding_nonce + binding_nonce * binding_factor + lambda * sk * challenge computed independently (commitment list in ascending numeric identifier order)",
                id_hex::<C>(id)
            ),
            hex(&scalar_bytes::<C>(&z)),
            hex(&lib.serialize()),
        )?;
        z_sum = z_sum + z;
    }
    // ---- final signature bytes
    let mut shares = BTreeMap::new();
    for id in &signers {
        if let (Some(kp), Some(n)) = (keys.key_packages.get(id), nonces.get(id)) {
            shares.insert(*id, need(fc::round2::sign::<C>(&package, n, kp), "round2::sign")?);
        }
    }
    let sig = need(fc::aggregate::<C>(&package, &shares, &keys.pubkeys), "aggregate")?;
    let sig_bytes = need(sig.serialize(), "Signature::serialize")?;
    let mut want = if C::IS_TAPROOT { r_bytes.get(1..).unwrap_or(&[]).to_vec() } else { r_bytes.clone() };
    want.extend_from_slice(&scalar_bytes::<C>(&z_sum));
    check(
        sig_bytes == want,
        "the serialized signature equals SerializeElement(R) || SerializeScalar(sum of shares) computed independently",
        hex(&want),
        hex(&sig_bytes),
    )?;
    if let Some(r) = independent_verify(C::NAME, &vk_bytes, &p.message, &sig_bytes) {
        must(r, "independent single-signer verification of the threshold signature")?;
    }
    let _ = element_from_bytes::<C>;
    Ok(())
}

/// Identifier encodings equal the RFC integer-to-scalar encoding of the participant number.
pub fn scenario_identifier_encoding<C: Suite>(rng: &mut TestRng, p: &Params, notes: &mut Notes) -> Verdict {
    let le = le::<C>();
    let width = scalar_bytes::<C>(&zero::<C>()).len();
    let mut probes: Vec<u16> = vec![1, 2, 255, 256, 257, 32767, 32768, 32769, 65534, 65535];
    for _ in 0..40 {
        probes.push(rng.range(1, 65535) as u16);
    }
    for s in &p.ids {
        if let IdSpec::U16(n) = s {
            probes.push(*n);
        }
    }
    notes.insert("probes".into(), json!(probes.len()));
    let mut seen: BTreeMap<Vec<u8>, u16> = BTreeMap::new();
    for n in probes {
        let id = must(Id::<C>::try_from(n), &format!("Identifier::try_from({n})"))?;
        let mut want = vec![0u8; width];
        let (lo, hi) = ((n & 0xff) as u8, (n >> 8) as u8);
        if le {
            want[0] = lo;
            want[1] = hi;
        } else {
            want[width - 1] = lo;
            want[width - 2] = hi;
        }
        check(
            id.serialize() == want,
            &format!("Identifier::try_from({n}) serializes as the integer-to-scalar encoding of {n}"),
            hex(&want),
            hex(&id.serialize()),
        )?;
        if let Some(prev) = seen.insert(id.serialize(), n) {
            check(prev == n, "distinct participant numbers give distinct identifiers", format!("{prev} != {n}"), "same identifier")?;
        }
        // and as a scalar it is 1 + 1 + ... (n times): check through the field for small n only
        if n <= 300 {
            let mut acc = zero::<C>();
            for _ in 0..n {
                acc = acc + one::<C>();
            }
            check(
                id_scalar::<C>(&id)? == acc,
                &format!("Identifier::try_from({n}) is the field element {n}"),
                hex(&scalar_bytes::<C>(&acc)),
                hex(&id.serialize()),
            )?;
        }
    }
    // ordering of identifiers is the numeric order (it fixes the order of the commitment list)
    let mut ids = make_ids::<C>(&p.ids)?;
    for k in 0..6 {
        ids.push(need(Id::<C>::derive(format!("order-probe-{k}-{}", rng.below(1 << 20)).as_bytes()), "derive")?);
    }
    let mut by_ord = ids.clone();
    by_ord.sort();
    let mut by_num = ids.clone();
    by_num.sort_by_key(|i| id_numeric::<C>(i));
    check(
        by_ord == by_num,
        "identifiers are ordered by their numeric value (ascending order of the commitment list)",
        format!("{:?}", ids_hex::<C>(&by_num)),
        format!("{:?}", ids_hex::<C>(&by_ord)),
    )
}

/// Single-signer entry point: signatures made by SigningKey::sign are ordinary signatures of the
/// scheme (second implementation accepts them), and the library accepts signatures made by the second
/// implementation.  Only for the suites with a second implementation offline (ed25519, secp256k1-tr).
pub fn scenario_single_signer_interop<C: Suite>(rng: &mut TestRng, p: &Params, notes: &mut Notes) -> Verdict {
    let _ = notes;
    let sk = fc::SigningKey::<C>::new(rng);
    let vk = fc::VerifyingKey::<C>::from(&sk);
    let sig = sk.sign(&mut *rng, &p.message);
    must(vk.verify(&p.message, &sig), "VerifyingKey::verify of SigningKey::sign")?;
    let sig_bytes = must(sig.serialize(), "Signature::serialize")?;
    let vk_bytes = vkey_bytes::<C>(&vk);
    match independent_verify(C::NAME, &vk_bytes, &p.message, &sig_bytes) {
        Some(r) => must(r, "a second implementation accepts the signature made by SigningKey::sign")?,
        None => return Ok(()),
    }
    // the other direction
    let seed: [u8; 32] = match rng.bytes(32).try_into() {
        Ok(s) => s,
        Err(_) => return skip("internal"),
    };
    let (their_vk, their_sig): (Vec<u8>, Vec<u8>) = match C::NAME {
        "ed25519" => {
            use ed25519_dalek::Signer;
            let k = ed25519_dalek::SigningKey::from_bytes(&seed);
            (k.verifying_key().to_bytes().to_vec(), k.sign(&p.message).to_bytes().to_vec())
        }
        _ => {
            let secp = secp256k1::Secp256k1::new();
            let kp = match secp256k1::Keypair::from_seckey_byte_array(&secp, seed) {
                Ok(k) => k,
                Err(_) => return skip("seed is not a secret key"),
            };
            let (x, _) = kp.x_only_public_key();
            let mut vkb = vec![0x02u8];
            vkb.extend_from_slice(&x.serialize());
            (vkb, secp.sign_schnorr_no_aux_rand(&p.message, &kp).to_byte_array().to_vec())
        }
    };
    let vk2 = must(fc::VerifyingKey::<C>::deserialize(&their_vk), "VerifyingKey::deserialize of a key made by the second implementation")?;
    let sig2 = must(fc::Signature::<C>::deserialize(&their_sig), "Signature::deserialize of a signature made by the second implementation")?;
    must(vk2.verify(&p.message, &sig2), "the library accepts a signature made by the second implementation")?;
    Ok(())
}
