//! C03: below-threshold refusals.  A signer refuses packages with < t participants, the coordinator
//! refuses < t shares; even when all cooperating parties lie about the threshold, < t key holders
//! never produce a signature valid under the group key, and < t shares do not interpolate to the
//! group secret.

use std::collections::BTreeMap;

use frost_core as fc;
use frost_core::keys::refresh;
use frost_core::keys::repairable;
use frost_core::keys::{self, IdentifierList, KeyPackage, PublicKeyPackage};
use frost_core::CheaterDetection;
use serde_json::json;

use crate::c11::repair_parts_1_2;
use crate::common::*;
use crate::rng::TestRng;
use crate::{scn, Scenario};

pub fn scenarios() -> Vec<Scenario> {
    vec![
        scn!(scenario_signer_and_coordinator_refuse, 3),
        scn!(scenario_every_key_package_source_enforces_threshold, 2),
        scn!(scenario_reconstruct_below_threshold, 2),
        scn!(scenario_sharing_polynomial_has_t_free_coefficients, 1),
        scn!(scenario_stored_key_package_keeps_threshold, 2),
    ]
}

fn lowered<C: Suite>(kp: &KeyPackage<C>, m: u16) -> KeyPackage<C> {
    KeyPackage::<C>::new(*kp.identifier(), *kp.signing_share(), *kp.verifying_share(), *kp.verifying_key(), m)
}

/// m < t signers.  Honest signers refuse; signers that lowered their threshold produce shares, which
/// (a) the honest coordinator refuses, (b) never give a signature valid under the group key, whatever
/// the coordinator's package claims.
pub fn scenario_signer_and_coordinator_refuse<C: Suite>(rng: &mut TestRng, p: &Params, notes: &mut Notes) -> Verdict {
    let keys = keygen::<C>(rng, p, false)?;
    let t = p.t as usize;
    let m = rng.range(1, t - 1);
    let sub = rng.subset(p.n as usize, m);
    let signers: Vec<Id<C>> = sub.iter().filter_map(|i| keys.ids.get(*i)).copied().collect();
    notes.insert("below_threshold_signers_hex".into(), json!(ids_hex::<C>(&signers)));
    let (nonces, commitments) = commit_all::<C>(rng, &keys.key_packages, &signers)?;
    let package = fc::SigningPackage::<C>::new(commitments, &p.message);

    // honest signers refuse
    for id in &signers {
        if let (Some(kp), Some(nc)) = (keys.key_packages.get(id), nonces.get(id)) {
            must_refuse(
                fc::round2::sign::<C>(&package, nc, kp),
                &format!("round2::sign for a package listing {m} participants with min_signers {t}"),
            )?;
        }
    }
    // signers that lie about the threshold in their own key material
    let mut shares = BTreeMap::new();
    for id in &signers {
        if let (Some(kp), Some(nc)) = (keys.key_packages.get(id), nonces.get(id)) {
            let lying = lowered::<C>(kp, m as u16);
            let s = need(fc::round2::sign::<C>(&package, nc, &lying), "sign with lowered min_signers")?;
            shares.insert(*id, s);
        }
    }
    let vk = keys.pubkeys.verifying_key();
    let genuine = keys.pubkeys.clone();
    let lowered_pkp = PublicKeyPackage::<C>::new(genuine.verifying_shares().clone(), *vk, Some(m as u16));
    let legacy_pkp = PublicKeyPackage::<C>::new(genuine.verifying_shares().clone(), *vk, None);
    for (pname, pkp, honest_coordinator) in [
        ("genuine", &genuine, true),
        ("min_signers lowered", &lowered_pkp, false),
        ("legacy (min_signers None)", &legacy_pkp, false),
    ] {
        for (mname, mode) in [
            ("FirstCheater", CheaterDetection::FirstCheater),
            ("AllCheaters", CheaterDetection::AllCheaters),
            ("Disabled", CheaterDetection::Disabled),
        ] {
            match fc::aggregate_custom::<C>(&package, &shares, pkp, mode) {
                Err(_) => {}
                Ok(sig) => {
                    let valid = vk.verify(&p.message, &sig).is_ok();
                    if valid {
                        return fail(
                            &format!("shares of {m} < {t} key holders never aggregate into a signature valid under the group key ({pname} public key package, {mname})"),
                            "Err(..) or an invalid signature",
                            format!("Ok({}) which verifies", short_dbg(&sig)),
                        );
                    }
                    if honest_coordinator {
                        return fail(
                            &format!("the coordinator holding the genuine public key package refuses to aggregate {m} < {t} shares ({mname})"),
                            "Err(..)",
                            format!("Ok({}) (not valid under the group key)", short_dbg(&sig)),
                        );
                    }
                }
            }
        }
    }
    Ok(())
}

/// Whatever way a participant obtained its key package (dealer, DKG, dealer refresh, repair with a
/// current or a legacy public key package), it refuses packages with fewer than t participants.
pub fn scenario_every_key_package_source_enforces_threshold<C: Suite>(
    rng: &mut TestRng,
    p: &Params,
    notes: &mut Notes,
) -> Verdict {
    let keys = keygen::<C>(rng, p, false)?;
    let who = match keys.ids.get(rng.below(keys.ids.len())) {
        Some(i) => *i,
        None => return skip("internal"),
    };
    let sources = ["keygen", "refresh-dealer", "repair", "repair-with-legacy-public-key-package"];
    let source = sources[rng.below(sources.len())];
    notes.insert("key_package_source".into(), json!(source));
    notes.insert("participant_hex".into(), json!(id_hex::<C>(&who)));
    let original = match keys.key_packages.get(&who) {
        Some(k) => k.clone(),
        None => return skip("internal"),
    };
    let helpers: Vec<Id<C>> = keys.ids.iter().filter(|i| **i != who).copied().collect();
    let kp: KeyPackage<C> = match source {
        "keygen" => original,
        "refresh-dealer" => {
            let (shares, _) = need(
                refresh::compute_refreshing_shares::<C, _>(keys.pubkeys.clone(), &keys.ids, rng),
                "compute_refreshing_shares",
            )?;
            let mine = match shares.into_iter().find(|s| *s.identifier() == who) {
                Some(s) => s,
                None => return skip("no refreshing share"),
            };
            need(refresh::refresh_share::<C>(mine, &original), "refresh_share")?
        }
        _ => {
            if helpers.len() < p.t as usize {
                return skip("not enough helpers (t == n)");
            }
            let sigmas = repair_parts_1_2::<C>(rng, &helpers, &keys.key_packages, who, false, false)?;
            let pkp = match source {
                "repair" => keys.pubkeys.clone(),
                // a pre-3.0.0 package that does not record the threshold
                _ => PublicKeyPackage::<C>::new(keys.pubkeys.verifying_shares().clone(), *keys.pubkeys.verifying_key(), None),
            };
            // a refusal (e.g. legacy package without threshold) is fine: then there is no key package
            match repairable::repair_share_part3::<C>(&sigmas, who, &pkp) {
                Ok(k) => k,
                Err(_) => return Ok(()),
            }
        }
    };
    notes.insert("key_package_min_signers".into(), json!(kp.min_signers()));
    // this participant plus m-1 others, m < t
    let m = rng.range(1, p.t as usize - 1);
    let mut signers = vec![who];
    signers.extend(helpers.iter().take(m - 1).copied());
    let mut kps = keys.key_packages.clone();
    kps.insert(who, kp.clone());
    let (nonces, commitments) = commit_all::<C>(rng, &kps, &signers)?;
    let package = fc::SigningPackage::<C>::new(commitments, &p.message);
    let nc = match nonces.get(&who) {
        Some(n) => n,
        None => return skip("internal"),
    };
    must_refuse(
        fc::round2::sign::<C>(&package, nc, &kp),
        &format!(
            "round2::sign with a key package obtained through `{source}` for a package listing {m} participants of a group with threshold {}",
            p.t
        ),
    )?;
    Ok(())
}

/// Interpolating fewer than t shares: refused, or (when the holders lie about the threshold) a
/// value different from the group secret.  Includes identifiers that are roots of unity (-1), for
/// which a polynomial with equal coefficients would collapse.
pub fn scenario_reconstruct_below_threshold<C: Suite>(rng: &mut TestRng, p: &Params, notes: &mut Notes) -> Verdict {
    // own dealer run so that special identifiers can be planted
    let mut ids = make_ids::<C>(&p.ids)?;
    let special = rng.chance(40);
    if special {
        let minus_one = zero::<C>() - one::<C>();
        let id = need(Id::<C>::deserialize(&scalar_bytes::<C>(&minus_one)), "identifier -1")?;
        if !ids.contains(&id) {
            let pos = rng.below(ids.len());
            if let Some(slot) = ids.get_mut(pos) {
                *slot = id;
            }
        }
    }
    notes.insert("identifiers_hex".into(), json!(ids_hex::<C>(&ids)));
    let (shares, pubkeys) = need(
        keys::generate_with_dealer::<C, _>(p.n, p.t, IdentifierList::Custom(&ids), rng),
        "generate_with_dealer",
    )?;
    let mut kps: BTreeMap<Id<C>, KeyPackage<C>> = BTreeMap::new();
    for (id, s) in shares {
        kps.insert(id, need(KeyPackage::<C>::try_from(s), "KeyPackage::try_from")?);
    }
    let t = p.t as usize;
    for m in 1..t {
        // a few subsets of each size; always include the planted identifier once
        for round in 0..2 {
            let sub = rng.subset(ids.len(), m);
            let mut chosen: Vec<Id<C>> = sub.iter().filter_map(|i| ids.get(*i)).copied().collect();
            if special && round == 0 {
                if let Some(sp) = ids.iter().find(|i| id_scalar::<C>(i).map(|s| s + one::<C>() == zero::<C>()).unwrap_or(false)) {
                    if !chosen.contains(sp) {
                        if let Some(slot) = chosen.get_mut(0) {
                            *slot = *sp;
                        }
                    }
                }
            }
            let honest: Vec<KeyPackage<C>> = chosen.iter().filter_map(|i| kps.get(i)).cloned().collect();
            let lying: Vec<KeyPackage<C>> = honest.iter().map(|k| lowered::<C>(k, m as u16)).collect();
            for (what, set) in [("honest key packages", &honest), ("key packages with lowered min_signers", &lying)] {
                if let Ok(sk) = keys::reconstruct::<C>(set) {
                    let vk = fc::VerifyingKey::<C>::from(&sk);
                    if &vk == pubkeys.verifying_key() {
                        return fail(
                            &format!("interpolating {m} < {t} shares does not yield the group secret ({what})"),
                            "Err(..) or a different key",
                            format!("the group secret, from the shares of {:?}", ids_hex::<C>(&chosen)),
                        );
                    }
                    if what == "honest key packages" {
                        return fail(
                            &format!("reconstruct refuses {m} packages when the recorded threshold is {t}"),
                            "Err(..)",
                            "Ok(some key)",
                        );
                    }
                }
            }
        }
    }
    Ok(())
}

/// The sharing polynomial has exactly t coefficients and all but the constant one are independent
/// random draws: the published coefficient commitments are pairwise distinct (dealer, DKG part one,
/// dealer refresh).  A polynomial with fewer degrees of freedom lets fewer than t holders recover
/// the secret.
pub fn scenario_sharing_polynomial_has_t_free_coefficients<C: Suite>(
    rng: &mut TestRng,
    p: &Params,
    notes: &mut Notes,
) -> Verdict {
    let ids = make_ids::<C>(&p.ids)?;
    let which = ["dealer", "dkg-part1", "refresh-dealer"][rng.below(3)];
    notes.insert("source".into(), json!(which));
    let (coeffs, expect_len): (Vec<Vec<u8>>, usize) = match which {
        "dealer" => {
            let (shares, _) = need(
                keys::generate_with_dealer::<C, _>(p.n, p.t, IdentifierList::Custom(&ids), rng),
                "generate_with_dealer",
            )?;
            match shares.values().next() {
                Some(s) => (need(s.commitment().serialize(), "serialize")?, p.t as usize),
                None => return skip("no shares"),
            }
        }
        "dkg-part1" => {
            let id = match ids.first() {
                Some(i) => *i,
                None => return skip("internal"),
            };
            let (_, pkg) = need(keys::dkg::part1::<C, _>(id, p.n, p.t, &mut *rng), "part1")?;
            (need(pkg.commitment().serialize(), "serialize")?, p.t as usize)
        }
        _ => {
            let (_, pkp) = need(keys::generate_with_dealer::<C, _>(p.n, p.t, IdentifierList::Custom(&ids), rng), "dealer")?;
            let (shares, _) = need(refresh::compute_refreshing_shares::<C, _>(pkp, &ids, rng), "compute_refreshing_shares")?;
            match shares.first() {
                // published without the (identity) constant-term entry
                Some(s) => (need(s.commitment().serialize(), "serialize")?, p.t as usize - 1),
                None => return skip("no shares"),
            }
        }
    };
    check(
        coeffs.len() == expect_len,
        &format!("{which}: number of published coefficient commitments"),
        expect_len.to_string(),
        coeffs.len().to_string(),
    )?;
    for i in 0..coeffs.len() {
        for j in (i + 1)..coeffs.len() {
            if coeffs.get(i) == coeffs.get(j) {
                return fail(
                    &format!("{which}: the coefficients of the sharing polynomial are independent draws (their commitments are pairwise distinct)"),
                    "pairwise distinct coefficient commitments",
                    format!("commitments {i} and {j} are equal: {}", coeffs.get(i).map(|c| hex(c)).unwrap_or_default()),
                );
            }
        }
    }
    Ok(())
}

/// An honest signer keeps its key package in storage (JSON or the binary form) and loads it before signing.  Whatever the
/// stored document looks like after an accident - one member missing, the tail cut off - a key package that DOES load never
/// carries a threshold below the one the group was generated with, and its holder refuses a signing package that lists fewer
/// than threshold-many participants.  (The intact document is loaded as well.)  Key package from key generation, dealer refresh
/// or repair.
pub fn scenario_stored_key_package_keeps_threshold<C: Suite>(rng: &mut TestRng, p: &Params, notes: &mut Notes) -> Verdict {
    let keys = keygen::<C>(rng, p, false)?;
    let who = match keys.ids.get(rng.below(keys.ids.len())) {
        Some(i) => *i,
        None => return skip("internal"),
    };
    let original = match keys.key_packages.get(&who) {
        Some(k) => k.clone(),
        None => return skip("internal"),
    };
    let helpers: Vec<Id<C>> = keys.ids.iter().filter(|i| **i != who).copied().collect();
    let source = ["keygen", "keygen", "refresh-dealer", "repair"][rng.below(4)];
    let kp: KeyPackage<C> = match source {
        "refresh-dealer" => {
            let (shares, _) = need(refresh::compute_refreshing_shares::<C, _>(keys.pubkeys.clone(), &keys.ids, rng), "compute_refreshing_shares")?;
            match shares.into_iter().find(|s| *s.identifier() == who) {
                Some(s) => need(refresh::refresh_share::<C>(s, &original), "refresh_share")?,
                None => return skip("no refreshing share"),
            }
        }
        "repair" if helpers.len() >= p.t as usize => {
            let sigmas = repair_parts_1_2::<C>(rng, &helpers, &keys.key_packages, who, false, false)?;
            need(repairable::repair_share_part3::<C>(&sigmas, who, &keys.pubkeys), "repair_share_part3")?
        }
        _ => original,
    };
    notes.insert("key_package_source".into(), json!(source));
    notes.insert("participant_hex".into(), json!(id_hex::<C>(&who)));
    // the documents: intact, one member deleted (top level and header), binary form cut short
    let mut loaded: Vec<(String, KeyPackage<C>)> = Vec::new();
    let intact = need(serde_json::to_value(&kp), "to_value")?;
    if let Ok(k) = serde_json::from_value::<KeyPackage<C>>(intact) {
        loaded.push(("the intact JSON document".into(), k));
    }
    let mut tried = 1;
    for (member, doc) in crate::c12::json_with_one_member_deleted(&kp) {
        tried += 2;
        let text = doc.to_string();
        if let Ok(k) = serde_json::from_value::<KeyPackage<C>>(doc) {
            loaded.push((format!("a JSON document without its `{member}` member (from_value)"), k));
        }
        if let Ok(k) = serde_json::from_str::<KeyPackage<C>>(&text) {
            loaded.push((format!("a JSON document without its `{member}` member (from_str)"), k));
        }
    }
    let bin = need(kp.serialize(), "KeyPackage::serialize")?;
    for cut in 1..=4usize.min(bin.len()) {
        tried += 1;
        if let Ok(k) = KeyPackage::<C>::deserialize(bin.get(..bin.len() - cut).unwrap_or(&[])) {
            loaded.push((format!("the binary form with the last {cut} byte(s) missing"), k));
        }
    }
    notes.insert("documents_tried".into(), json!(tried));
    notes.insert("documents_that_load".into(), json!(loaded.iter().map(|l| l.0.clone()).collect::<Vec<_>>()));
    // a package listing m < t participants, this signer among them
    let m = rng.range(1, p.t as usize - 1);
    let mut signers = vec![who];
    signers.extend(helpers.iter().take(m - 1).copied());
    let mut kps = keys.key_packages.clone();
    kps.insert(who, kp.clone());
    let (nonces, commitments) = commit_all::<C>(rng, &kps, &signers)?;
    let package = fc::SigningPackage::<C>::new(commitments, &p.message);
    let nc = match nonces.get(&who) {
        Some(n) => n,
        None => return skip("internal"),
    };
    for (what, k) in &loaded {
        must_refuse(
            fc::round2::sign::<C>(&package, nc, k),
            &format!("round2::sign by a signer that loaded its key package from {what}, for a package listing {m} participants of a group with threshold {}", p.t),
        )?;
    }
    Ok(())
}
