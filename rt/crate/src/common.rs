//! Shared vocabulary of all scenarios: the verdict types, the generated parameters, and honest
//! protocol runners (dealer keygen, DKG, one signing session) built on the PUBLIC api of frost-core.

use std::collections::{BTreeMap, BTreeSet};

use frost_core as fc;
use frost_core::keys::{self, dkg, IdentifierList, KeyPackage, PublicKeyPackage, SecretShare};
use frost_core::{Ciphersuite, Field, Group};
use serde_json::{json, Map, Value};

use crate::rng::TestRng;

pub type Id<C> = fc::Identifier<C>;
pub type Sc<C> = fc::Scalar<C>;
pub type El<C> = fc::Element<C>;
pub type Fd<C> = <<C as Ciphersuite>::Group as Group>::Field;
pub type Gr<C> = <C as Ciphersuite>::Group;
pub type FErr<C> = fc::Error<C>;

/// The six real ciphersuites.
pub trait Suite: frost_rerandomized::RandomizedCiphersuite {
    const NAME: &'static str;
    /// crate to `use` in a reproduction snippet
    const KRATE: &'static str;
    const IS_TAPROOT: bool = false;
    /// another real ciphersuite (same encoding sizes where one exists) for cross-ciphersuite decoding
    type Sibling: Suite;
}
impl Suite for frost_ed25519::Ed25519Sha512 {
    const NAME: &'static str = "ed25519";
    const KRATE: &'static str = "frost_ed25519";
    type Sibling = frost_ristretto255::Ristretto255Sha512;
}
impl Suite for frost_ed448::Ed448Shake256 {
    const NAME: &'static str = "ed448";
    const KRATE: &'static str = "frost_ed448";
    type Sibling = frost_ed25519::Ed25519Sha512;
}
impl Suite for frost_p256::P256Sha256 {
    const NAME: &'static str = "p256";
    const KRATE: &'static str = "frost_p256";
    type Sibling = frost_secp256k1::Secp256K1Sha256;
}
impl Suite for frost_ristretto255::Ristretto255Sha512 {
    const NAME: &'static str = "ristretto255";
    const KRATE: &'static str = "frost_ristretto255";
    type Sibling = frost_ed25519::Ed25519Sha512;
}
impl Suite for frost_secp256k1::Secp256K1Sha256 {
    const NAME: &'static str = "secp256k1";
    const KRATE: &'static str = "frost_secp256k1";
    type Sibling = frost_secp256k1_tr::Secp256K1Sha256TR;
}
impl Suite for frost_secp256k1_tr::Secp256K1Sha256TR {
    const NAME: &'static str = "secp256k1-tr";
    const KRATE: &'static str = "frost_secp256k1_tr";
    const IS_TAPROOT: bool = true;
    type Sibling = frost_secp256k1::Secp256K1Sha256;
}
pub const SUITE_NAMES: [&str; 6] = [
    "ed25519",
    "ed448",
    "p256",
    "ristretto255",
    "secp256k1",
    "secp256k1-tr",
];

// ------------------------------------------------------------------------------------------------
// verdicts

#[derive(Clone, Debug)]
pub struct Failure {
    /// which check of the oracle did not hold
    pub check: String,
    pub expected: String,
    pub observed: String,
}

/// A KNOWN literal deviation of the unchanged tree from the text of a property, detected on purpose by a
/// finding probe.  It is reported (`RT-FINDING ...`) and never changes the verdict or the exit code.
#[derive(Clone, Debug)]
pub struct Finding {
    /// stable name of the finding (one report line per distinct key)
    pub key: String,
    /// one line
    pub detail: String,
}

/// Why a scenario stopped early.
#[derive(Clone, Debug)]
pub enum Stop {
    /// the property does not hold on this input
    Fail(Failure),
    /// a known finding was observed (not a failure)
    Finding(Finding),
    /// a precondition that is NOT the subject of the property could not be established
    /// (e.g. honest key generation failed while testing cheater detection): no verdict
    Skip(String),
}

pub type Verdict = Result<(), Stop>;

pub fn fail<T>(check: &str, expected: impl Into<String>, observed: impl Into<String>) -> Result<T, Stop> {
    Err(Stop::Fail(Failure {
        check: check.to_string(),
        expected: expected.into(),
        observed: observed.into(),
    }))
}

pub fn finding<T>(key: &str, detail: impl Into<String>) -> Result<T, Stop> {
    let detail: String = detail.into();
    Err(Stop::Finding(Finding {
        key: key.to_string(),
        detail: detail.replace(['\n', '\r'], " "),
    }))
}

pub fn skip<T>(why: impl Into<String>) -> Result<T, Stop> {
    Err(Stop::Skip(why.into()))
}

/// `res` must be Ok, otherwise the property fails (the step is a subject of the property).
pub fn must<T, E: std::fmt::Debug>(res: Result<T, E>, what: &str) -> Result<T, Stop> {
    match res {
        Ok(v) => Ok(v),
        Err(e) => fail(what, "Ok(..)", format!("Err({e:?})")),
    }
}

/// `res` must be Ok, otherwise the case gives no verdict (the step is only a precondition).
pub fn need<T, E: std::fmt::Debug>(res: Result<T, E>, what: &str) -> Result<T, Stop> {
    match res {
        Ok(v) => Ok(v),
        Err(e) => skip(format!("precondition `{what}` failed: {e:?}")),
    }
}

/// With `strict` a failing step is a property failure, otherwise a skip.
pub fn step<T, E: std::fmt::Debug>(strict: bool, res: Result<T, E>, what: &str) -> Result<T, Stop> {
    if strict {
        must(res, what)
    } else {
        need(res, what)
    }
}

pub fn check(cond: bool, what: &str, expected: impl Into<String>, observed: impl Into<String>) -> Verdict {
    if cond {
        Ok(())
    } else {
        fail(what, expected, observed)
    }
}

/// `res` must be an error (any error): a refusal required by the property.
pub fn must_refuse<T: std::fmt::Debug, E>(res: Result<T, E>, what: &str) -> Result<E, Stop> {
    match res {
        Err(e) => Ok(e),
        Ok(v) => {
            let mut s = format!("{v:?}");
            s.truncate(300);
            fail(what, "Err(..)", format!("Ok({s})"))
        }
    }
}

pub type Notes = Map<String, Value>;

pub fn hex(b: &[u8]) -> String {
    let mut s = String::with_capacity(b.len() * 2);
    for x in b {
        s.push_str(&format!("{x:02x}"));
    }
    s
}

pub fn unhex(s: &str) -> Option<Vec<u8>> {
    if s.len() % 2 != 0 {
        return None;
    }
    (0..s.len() / 2)
        .map(|i| u8::from_str_radix(s.get(2 * i..2 * i + 2)?, 16).ok())
        .collect()
}

// ------------------------------------------------------------------------------------------------
// generated parameters (ciphersuite independent, JSON-able)

#[derive(Clone, Debug, PartialEq, Eq)]
pub enum IdSpec {
    /// Identifier::try_from(u16)
    U16(u16),
    /// Identifier::derive(bytes)
    Derived(String),
    /// the identifier whose scalar is the named boundary scalar (`boundary_scalar`), e.g. `order-1`
    Scalar(&'static str),
}

impl IdSpec {
    pub fn to_json(&self) -> Value {
        match self {
            IdSpec::U16(n) => json!(n),
            IdSpec::Derived(s) => json!(format!("derive:{s}")),
            IdSpec::Scalar(s) => json!(format!("scalar:{s}")),
        }
    }
    pub fn make<C: Suite>(&self) -> Result<Id<C>, Stop> {
        match self {
            IdSpec::U16(n) => need(Id::<C>::try_from(*n), "Identifier::try_from(u16)"),
            IdSpec::Derived(s) => need(Id::<C>::derive(s.as_bytes()), "Identifier::derive"),
            // built from the scalar itself (not through a decoder: the decoders are the subject of C12/C13)
            IdSpec::Scalar(s) => match boundary_scalar::<C>(s) {
                Some(x) => need(Id::<C>::new(x), "Identifier::new(non-zero scalar)"),
                None => skip("unknown boundary scalar"),
            },
        }
    }
}

#[derive(Clone, Copy, Debug, PartialEq, Eq)]
pub enum KeySource {
    Dealer,
    Dkg,
}

#[derive(Clone, Debug)]
pub struct Params {
    pub n: u16,
    pub t: u16,
    pub id_scheme: &'static str,
    /// in the order in which they are handed to the library (IdentifierList::Custom order)
    pub ids: Vec<IdSpec>,
    pub key_source: KeySource,
    /// indices into `ids` of the signing participants (ascending), |signers| >= t
    pub signers: Vec<usize>,
    pub message: Vec<u8>,
}

pub const ID_SCHEMES: [&str; 9] = [
    "default",
    "shifted",
    "sparse-ascending",
    "descending",
    "shuffled",
    "large-u16",
    "derived",
    "mixed",
    "boundary-scalars",
];

/// Message lengths around the block sizes of the hash functions and of the encodings.
pub const EDGE_MESSAGE_LENGTHS: [usize; 10] = [31, 32, 33, 63, 64, 65, 127, 128, 129, 1000];

impl Params {
    pub fn generate(rng: &mut TestRng) -> Params {
        // (n, t): boundary shapes the unit tests never use get most of the weight
        let n = match rng.below(10) {
            0 => 2,
            1..=5 => rng.range(3, 6),
            6..=8 => rng.range(5, 8),
            _ => rng.range(8, 10),
        } as u16;
        let t = match rng.below(10) {
            0..=2 => n,
            3..=4 => 2,
            5 => (n - 1).max(2),
            _ => rng.range(2, n as usize) as u16,
        };
        Self::generate_with(rng, n, t)
    }

    pub fn generate_with(rng: &mut TestRng, n: u16, t: u16) -> Params {
        let id_scheme = ID_SCHEMES[rng.below(ID_SCHEMES.len())];
        let ids = gen_ids(rng, id_scheme, n as usize);
        let key_source = if rng.chance(50) {
            KeySource::Dealer
        } else {
            KeySource::Dkg
        };
        let k = match rng.below(10) {
            0..=3 => t as usize,
            4..=6 => n as usize,
            _ => rng.range(t as usize, n as usize),
        };
        let signers = rng.subset(n as usize, k);
        let message = match rng.below(20) {
            0..=2 => Vec::new(),
            3 => rng.bytes(1),
            4..=5 => {
                let len = rng.range(1000, 5000);
                rng.bytes(len)
            }
            6..=9 => {
                let len = EDGE_MESSAGE_LENGTHS[rng.below(EDGE_MESSAGE_LENGTHS.len())];
                rng.bytes(len)
            }
            _ => {
                let len = rng.range(1, 100);
                rng.bytes(len)
            }
        };
        Params {
            n,
            t,
            id_scheme,
            ids,
            key_source,
            signers,
            message,
        }
    }

    pub fn to_json(&self) -> Value {
        json!({
            "max_signers": self.n,
            "min_signers": self.t,
            "identifier_scheme": self.id_scheme,
            "identifiers": self.ids.iter().map(|i| i.to_json()).collect::<Vec<_>>(),
            "key_source": match self.key_source { KeySource::Dealer => "dealer", KeySource::Dkg => "dkg" },
            "signer_indices": self.signers,
            "signers": self.signers.iter().filter_map(|i| self.ids.get(*i)).map(|i| i.to_json()).collect::<Vec<_>>(),
            "message_hex": hex(&self.message),
        })
    }
}

/// Identifier lists of the given shape; always `n` pairwise distinct entries.
pub fn gen_ids(rng: &mut TestRng, scheme: &str, n: usize) -> Vec<IdSpec> {
    let distinct_u16 = |rng: &mut TestRng, lo: usize, hi: usize| -> Vec<u16> {
        let mut set = BTreeSet::new();
        while set.len() < n {
            set.insert(rng.range(lo, hi) as u16);
        }
        set.into_iter().collect()
    };
    match scheme {
        "default" => (1..=n as u16).map(IdSpec::U16).collect(),
        "shifted" => {
            let k = rng.range(1, 300) as u16;
            (1..=n as u16).map(|i| IdSpec::U16(i + k)).collect()
        }
        "sparse-ascending" => distinct_u16(rng, 1, 2000).into_iter().map(IdSpec::U16).collect(),
        "descending" => {
            let mut v = distinct_u16(rng, 1, 1000);
            v.reverse();
            v.into_iter().map(IdSpec::U16).collect()
        }
        "shuffled" => {
            let mut v = distinct_u16(rng, 1, 40);
            rng.shuffle(&mut v);
            // make sure the list really is not ascending
            if v.windows(2).all(|w| w[0] < w[1]) {
                v.reverse();
            }
            v.into_iter().map(IdSpec::U16).collect()
        }
        "large-u16" => {
            let mut v = distinct_u16(rng, 65535 - 40, 65535);
            if !v.contains(&65535) && rng.chance(70) {
                v.pop();
                v.push(65535);
            }
            rng.shuffle(&mut v);
            v.into_iter().map(IdSpec::U16).collect()
        }
        "derived" => {
            let tag = rng.below(100000);
            (0..n).map(|i| IdSpec::Derived(format!("participant-{tag}-{i}"))).collect()
        }
        "boundary-scalars" => {
            // identifiers from the edges of the scalar range (order-1, order-2, 2^top, ...), mixed with small numbers;
            // at least one of them lies in the top sliver [2^top, order)
            let mut names: Vec<&'static str> = BOUNDARY_IDENTIFIERS.to_vec();
            rng.shuffle(&mut names);
            let sliver = TOP_SLIVER[rng.below(TOP_SLIVER.len())];
            names.retain(|x| *x != sliver);
            let mut v: Vec<IdSpec> = vec![IdSpec::Scalar(sliver)];
            let small = distinct_u16(rng, 3, 60);
            for k in 1..n {
                match (names.get(k), small.get(k)) {
                    (Some(name), _) if rng.chance(65) => v.push(IdSpec::Scalar(name)),
                    (_, Some(x)) => v.push(IdSpec::U16(*x)),
                    _ => {}
                }
            }
            rng.shuffle(&mut v);
            v
        }
        _ => {
            // mixed: small numbers, big numbers and derived names in arbitrary order
            let tag = rng.below(100000);
            let nums = distinct_u16(rng, 1, 65535);
            let mut v: Vec<IdSpec> = nums
                .into_iter()
                .enumerate()
                .map(|(i, x)| {
                    if i % 2 == 0 {
                        IdSpec::U16(x)
                    } else {
                        IdSpec::Derived(format!("node-{tag}-{i}@example.org"))
                    }
                })
                .collect();
            rng.shuffle(&mut v);
            v
        }
    }
}

pub fn make_ids<C: Suite>(specs: &[IdSpec]) -> Result<Vec<Id<C>>, Stop> {
    let v: Vec<Id<C>> = specs.iter().map(|s| s.make::<C>()).collect::<Result<_, _>>()?;
    let set: BTreeSet<_> = v.iter().copied().collect();
    if set.len() != v.len() {
        return skip("generated identifiers collide");
    }
    Ok(v)
}

pub fn id_hex<C: Suite>(id: &Id<C>) -> String {
    hex(&id.serialize())
}

pub fn ids_hex<C: Suite>(ids: &[Id<C>]) -> Vec<String> {
    ids.iter().map(id_hex::<C>).collect()
}

// ------------------------------------------------------------------------------------------------
// field / group helpers through the public Field/Group traits only

pub fn scalar_from_bytes<C: Suite>(b: &[u8]) -> Option<Sc<C>> {
    let ser = <<Fd<C> as Field>::Serialization as TryFrom<&[u8]>>::try_from(b).ok()?;
    <Fd<C> as Field>::deserialize(&ser).ok()
}

pub fn scalar_bytes<C: Suite>(s: &Sc<C>) -> Vec<u8> {
    <Fd<C> as Field>::serialize(s).as_ref().to_vec()
}

pub fn elem_bytes<C: Suite>(e: &El<C>) -> Vec<u8> {
    match <Gr<C> as Group>::serialize(e) {
        Ok(s) => s.as_ref().to_vec(),
        Err(_) => b"<identity>".to_vec(),
    }
}

pub fn zero<C: Suite>() -> Sc<C> {
    <Fd<C> as Field>::zero()
}

pub fn one<C: Suite>() -> Sc<C> {
    <Fd<C> as Field>::one()
}

pub fn base_mul<C: Suite>(s: &Sc<C>) -> El<C> {
    <Gr<C> as Group>::generator() * *s
}

pub fn random_nonzero_scalar<C: Suite>(rng: &mut TestRng) -> Sc<C> {
    loop {
        let s = <Fd<C> as Field>::random(rng);
        if s != zero::<C>() {
            return s;
        }
    }
}

// ------------------------------------------------------------------------------------------------
// boundary scalars: the edges of the scalar range, built arithmetically through the public Field trait.
// `order` is the group order l, `top` the index of the highest set bit of l-1 (so 2^top <= l-1 < 2^(top+1)):
// ed25519/ristretto255 252, ed448 445, p256/secp256k1 255.  Random values hit [2^top, l) of ed25519 with probability 2^-125.

/// every name `boundary_scalar` understands
pub const BOUNDARY_NAMES: [&str; 24] = [
    "0", "1", "2", "3", "order-1", "order-2", "order-3", "2^top", "2^top+1", "2^top-1", "2^top-2", "2^(top-1)", "2^(top-1)-1",
    "2^(top-1)+1", "(order+1)/2", "(order-1)/2", "2^8", "2^16-1", "2^64", "2^64-1", "2^128", "2^128-1", "2^(top+1) mod order",
    "(order-1)/2+2^(top-1)",
];
/// the non-zero ones that do not collide with the small numbers 3..60 used next to them as identifiers
pub const BOUNDARY_IDENTIFIERS: [&str; 21] = [
    "1", "2", "order-1", "order-2", "order-3", "2^top", "2^top+1", "2^top-1", "2^top-2", "2^(top-1)", "2^(top-1)-1", "2^(top-1)+1",
    "(order+1)/2", "(order-1)/2", "2^8", "2^16-1", "2^64", "2^64-1", "2^128", "2^128-1", "2^(top+1) mod order",
];
/// members of [2^top, order) for every suite
pub const TOP_SLIVER: [&str; 5] = ["order-1", "order-2", "order-3", "2^top", "2^top+1"];

/// index of the highest set bit of order-1
pub fn top_bit<C: Suite>() -> usize {
    let mut b = scalar_bytes::<C>(&(zero::<C>() - one::<C>()));
    if scalar_bytes::<C>(&one::<C>()).first() == Some(&1) {
        // little-endian suite
        b.reverse();
    }
    for (i, byte) in b.iter().enumerate() {
        if *byte != 0 {
            return (b.len() - 1 - i) * 8 + (7 - byte.leading_zeros() as usize);
        }
    }
    0
}

/// 2^k mod order by k doublings
pub fn pow2<C: Suite>(k: usize) -> Sc<C> {
    let mut x = one::<C>();
    for _ in 0..k {
        x = x + x;
    }
    x
}

pub fn boundary_scalar<C: Suite>(name: &str) -> Option<Sc<C>> {
    let (z, o) = (zero::<C>(), one::<C>());
    let two = o + o;
    let top = top_bit::<C>();
    let half_up = <Fd<C> as Field>::invert(&two).ok()?; // (order+1)/2
    Some(match name {
        "0" => z,
        "1" => o,
        "2" => two,
        "3" => two + o,
        "order-1" => z - o,
        "order-2" => z - two,
        "order-3" => z - two - o,
        "2^top" => pow2::<C>(top),
        "2^top+1" => pow2::<C>(top) + o,
        "2^top-1" => pow2::<C>(top) - o,
        "2^top-2" => pow2::<C>(top) - two,
        "2^(top-1)" => pow2::<C>(top - 1),
        "2^(top-1)-1" => pow2::<C>(top - 1) - o,
        "2^(top-1)+1" => pow2::<C>(top - 1) + o,
        "(order+1)/2" => half_up,
        "(order-1)/2" => half_up - o,
        "2^8" => pow2::<C>(8),
        "2^16-1" => pow2::<C>(16) - o,
        "2^64" => pow2::<C>(64),
        "2^64-1" => pow2::<C>(64) - o,
        "2^128" => pow2::<C>(128),
        "2^128-1" => pow2::<C>(128) - o,
        "2^(top+1) mod order" => pow2::<C>(top + 1),
        "(order-1)/2+2^(top-1)" => half_up - o + pow2::<C>(top - 1),
        _ => return None,
    })
}

/// all boundary scalars with their names
pub fn boundary_scalars<C: Suite>() -> Vec<(&'static str, Sc<C>)> {
    BOUNDARY_NAMES.iter().filter_map(|n| boundary_scalar::<C>(n).map(|s| (*n, s))).collect()
}

/// a random boundary scalar (non-zero if asked)
pub fn pick_boundary<C: Suite>(rng: &mut TestRng, nonzero: bool) -> (&'static str, Sc<C>) {
    loop {
        let name = BOUNDARY_NAMES[rng.below(BOUNDARY_NAMES.len())];
        if let Some(s) = boundary_scalar::<C>(name) {
            if !(nonzero && s == zero::<C>()) {
                return (name, s);
            }
        }
    }
}

pub fn share_scalar<C: Suite>(s: &keys::SigningShare<C>) -> Result<Sc<C>, Stop> {
    match scalar_from_bytes::<C>(&s.serialize()) {
        Some(x) => Ok(x),
        None => skip("SigningShare::serialize is not a scalar encoding"),
    }
}

pub fn make_signing_share<C: Suite>(s: &Sc<C>) -> Result<keys::SigningShare<C>, Stop> {
    need(keys::SigningShare::<C>::deserialize(&scalar_bytes::<C>(s)), "SigningShare::deserialize")
}

pub fn sigshare_scalar<C: Suite>(s: &fc::round2::SignatureShare<C>) -> Result<Sc<C>, Stop> {
    match scalar_from_bytes::<C>(&s.serialize()) {
        Some(x) => Ok(x),
        None => skip("SignatureShare::serialize is not a scalar encoding"),
    }
}

pub fn make_sigshare<C: Suite>(s: &Sc<C>) -> Result<fc::round2::SignatureShare<C>, Stop> {
    need(
        fc::round2::SignatureShare::<C>::deserialize(&scalar_bytes::<C>(s)),
        "SignatureShare::deserialize",
    )
}

pub fn vshare_bytes<C: Suite>(v: &keys::VerifyingShare<C>) -> Vec<u8> {
    v.serialize().unwrap_or_else(|_| b"<identity>".to_vec())
}

pub fn vkey_bytes<C: Suite>(v: &fc::VerifyingKey<C>) -> Vec<u8> {
    v.serialize().unwrap_or_else(|_| b"<identity>".to_vec())
}

/// Independent Lagrange coefficient at x (None = 0) for `xi` over the set `xs` (identifiers as scalars).
pub fn lagrange<C: Suite>(xs: &[Sc<C>], xi: &Sc<C>, x: &Sc<C>) -> Option<Sc<C>> {
    let mut num = one::<C>();
    let mut den = one::<C>();
    for xj in xs {
        if xj == xi {
            continue;
        }
        num = num * (*x - *xj);
        den = den * (*xi - *xj);
    }
    let inv = <Fd<C> as Field>::invert(&den).ok()?;
    Some(num * inv)
}

/// The numeric value of an identifier as big-endian bytes, taken from the suite's own scalar encoding (its byte order is read off
/// the encoding of 1): an order of identifiers that does NOT go through `Identifier::cmp` (hold-out seed C04_1_w3).
pub fn id_numeric_be<C: Suite>(id: &Id<C>) -> Result<Vec<u8>, Stop> {
    let mut b = scalar_bytes::<C>(&id_scalar::<C>(id)?);
    if scalar_bytes::<C>(&one::<C>()).first() == Some(&1) {
        b.reverse();
    }
    Ok(b)
}

pub fn id_scalar<C: Suite>(id: &Id<C>) -> Result<Sc<C>, Stop> {
    match scalar_from_bytes::<C>(&id.serialize()) {
        Some(x) => Ok(x),
        None => skip("Identifier::serialize is not a scalar encoding"),
    }
}

// ------------------------------------------------------------------------------------------------
// honest protocol runners

pub struct Keys<C: Suite> {
    /// in Params order
    pub ids: Vec<Id<C>>,
    pub key_packages: BTreeMap<Id<C>, KeyPackage<C>>,
    pub pubkeys: PublicKeyPackage<C>,
    /// dealer only
    pub secret_shares: Option<BTreeMap<Id<C>, SecretShare<C>>>,
}

/// Trusted-dealer key generation for the identifiers of `p`.
/// `strict`: a refusal by the library is a property failure (else a skip).
pub fn keygen_dealer<C: Suite>(rng: &mut TestRng, p: &Params, strict: bool) -> Result<Keys<C>, Stop> {
    let ids = make_ids::<C>(&p.ids)?;
    let list = if p.id_scheme == "default" {
        IdentifierList::Default
    } else {
        IdentifierList::Custom(&ids)
    };
    let (shares, pubkeys) = step(
        strict,
        keys::generate_with_dealer::<C, _>(p.n, p.t, list, rng),
        "generate_with_dealer with valid (max_signers, min_signers, identifiers)",
    )?;
    let mut key_packages = BTreeMap::new();
    for (id, share) in &shares {
        let kp = step(
            strict,
            KeyPackage::<C>::try_from(share.clone()),
            "KeyPackage::try_from(honest dealer share)",
        )?;
        key_packages.insert(*id, kp);
    }
    Ok(Keys {
        ids,
        key_packages,
        pubkeys,
        secret_shares: Some(shares),
    })
}

pub struct DkgRun<C: Suite> {
    pub ids: Vec<Id<C>>,
    pub r1_secret: BTreeMap<Id<C>, dkg::round1::SecretPackage<C>>,
    pub r1_pkg: BTreeMap<Id<C>, dkg::round1::Package<C>>,
    pub r2_secret: BTreeMap<Id<C>, dkg::round2::SecretPackage<C>>,
    /// sender -> (recipient -> package)
    pub r2_out: BTreeMap<Id<C>, BTreeMap<Id<C>, dkg::round2::Package<C>>>,
}

impl<C: Suite> DkgRun<C> {
    /// round-one packages `me` receives (everybody else's)
    pub fn r1_for(&self, me: &Id<C>) -> BTreeMap<Id<C>, dkg::round1::Package<C>> {
        self.r1_pkg.iter().filter(|(k, _)| *k != me).map(|(k, v)| (*k, v.clone())).collect()
    }
    /// round-two packages addressed to `me`, by sender
    pub fn r2_for(&self, me: &Id<C>) -> BTreeMap<Id<C>, dkg::round2::Package<C>> {
        let mut m = BTreeMap::new();
        for (sender, out) in &self.r2_out {
            if let Some(pkg) = out.get(me) {
                m.insert(*sender, pkg.clone());
            }
        }
        m
    }
}

/// Honest part1 + part2 of all participants.
pub fn dkg_rounds<C: Suite>(
    rng: &mut TestRng,
    ids: &[Id<C>],
    n: u16,
    t: u16,
    strict: bool,
) -> Result<DkgRun<C>, Stop> {
    let mut r1_secret = BTreeMap::new();
    let mut r1_pkg = BTreeMap::new();
    for id in ids {
        let (s, p) = step(strict, dkg::part1::<C, _>(*id, n, t, &mut *rng), "honest dkg::part1")?;
        r1_secret.insert(*id, s);
        r1_pkg.insert(*id, p);
    }
    let mut run = DkgRun {
        ids: ids.to_vec(),
        r1_secret,
        r1_pkg,
        r2_secret: BTreeMap::new(),
        r2_out: BTreeMap::new(),
    };
    for id in ids {
        let sp = match run.r1_secret.get(id) {
            Some(s) => s.clone(),
            None => return skip("internal: missing secret package"),
        };
        let (s2, out) = step(strict, dkg::part2::<C>(sp, &run.r1_for(id)), "honest dkg::part2")?;
        run.r2_secret.insert(*id, s2);
        run.r2_out.insert(*id, out);
    }
    Ok(run)
}

/// Honest part3 of all participants; returns per participant (key package, public key package).
#[allow(clippy::type_complexity)]
pub fn dkg_finish<C: Suite>(
    run: &DkgRun<C>,
    strict: bool,
) -> Result<BTreeMap<Id<C>, (KeyPackage<C>, PublicKeyPackage<C>)>, Stop> {
    let mut out = BTreeMap::new();
    for id in &run.ids {
        let s2 = match run.r2_secret.get(id) {
            Some(s) => s,
            None => return skip("internal: missing round2 secret package"),
        };
        let r = step(
            strict,
            dkg::part3::<C>(s2, &run.r1_for(id), &run.r2_for(id)),
            "honest dkg::part3",
        )?;
        out.insert(*id, r);
    }
    Ok(out)
}

pub fn keygen_dkg<C: Suite>(rng: &mut TestRng, p: &Params, strict: bool) -> Result<Keys<C>, Stop> {
    let ids = make_ids::<C>(&p.ids)?;
    let run = dkg_rounds::<C>(rng, &ids, p.n, p.t, strict)?;
    let fin = dkg_finish::<C>(&run, strict)?;
    let mut key_packages = BTreeMap::new();
    let mut pubkeys = None;
    for (id, (kp, pkp)) in fin {
        key_packages.insert(id, kp);
        if pubkeys.is_none() {
            pubkeys = Some(pkp);
        }
    }
    match pubkeys {
        Some(pubkeys) => Ok(Keys {
            ids,
            key_packages,
            pubkeys,
            secret_shares: None,
        }),
        None => skip("no participants"),
    }
}

pub fn keygen<C: Suite>(rng: &mut TestRng, p: &Params, strict: bool) -> Result<Keys<C>, Stop> {
    match p.key_source {
        KeySource::Dealer => keygen_dealer::<C>(rng, p, strict),
        KeySource::Dkg => keygen_dkg::<C>(rng, p, strict),
    }
}

pub fn signer_ids<C: Suite>(keys: &Keys<C>, p: &Params) -> Vec<Id<C>> {
    p.signers.iter().filter_map(|i| keys.ids.get(*i)).copied().collect()
}

pub struct Session<C: Suite> {
    pub package: fc::SigningPackage<C>,
    pub nonces: BTreeMap<Id<C>, fc::round1::SigningNonces<C>>,
    pub commitments: BTreeMap<Id<C>, fc::round1::SigningCommitments<C>>,
    pub shares: BTreeMap<Id<C>, fc::round2::SignatureShare<C>>,
}

/// Round one of the given signers.
#[allow(clippy::type_complexity)]
pub fn commit_all<C: Suite>(
    rng: &mut TestRng,
    key_packages: &BTreeMap<Id<C>, KeyPackage<C>>,
    signers: &[Id<C>],
) -> Result<
    (
        BTreeMap<Id<C>, fc::round1::SigningNonces<C>>,
        BTreeMap<Id<C>, fc::round1::SigningCommitments<C>>,
    ),
    Stop,
> {
    let mut nonces = BTreeMap::new();
    let mut commitments = BTreeMap::new();
    for id in signers {
        let kp = match key_packages.get(id) {
            Some(k) => k,
            None => return skip("signer has no key package"),
        };
        let (n, c) = fc::round1::commit::<C, _>(kp.signing_share(), rng);
        nonces.insert(*id, n);
        commitments.insert(*id, c);
    }
    Ok((nonces, commitments))
}

/// One honest signing session (commit + sign, no aggregation).
pub fn run_session<C: Suite>(
    rng: &mut TestRng,
    key_packages: &BTreeMap<Id<C>, KeyPackage<C>>,
    signers: &[Id<C>],
    message: &[u8],
    strict: bool,
) -> Result<Session<C>, Stop> {
    let (nonces, commitments) = commit_all::<C>(rng, key_packages, signers)?;
    let package = fc::SigningPackage::<C>::new(commitments.clone(), message);
    let mut shares = BTreeMap::new();
    for id in signers {
        let (kp, n) = match (key_packages.get(id), nonces.get(id)) {
            (Some(k), Some(n)) => (k, n),
            _ => return skip("signer has no key package"),
        };
        let s = step(
            strict,
            fc::round2::sign::<C>(&package, n, kp),
            "round2::sign by an honest signer of a package with >= min_signers commitments",
        )?;
        shares.insert(*id, s);
    }
    Ok(Session {
        package,
        nonces,
        commitments,
        shares,
    })
}

/// keygen + honest session as preconditions (used by the properties whose subject is something else)
pub fn setup_session<C: Suite>(rng: &mut TestRng, p: &Params) -> Result<(Keys<C>, Vec<Id<C>>, Session<C>), Stop> {
    let keys = keygen::<C>(rng, p, false)?;
    let signers = signer_ids::<C>(&keys, p);
    let sess = run_session::<C>(rng, &keys.key_packages, &signers, &p.message, false)?;
    Ok((keys, signers, sess))
}

/// Equality of two values through their ENCODINGS.  The harness uses it (instead of the library's `PartialEq`) where it decides
/// whether a generated variant differs from the original: a defect in a type's `PartialEq` must not make the harness skip the case.
pub fn same_encoding<E>(a: Result<Vec<u8>, E>, b: Result<Vec<u8>, E>) -> bool {
    matches!((a, b), (Ok(x), Ok(y)) if x == y)
}

pub fn culprits_hex<C: Suite>(e: &FErr<C>) -> Vec<String> {
    e.culprits().iter().map(id_hex::<C>).collect()
}

pub fn short_dbg<T: std::fmt::Debug>(v: &T) -> String {
    let mut s = format!("{v:?}");
    if s.len() > 400 {
        s.truncate(400);
        s.push_str("...");
    }
    s
}
