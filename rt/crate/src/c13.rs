//! C13: persist-and-resume.  A participant may store its local secret state at any round boundary
//! (binary or JSON), restart, and continue from the decoded copy: every later step accepts the
//! restored state and produces exactly the outputs it would have produced from memory.

use std::collections::BTreeMap;

use frost_core as fc;
use frost_core::keys::dkg;
use frost_core::keys::refresh;
use frost_core::keys::{KeyPackage, PublicKeyPackage};
use frost_core::serde::de::DeserializeOwned;
use frost_core::serde::Serialize;
use serde_json::json;

use crate::common::*;
use crate::rng::TestRng;
use crate::{scn, Scenario};

pub fn scenarios() -> Vec<Scenario> {
    vec![
        scn!(scenario_dkg_resume, 3),
        scn!(scenario_signing_resume, 3),
        scn!(scenario_refresh_dkg_resume, 3),
        scn!(scenario_large_state, 1),
        scn!(scenario_boundary_state_resume, 3),
    ]
}

/// How the state is stored and read back.
#[derive(Clone, Copy, Debug)]
enum Storage {
    /// the type's own serialize()/deserialize() (postcard)
    Binary,
    /// serde_json text read back with from_str (can lend string data from the input)
    JsonStr,
    /// ... with from_slice
    JsonSlice,
    /// ... with from_reader (a file after a restart; cannot lend data)
    JsonReader,
    /// ... through a serde_json::Value (cannot lend data)
    JsonValue,
}

fn pick_storage(rng: &mut TestRng, notes: &mut Notes) -> Storage {
    let st = [Storage::Binary, Storage::Binary, Storage::JsonStr, Storage::JsonSlice, Storage::JsonReader, Storage::JsonValue][rng.below(6)];
    notes.insert("storage".into(), json!(format!("{st:?}")));
    st
}

/// store + load
fn persist<T, C: Suite>(
    v: &T,
    st: Storage,
    name: &str,
    ser: impl Fn(&T) -> Result<Vec<u8>, FErr<C>>,
    de: impl Fn(&[u8]) -> Result<T, FErr<C>>,
) -> Result<T, Stop>
where
    T: Serialize + DeserializeOwned,
{
    match st {
        Storage::Binary => {
            let b = must(ser(v), &format!("{name}::serialize"))?;
            must(de(&b), &format!("{name}::deserialize of its own serialization ({} bytes)", b.len()))
        }
        Storage::JsonStr => {
            let text = must(serde_json::to_string(v), &format!("{name}: store as JSON"))?;
            must(serde_json::from_str::<T>(&text), &format!("{name}: serde_json::from_str of its own JSON"))
        }
        Storage::JsonSlice => {
            let text = must(serde_json::to_vec_pretty(v), &format!("{name}: store as JSON"))?;
            must(serde_json::from_slice::<T>(&text), &format!("{name}: serde_json::from_slice of its own JSON"))
        }
        Storage::JsonReader => {
            let text = must(serde_json::to_vec(v), &format!("{name}: store as JSON"))?;
            must(
                serde_json::from_reader::<_, T>(std::io::Cursor::new(text)),
                &format!("{name}: serde_json::from_reader of its own JSON"),
            )
        }
        Storage::JsonValue => {
            let val = must(serde_json::to_value(v), &format!("{name}: store as serde_json::Value"))?;
            must(serde_json::from_value::<T>(val), &format!("{name}: serde_json::from_value of its own JSON value"))
        }
    }
}

fn same<T: PartialEq + std::fmt::Debug>(a: &T, b: &T, what: &str) -> Verdict {
    check(a == b, what, short_dbg(a), short_dbg(b))
}

fn same_bytes<C: Suite>(a: Result<Vec<u8>, FErr<C>>, b: Result<Vec<u8>, FErr<C>>, what: &str) -> Verdict {
    match (a, b) {
        (Ok(x), Ok(y)) => check(x == y, what, hex(&x), hex(&y)),
        _ => skip("cannot serialize outputs"),
    }
}

pub fn scenario_dkg_resume<C: Suite>(rng: &mut TestRng, p: &Params, notes: &mut Notes) -> Verdict {
    let ids = make_ids::<C>(&p.ids)?;
    let json_form = pick_storage(rng, notes);
    let run = dkg_rounds::<C>(rng, &ids, p.n, p.t, false)?;
    let fin = dkg_finish::<C>(&run, false)?;
    let me = match ids.get(rng.below(ids.len())) {
        Some(i) => *i,
        None => return skip("internal"),
    };
    notes.insert("participant_hex".into(), json!(id_hex::<C>(&me)));
    let (s1, s2_mem, out_mem, (kp_mem, pkp_mem)) = match (run.r1_secret.get(&me), run.r2_secret.get(&me), run.r2_out.get(&me), fin.get(&me)) {
        (Some(a), Some(b), Some(c), Some(d)) => (a, b, c, d),
        _ => return skip("internal"),
    };
    // boundary 1: after part1
    let s1_restored = persist::<_, C>(s1, json_form, "dkg::round1::SecretPackage", |x| x.serialize(), |b| dkg::round1::SecretPackage::<C>::deserialize(b))?;
    same(&s1_restored, s1, "restored round-one secret package equals the stored one")?;
    // the received public packages may have been stored as well
    let mut r1 = BTreeMap::new();
    for (k, v) in run.r1_for(&me) {
        r1.insert(k, persist::<_, C>(&v, json_form, "dkg::round1::Package", |x| x.serialize(), |b| dkg::round1::Package::<C>::deserialize(b))?);
    }
    let (s2, out) = must(dkg::part2::<C>(s1_restored, &r1), "part2 from the restored round-one secret package")?;
    same(&s2, s2_mem, "part2 from restored state returns the same round-two secret package")?;
    same(&out, out_mem, "part2 from restored state returns the same round-two packages")?;
    for (to, pk) in &out {
        same_bytes::<C>(pk.serialize(), out_mem.get(to).map(|x| x.serialize()).unwrap_or(Err(fc::Error::SerializationError)), "round-two package bytes are identical")?;
    }
    // boundary 2: after part2
    let s2_restored = persist::<_, C>(&s2, json_form, "dkg::round2::SecretPackage", |x| x.serialize(), |b| dkg::round2::SecretPackage::<C>::deserialize(b))?;
    same(&s2_restored, s2_mem, "restored round-two secret package equals the stored one")?;
    let mut r2 = BTreeMap::new();
    for (k, v) in run.r2_for(&me) {
        r2.insert(k, persist::<_, C>(&v, json_form, "dkg::round2::Package", |x| x.serialize(), |b| dkg::round2::Package::<C>::deserialize(b))?);
    }
    let (kp, pkp) = must(dkg::part3::<C>(&s2_restored, &r1, &r2), "part3 from the restored round-two secret package")?;
    same(&kp, kp_mem, "part3 from restored state returns the same key package")?;
    same(&pkp, pkp_mem, "part3 from restored state returns the same public key package")?;
    same_bytes::<C>(kp.serialize(), kp_mem.serialize(), "key package bytes are identical")?;
    same_bytes::<C>(pkp.serialize(), pkp_mem.serialize(), "public key package bytes are identical")
}

pub fn scenario_signing_resume<C: Suite>(rng: &mut TestRng, p: &Params, notes: &mut Notes) -> Verdict {
    let json_form = pick_storage(rng, notes);
    let (keys, signers, sess) = setup_session::<C>(rng, p)?;
    let sig_mem = need(fc::aggregate::<C>(&sess.package, &sess.shares, &keys.pubkeys), "aggregate")?;
    // boundary: after obtaining the key package, and after committing to nonces
    for id in &signers {
        let (kp, nonces, share_mem) = match (keys.key_packages.get(id), sess.nonces.get(id), sess.shares.get(id)) {
            (Some(a), Some(b), Some(c)) => (a, b, c),
            _ => return skip("internal"),
        };
        let kp2 = persist::<_, C>(kp, json_form, "KeyPackage", |x| x.serialize(), |b| KeyPackage::<C>::deserialize(b))?;
        let n2 = persist::<_, C>(nonces, json_form, "SigningNonces", |x| x.serialize(), |b| fc::round1::SigningNonces::<C>::deserialize(b))?;
        same(&kp2, kp, "restored key package equals the stored one")?;
        same(&n2, nonces, "restored signing nonces equal the stored ones")?;
        let pkg2 = persist::<_, C>(&sess.package, json_form, "SigningPackage", |x| x.serialize(), |b| fc::SigningPackage::<C>::deserialize(b))?;
        let share = must(fc::round2::sign::<C>(&pkg2, &n2, &kp2), "round2::sign from restored nonces and key package")?;
        check(
            share.serialize() == share_mem.serialize(),
            "round2::sign from restored state returns the same signature share",
            hex(&share_mem.serialize()),
            hex(&share.serialize()),
        )?;
    }
    // the coordinator restores its state as well
    let pkp2 = persist::<_, C>(&keys.pubkeys, json_form, "PublicKeyPackage", |x| x.serialize(), |b| PublicKeyPackage::<C>::deserialize(b))?;
    same(&pkp2, &keys.pubkeys, "restored public key package equals the stored one")?;
    let mut shares2 = BTreeMap::new();
    for (k, v) in &sess.shares {
        shares2.insert(*k, must(fc::round2::SignatureShare::<C>::deserialize(&v.serialize()), "SignatureShare::deserialize")?);
    }
    let mut commitments2 = BTreeMap::new();
    for (k, v) in &sess.commitments {
        commitments2.insert(*k, persist::<_, C>(v, json_form, "SigningCommitments", |x| x.serialize(), |b| fc::round1::SigningCommitments::<C>::deserialize(b))?);
    }
    let pkg2 = fc::SigningPackage::<C>::new(commitments2, &p.message);
    let sig = must(fc::aggregate::<C>(&pkg2, &shares2, &pkp2), "aggregate from restored coordinator state")?;
    same_bytes::<C>(sig.serialize(), sig_mem.serialize(), "aggregate from restored state returns the same signature bytes")
}

pub fn scenario_refresh_dkg_resume<C: Suite>(rng: &mut TestRng, p: &Params, notes: &mut Notes) -> Verdict {
    let json_form = pick_storage(rng, notes);
    let keys = keygen::<C>(rng, p, false)?;
    // the refresh may shrink the group, down to exactly the threshold (t-of-t afterwards)
    let size = match rng.below(3) {
        0 => p.t as usize,
        1 => keys.ids.len(),
        _ => rng.range(p.t as usize, keys.ids.len()),
    };
    let sub = rng.subset(keys.ids.len(), size);
    let ids: Vec<Id<C>> = sub.iter().filter_map(|i| keys.ids.get(*i)).copied().collect();
    notes.insert("refreshing_participants".into(), json!(ids.len()));
    let n = ids.len() as u16;
    // in-memory run
    let mut s1 = BTreeMap::new();
    let mut p1 = BTreeMap::new();
    for id in &ids {
        let (s, pk) = need(refresh::refresh_dkg_part1::<C, _>(*id, n, p.t, &mut *rng), "refresh_dkg_part1")?;
        s1.insert(*id, s);
        p1.insert(*id, pk);
    }
    let mut s2 = BTreeMap::new();
    let mut out2: BTreeMap<Id<C>, BTreeMap<Id<C>, dkg::round2::Package<C>>> = BTreeMap::new();
    for id in &ids {
        let others: BTreeMap<_, _> = p1.iter().filter(|(k, _)| *k != id).map(|(k, v)| (*k, v.clone())).collect();
        let sp = match s1.get(id) {
            Some(s) => s.clone(),
            None => return skip("internal"),
        };
        let (s, o) = need(refresh::refresh_dkg_part2::<C>(sp, &others), "refresh_dkg_part2")?;
        s2.insert(*id, s);
        out2.insert(*id, o);
    }
    let me = match ids.get(rng.below(ids.len())) {
        Some(i) => *i,
        None => return skip("internal"),
    };
    notes.insert("participant_hex".into(), json!(id_hex::<C>(&me)));
    let r1: BTreeMap<_, _> = p1.iter().filter(|(k, _)| **k != me).map(|(k, v)| (*k, v.clone())).collect();
    let mut r2 = BTreeMap::new();
    for (sender, o) in &out2 {
        if let Some(pk) = o.get(&me) {
            r2.insert(*sender, pk.clone());
        }
    }
    let (s1_me, s2_me, out_me, old_kp) = match (s1.get(&me), s2.get(&me), out2.get(&me), keys.key_packages.get(&me)) {
        (Some(a), Some(b), Some(c), Some(d)) => (a, b, c, d),
        _ => return skip("internal"),
    };
    let (kp_mem, pkp_mem) = need(
        refresh::refresh_dkg_shares::<C>(s2_me, &r1, &r2, keys.pubkeys.clone(), old_kp.clone()),
        "refresh_dkg_shares",
    )?;
    // resume after part one
    let s1_restored = persist::<_, C>(s1_me, json_form, "refresh round-one SecretPackage", |x| x.serialize(), |b| dkg::round1::SecretPackage::<C>::deserialize(b))?;
    same(&s1_restored, s1_me, "restored refresh round-one secret package equals the stored one")?;
    let mut r1_restored = BTreeMap::new();
    for (k, v) in &r1 {
        r1_restored.insert(*k, persist::<_, C>(v, json_form, "refresh round-one Package", |x| x.serialize(), |b| dkg::round1::Package::<C>::deserialize(b))?);
    }
    let (s2_again, out_again) = must(refresh::refresh_dkg_part2::<C>(s1_restored, &r1_restored), "refresh_dkg_part2 from restored state")?;
    same(&s2_again, s2_me, "refresh_dkg_part2 from restored state returns the same secret package")?;
    same(&out_again, out_me, "refresh_dkg_part2 from restored state returns the same packages")?;
    // resume after part two (the old key material comes from storage as well)
    let s2_restored = persist::<_, C>(s2_me, json_form, "refresh round-two SecretPackage", |x| x.serialize(), |b| dkg::round2::SecretPackage::<C>::deserialize(b))?;
    let old_kp_restored = persist::<_, C>(old_kp, json_form, "KeyPackage", |x| x.serialize(), |b| KeyPackage::<C>::deserialize(b))?;
    let old_pkp_restored = persist::<_, C>(&keys.pubkeys, json_form, "PublicKeyPackage", |x| x.serialize(), |b| PublicKeyPackage::<C>::deserialize(b))?;
    let (kp, pkp) = must(
        refresh::refresh_dkg_shares::<C>(&s2_restored, &r1_restored, &r2, old_pkp_restored, old_kp_restored),
        "refresh_dkg_shares from restored state",
    )?;
    same(&kp, &kp_mem, "refresh_dkg_shares from restored state returns the same key package")?;
    same(&pkp, &pkp_mem, "refresh_dkg_shares from restored state returns the same public key package")?;
    same_bytes::<C>(kp.serialize(), kp_mem.serialize(), "refreshed key package bytes are identical")?;
    same_bytes::<C>(pkp.serialize(), pkp_mem.serialize(), "refreshed public key package bytes are identical")
}

/// State of very large groups / thresholds survives storage: the round-one secret package of a
/// t = n = 1100 key generation and of a distributed refresh (about 70 kB for the 32-byte suites), and
/// the public key package of a 1100-participant group.  Only part one and store/restore are run.
pub fn scenario_large_state<C: Suite>(rng: &mut TestRng, _p: &Params, notes: &mut Notes) -> Verdict {
    let st = pick_storage(rng, notes);
    let n: u16 = [1100u16, 1024, 1500][rng.below(3)];
    notes.insert("max_signers".into(), json!(n));
    notes.insert("min_signers".into(), json!(n));
    let id = need(Id::<C>::try_from(rng.range(1, n as usize) as u16), "id")?;
    let (s1, pk1) = need(dkg::part1::<C, _>(id, n, n, &mut *rng), "dkg::part1 with t = n")?;
    let back = persist::<_, C>(&s1, st, "dkg::round1::SecretPackage (large threshold)", |x| x.serialize(), |b| dkg::round1::SecretPackage::<C>::deserialize(b))?;
    same(&back, &s1, "restored large round-one secret package equals the stored one")?;
    let back = persist::<_, C>(&pk1, st, "dkg::round1::Package (large threshold)", |x| x.serialize(), |b| dkg::round1::Package::<C>::deserialize(b))?;
    same(&back, &pk1, "restored large round-one package equals the stored one")?;
    let (r1, _) = need(refresh::refresh_dkg_part1::<C, _>(id, n, n, &mut *rng), "refresh_dkg_part1 with t = n")?;
    let back = persist::<_, C>(&r1, st, "refresh round-one SecretPackage (large threshold)", |x| x.serialize(), |b| dkg::round1::SecretPackage::<C>::deserialize(b))?;
    same(&back, &r1, "restored large refresh secret package equals the stored one")?;
    // a large group's public key package (dealer, t = 2 keeps it cheap)
    let (shares, pkp) = need(
        frost_core::keys::generate_with_dealer::<C, _>(n, 2, frost_core::keys::IdentifierList::Default, rng),
        "generate_with_dealer for a large group",
    )?;
    let back = persist::<_, C>(&pkp, st, "PublicKeyPackage (large group)", |x| x.serialize(), |b| PublicKeyPackage::<C>::deserialize(b))?;
    same(&back, &pkp, "restored large public key package equals the stored one")?;
    if let Some(sh) = shares.values().next() {
        let kp = need(KeyPackage::<C>::try_from(sh.clone()), "KeyPackage::try_from")?;
        let back = persist::<_, C>(&kp, st, "KeyPackage", |x| x.serialize(), |b| KeyPackage::<C>::deserialize(b))?;
        same(&back, &kp, "restored key package equals the stored one")?;
    }
    Ok(())
}

/// State that contains scalars from the EDGES of the scalar range (`common::boundary_scalars`: order-1, order-2, 2^top, 2^top+1, 1, 2,
/// ...), which random sampling never produces (the top sliver [2^top, order) of ed25519 has probability 2^-125), in every place a
/// stored scalar can sit: the participant's identifier, its polynomial coefficients after part one of key generation and of the
/// distributed refresh (`round1::SecretPackage::new` is the public constructor for callers that store the package themselves),
/// the secret share after part two, the signing share of a key package, both nonces, the signature shares the coordinator
/// holds.  Every state is stored and read back (binary / JSON) and the next step is run from memory and from the restored copy:
/// the restored state is accepted, equal, and gives the identical output.  (The other participants are honest random ones.)
pub fn scenario_boundary_state_resume<C: Suite>(rng: &mut TestRng, p: &Params, notes: &mut Notes) -> Verdict {
    let st = pick_storage(rng, notes);
    // a small group around the participant `me` whose identifier is a boundary scalar (60 %) or the first generated one
    let n = rng.range(2, 4.min(p.ids.len().max(2))) as u16;
    let t = rng.range(2, n as usize) as u16;
    let mut ids = make_ids::<C>(&p.ids)?;
    ids.truncate(n as usize);
    if ids.len() < n as usize {
        return skip("not enough identifiers");
    }
    let mut id_name = "generated";
    if rng.chance(60) {
        let (name, s) = pick_boundary::<C>(rng, true);
        let id = need(Id::<C>::new(s), "Identifier::new")?;
        if !ids.contains(&id) {
            ids[0] = id;
            id_name = name;
        }
    }
    let me = ids[0];
    let coeffs: Vec<(&str, Sc<C>)> = (0..t).map(|_| pick_boundary::<C>(rng, true)).collect();
    notes.insert("max_signers".into(), json!(n));
    notes.insert("min_signers".into(), json!(t));
    notes.insert("participant".into(), json!(id_name));
    notes.insert("participant_hex".into(), json!(id_hex::<C>(&me)));
    notes.insert("coefficients".into(), json!(coeffs.iter().map(|c| c.0).collect::<Vec<_>>()));
    let cvals: Vec<Sc<C>> = coeffs.iter().map(|c| c.1).collect();
    let commitment = frost_core::keys::VerifiableSecretSharingCommitment::<C>::new(
        cvals.iter().map(|c| frost_core::keys::CoefficientCommitment::<C>::new(base_mul::<C>(c))).collect(),
    );

    // ---- key generation: me holds the boundary polynomial, the others are honest
    let mut r1_others = BTreeMap::new();
    let mut s1_others = BTreeMap::new();
    for id in ids.iter().skip(1) {
        let (s, pk) = need(dkg::part1::<C, _>(*id, n, t, &mut *rng), "dkg::part1")?;
        s1_others.insert(*id, s);
        r1_others.insert(*id, pk);
    }
    let s1 = dkg::round1::SecretPackage::<C>::new(me, cvals.clone(), commitment.clone(), t, n);
    let what = format!("dkg::round1::SecretPackage (identifier {id_name}, coefficients {:?})", coeffs.iter().map(|c| c.0).collect::<Vec<_>>());
    let s1_restored = persist::<_, C>(&s1, st, &what, |x| x.serialize(), |b| dkg::round1::SecretPackage::<C>::deserialize(b))?;
    same(&s1_restored, &s1, "restored round-one secret package equals the stored one")?;
    let (s2_mem, out_mem) = need(dkg::part2::<C>(s1.clone(), &r1_others), "dkg::part2 from memory")?;
    let (s2, out) = must(dkg::part2::<C>(s1_restored, &r1_others), "part2 from the restored round-one secret package")?;
    same(&s2, &s2_mem, "part2 from restored state returns the same round-two secret package")?;
    same(&out, &out_mem, "part2 from restored state returns the same round-two packages")?;
    // the round-two packages travel and are stored by their receivers: f_me(x) for each peer x
    for (to, pk) in &out_mem {
        let back = persist::<_, C>(pk, st, "dkg::round2::Package", |x| x.serialize(), |b| dkg::round2::Package::<C>::deserialize(b))?;
        same(&back, pk, &format!("restored round-two package for {} equals the stored one", id_hex::<C>(to)))?;
    }
    let s2_restored = persist::<_, C>(&s2_mem, st, "dkg::round2::SecretPackage", |x| x.serialize(), |b| dkg::round2::SecretPackage::<C>::deserialize(b))?;
    same(&s2_restored, &s2_mem, "restored round-two secret package equals the stored one")?;
    // part three needs the peers' shares for me: they have to accept my round-one package, which needs a proof of knowledge
    // that only part1 can make; so the peers' part2 is fed a package list WITHOUT checking me: evaluate their polynomials directly
    let mut r2_for_me = BTreeMap::new();
    for (id, s) in &s1_others {
        let share = frost_core::keys::SigningShare::<C>::from_coefficients(&s.coefficients(), me);
        r2_for_me.insert(*id, dkg::round2::Package::<C>::new(share));
    }
    let fin_mem = need(dkg::part3::<C>(&s2_mem, &r1_others, &r2_for_me), "dkg::part3 from memory")?;
    let fin = must(dkg::part3::<C>(&s2_restored, &r1_others, &r2_for_me), "part3 from the restored round-two secret package")?;
    same(&fin.0, &fin_mem.0, "part3 from restored state returns the same key package")?;
    same(&fin.1, &fin_mem.1, "part3 from restored state returns the same public key package")?;
    let kp_back = persist::<_, C>(&fin_mem.0, st, "KeyPackage", |x| x.serialize(), |b| KeyPackage::<C>::deserialize(b))?;
    same(&kp_back, &fin_mem.0, "restored key package equals the stored one")?;
    let pkp_back = persist::<_, C>(&fin_mem.1, st, "PublicKeyPackage", |x| x.serialize(), |b| PublicKeyPackage::<C>::deserialize(b))?;
    same(&pkp_back, &fin_mem.1, "restored public key package equals the stored one")?;

    // ---- distributed refresh: same polynomial shape with zero constant term and the commitment without its first entry
    if t >= 2 {
        let mut rc = cvals.clone();
        rc[0] = zero::<C>();
        let rcomm = frost_core::keys::VerifiableSecretSharingCommitment::<C>::new(
            rc.iter().skip(1).map(|c| frost_core::keys::CoefficientCommitment::<C>::new(base_mul::<C>(c))).collect(),
        );
        let mut rr1 = BTreeMap::new();
        for id in ids.iter().skip(1) {
            let (_, pk) = need(refresh::refresh_dkg_part1::<C, _>(*id, n, t, &mut *rng), "refresh_dkg_part1")?;
            rr1.insert(*id, pk);
        }
        let rs1 = dkg::round1::SecretPackage::<C>::new(me, rc, rcomm, t, n);
        let rs1_restored = persist::<_, C>(&rs1, st, "refresh round-one SecretPackage (boundary coefficients)", |x| x.serialize(), |b| dkg::round1::SecretPackage::<C>::deserialize(b))?;
        same(&rs1_restored, &rs1, "restored refresh round-one secret package equals the stored one")?;
        let mem = need(refresh::refresh_dkg_part2::<C>(rs1, &rr1), "refresh_dkg_part2 from memory")?;
        let again = must(refresh::refresh_dkg_part2::<C>(rs1_restored, &rr1), "refresh_dkg_part2 from restored state")?;
        same(&again.0, &mem.0, "refresh_dkg_part2 from restored state returns the same secret package")?;
        same(&again.1, &mem.1, "refresh_dkg_part2 from restored state returns the same packages")?;
        let rs2_restored = persist::<_, C>(&mem.0, st, "refresh round-two SecretPackage", |x| x.serialize(), |b| dkg::round2::SecretPackage::<C>::deserialize(b))?;
        same(&rs2_restored, &mem.0, "restored refresh round-two secret package equals the stored one")?;
    }

    // ---- signing: key package with a boundary signing share, boundary nonces
    let (share_name, share_s) = pick_boundary::<C>(rng, true);
    let (h_name, h) = pick_boundary::<C>(rng, true);
    let (b_name, b) = pick_boundary::<C>(rng, true);
    notes.insert("signing_share".into(), json!(share_name));
    notes.insert("nonces".into(), json!([h_name, b_name]));
    let share = frost_core::keys::SigningShare::<C>::new(share_s);
    let kp = KeyPackage::<C>::new(me, share, frost_core::keys::VerifyingShare::<C>::from(share), *fin_mem.1.verifying_key(), t);
    let nonces = fc::round1::SigningNonces::<C>::from_nonces(fc::round1::Nonce::<C>::from_scalar(h), fc::round1::Nonce::<C>::from_scalar(b));
    let kp2 = persist::<_, C>(&kp, st, &format!("KeyPackage (identifier {id_name}, signing share {share_name})"), |x| x.serialize(), |b| KeyPackage::<C>::deserialize(b))?;
    let n2 = persist::<_, C>(&nonces, st, &format!("SigningNonces (hiding {h_name}, binding {b_name})"), |x| x.serialize(), |b| fc::round1::SigningNonces::<C>::deserialize(b))?;
    same(&kp2, &kp, "restored key package equals the stored one")?;
    same(&n2, &nonces, "restored signing nonces equal the stored ones")?;
    // the co-signers are the peers with their key-generation outcome not needed: any commitments will do for them
    let mut commitments = BTreeMap::new();
    commitments.insert(me, *nonces.commitments());
    for id in ids.iter().skip(1).take(t as usize - 1) {
        let (_, c) = fc::round1::commit::<C, _>(&share, rng);
        commitments.insert(*id, c);
    }
    let package = fc::SigningPackage::<C>::new(commitments, &p.message);
    let pkg2 = persist::<_, C>(&package, st, "SigningPackage", |x| x.serialize(), |b| fc::SigningPackage::<C>::deserialize(b))?;
    same(&pkg2, &package, "restored signing package equals the stored one")?;
    let share_mem = need(fc::round2::sign::<C>(&package, &nonces, &kp), "round2::sign from memory")?;
    let share_again = must(fc::round2::sign::<C>(&pkg2, &n2, &kp2), "round2::sign from restored nonces and key package")?;
    check(
        share_again.serialize() == share_mem.serialize(),
        "round2::sign from restored state returns the same signature share",
        hex(&share_mem.serialize()),
        hex(&share_again.serialize()),
    )?;
    // the coordinator keeps signature shares until all have arrived
    for (zname, z) in [pick_boundary::<C>(rng, false), pick_boundary::<C>(rng, false), ("the share just made", sigshare_scalar::<C>(&share_mem)?)] {
        let enc = scalar_bytes::<C>(&z);
        let back = must(fc::round2::SignatureShare::<C>::deserialize(&enc), &format!("SignatureShare::deserialize of a stored share with value {zname}"))?;
        check(back.serialize() == enc, "a restored signature share equals the stored one", hex(&enc), hex(&back.serialize()))?;
    }
    Ok(())
}
