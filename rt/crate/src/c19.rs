//! C19: batch verification accepts iff every item verifies singly (rejection up to 2^-128 over the
//! verifier's randomness), wherever the bad item sits and even if errors were crafted to cancel;
//! the empty batch is rejected; single-item verification agrees with ordinary verification.

use frost_core as fc;
use frost_core::batch;
use serde_json::json;

use crate::common::*;
use crate::rng::TestRng;
use crate::{scn, Scenario};

pub fn scenarios() -> Vec<Scenario> {
    vec![scn!(scenario_batch_matches_single, 3), scn!(scenario_batch_cancelling_errors, 1)]
}

struct Triple<C: Suite> {
    vk: fc::VerifyingKey<C>,
    msg: Vec<u8>,
    sig: fc::Signature<C>,
}

fn tweak_z<C: Suite>(sig: &fc::Signature<C>, d: &Sc<C>) -> Option<fc::Signature<C>> {
    let b = sig.serialize().ok()?;
    let zlen = scalar_bytes::<C>(&zero::<C>()).len();
    let (r, z) = b.split_at(b.len() - zlen);
    let z = scalar_from_bytes::<C>(z)?;
    let mut nb = r.to_vec();
    nb.extend_from_slice(&scalar_bytes::<C>(&(z + *d)));
    fc::Signature::<C>::deserialize(&nb).ok()
}

pub fn scenario_batch_matches_single<C: Suite>(rng: &mut TestRng, p: &Params, notes: &mut Notes) -> Verdict {
    let size = match rng.below(6) {
        0 => 1,
        1 => 2,
        2 => rng.range(30, 70),
        _ => rng.range(2, 12),
    };
    // a few keys (so that keys repeat within the batch), one of them a FROST group key
    let nkeys = rng.range(1, 3);
    let sks: Vec<fc::SigningKey<C>> = (0..nkeys).map(|_| fc::SigningKey::<C>::new(rng)).collect();
    let frost = if rng.chance(40) { setup_session::<C>(rng, p).ok() } else { None };
    let mut items: Vec<Triple<C>> = Vec::new();
    for _ in 0..size {
        let len = [0usize, 1, 32, 100][rng.below(4)];
        let msg = rng.bytes(len);
        let sk = match sks.get(rng.below(sks.len())) {
            Some(s) => s,
            None => return skip("internal"),
        };
        let sig = sk.sign(&mut *rng, &msg);
        items.push(Triple { vk: fc::VerifyingKey::<C>::from(sk), msg, sig });
    }
    if let Some((keys, _, sess)) = &frost {
        if let Ok(sig) = fc::aggregate::<C>(&sess.package, &sess.shares, &keys.pubkeys) {
            let pos = rng.below(items.len() + 1);
            items.insert(pos, Triple { vk: *keys.pubkeys.verifying_key(), msg: p.message.clone(), sig });
        }
    }
    // corrupt some items (possibly none)
    let nbad = match rng.below(4) {
        0 => 0,
        1 | 2 => 1,
        _ => rng.range(1, items.len()),
    };
    let bad_pos = rng.subset(items.len(), nbad);
    let mut how = Vec::new();
    let mut replay: Vec<usize> = Vec::new();
    for pos in &bad_pos {
        let other_vk = fc::VerifyingKey::<C>::from(&fc::SigningKey::<C>::new(rng));
        if let Some(it) = items.get_mut(*pos) {
            let kind = ["z-plus-one", "z-random", "other-message", "other-key", "other-items-signature"][rng.below(5)];
            match kind {
                "z-plus-one" => {
                    if let Some(s) = tweak_z::<C>(&it.sig, &one::<C>()) {
                        it.sig = s;
                    }
                }
                "z-random" => {
                    if let Some(s) = tweak_z::<C>(&it.sig, &random_nonzero_scalar::<C>(rng)) {
                        it.sig = s;
                    }
                }
                "other-message" => it.msg.push(7),
                "other-key" => it.vk = other_vk,
                _ => {
                    // replay of the exact signature of an EARLIER item (which stays valid) under this
                    // item's own message / key; falls back to a changed message for position 0
                    it.msg = rng.bytes(it.msg.len() + 3);
                    replay.push(*pos);
                }
            }
            how.push(json!({"position": pos, "corruption": kind}));
        }
    }
    for pos in replay {
        let earlier: Vec<usize> = (0..pos).filter(|q| !bad_pos.contains(q)).collect();
        let q = match earlier.get(rng.below(earlier.len().max(1))) {
            Some(q) => *q,
            None => continue,
        };
        let (src_sig, src_msg) = match items.get(q) {
            Some(x) => (x.sig, x.msg.clone()),
            None => continue,
        };
        let other_key = rng.chance(50);
        let new_vk = fc::VerifyingKey::<C>::from(&fc::SigningKey::<C>::new(rng));
        if let Some(it) = items.get_mut(pos) {
            it.sig = src_sig;
            if other_key {
                // same message as the original, but another key
                it.msg = src_msg;
                it.vk = new_vk;
            }
        }
    }
    notes.insert("batch_size".into(), json!(items.len()));
    notes.insert("corrupted".into(), json!(how));

    // the reference answer: conjunction of ordinary verifications
    let mut all_ok = true;
    let mut verifier = batch::Verifier::<C>::new();
    for (i, it) in items.iter().enumerate() {
        let single = it.vk.verify(&it.msg, &it.sig).is_ok();
        all_ok &= single;
        match batch::Item::<C>::new(it.vk, it.sig, &it.msg) {
            Ok(item) => {
                let vs = item.clone().verify_single().is_ok();
                check(
                    vs == single,
                    "Item::verify_single agrees with VerifyingKey::verify for the same key, message and signature",
                    single.to_string(),
                    format!("{vs} (item {i})"),
                )?;
                verifier.queue(item);
            }
            Err(e) => {
                // an item that cannot even be built counts as not verifying
                check(!single, "an item that verifies singly can be queued", "Ok(item)", format!("Err({e:?})"))?;
                return Ok(());
            }
        }
    }
    let batch_ok = verifier.verify(&mut *rng).is_ok();
    check(
        batch_ok == all_ok,
        "the batch is accepted iff every item verifies individually",
        format!("batch accepted = {all_ok} (size {}, corrupted positions {:?})", items.len(), bad_pos),
        format!("batch accepted = {batch_ok}"),
    )?;
    // the empty batch is rejected
    check(
        batch::Verifier::<C>::new().verify(&mut *rng).is_err(),
        "the empty batch is rejected",
        "Err(..)",
        "Ok(())",
    )
}

fn small_scalar<C: Suite>(k: usize) -> Sc<C> {
    let mut acc = zero::<C>();
    for _ in 0..k {
        acc = acc + one::<C>();
    }
    acc
}

/// Invalid items whose errors cancel in a WEIGHTED sum: m items (2 or 3) at positions p_1 < .. < p_m of a batch of n items
/// (n up to 64) get their response scalars shifted by e_1 .. e_m with  w_1 e_1 + .. + w_m e_m = 0  for a public weight vector w.
/// The batch must be rejected whatever w is: a verifier whose blinders are related by publicly known ratios (all equal; i, i+1,
/// 2^i, ... times one secret value) accepts the batch for the matching w with probability 1.  Weight families: all ones (the plain
/// +d / -d pair, or two responses swapped), position + 1, position, squares, powers of two, small integers a, b in 1..=4.  Nobody
/// needs a secret key to craft these.  Items use one key or one key per item.
pub fn scenario_batch_cancelling_errors<C: Suite>(rng: &mut TestRng, _p: &Params, notes: &mut Notes) -> Verdict {
    let n = match rng.below(5) {
        0 => [16usize, 33, 64][rng.below(3)],
        1 => 2,
        _ => rng.range(2, 8),
    };
    let one_key = rng.chance(50);
    let shared = fc::SigningKey::<C>::new(rng);
    let mut items: Vec<Triple<C>> = (0..n)
        .map(|i| {
            let sk = if one_key { shared.clone() } else { fc::SigningKey::<C>::new(rng) };
            let msg = format!("message {i}").into_bytes();
            let sig = sk.sign(&mut *rng, &msg);
            Triple { vk: fc::VerifyingKey::<C>::from(&sk), msg, sig }
        })
        .collect();
    let m = if n >= 3 && rng.chance(30) { 3 } else { 2 };
    // positions: anywhere, or the two ends
    let pos = if rng.chance(25) && m == 2 { vec![0, n - 1] } else { rng.subset(n, m) };
    let z_of = |sig: &fc::Signature<C>| -> Option<Sc<C>> {
        let b = sig.serialize().ok()?;
        let zlen = scalar_bytes::<C>(&zero::<C>()).len();
        scalar_from_bytes::<C>(b.get(b.len() - zlen..)?)
    };
    let family = ["all-ones", "responses-swapped", "position+1", "position+1", "position+1", "position", "squares", "powers-of-two", "small-integers", "small-integers"][rng.below(10)];
    let family = if family == "responses-swapped" && m != 2 { "all-ones" } else { family };
    let weights: Vec<Sc<C>> = pos
        .iter()
        .map(|q| match family {
            "position+1" => small_scalar::<C>(q + 1),
            "position" => small_scalar::<C>(*q),
            "squares" => small_scalar::<C>((q + 1) * (q + 1)),
            "powers-of-two" => pow2::<C>(*q),
            "small-integers" => small_scalar::<C>(rng.range(1, 4)),
            _ => one::<C>(),
        })
        .collect();
    notes.insert("batch_size".into(), json!(n));
    notes.insert("one_key_for_all_items".into(), json!(one_key));
    notes.insert("shifted_items".into(), json!(pos));
    notes.insert("weight_family".into(), json!(family));
    notes.insert("weights_hex".into(), json!(weights.iter().map(|w| hex(&scalar_bytes::<C>(w))).collect::<Vec<_>>()));
    // errors: e_j = (product of the other weights) * d_j for j < m, and the last one balances the weighted sum; with two items
    // and weights (a, b) that is the pair (b d, -a d) of the seed's description.  A zero weight leaves that item's error free.
    let mut errors: Vec<Sc<C>> = Vec::new();
    let last = m - 1;
    let mut acc = zero::<C>();
    let w_last = weights[last];
    for j in 0..last {
        let d = if family == "responses-swapped" {
            match (items.get(pos[0]).and_then(|x| z_of(&x.sig)), items.get(pos[1]).and_then(|x| z_of(&x.sig))) {
                (Some(za), Some(zb)) => zb - za,
                _ => return skip("cannot read z"),
            }
        } else {
            random_nonzero_scalar::<C>(rng)
        };
        let e = if w_last == zero::<C>() { d } else { d * w_last };
        acc = acc + weights[j] * e;
        errors.push(e);
    }
    let e_last = if w_last == zero::<C>() {
        // the last item is not weighted at all: any error goes unnoticed by such a verifier; the others must cancel alone
        random_nonzero_scalar::<C>(rng)
    } else {
        match <Fd<C> as fc::Field>::invert(&w_last) {
            Ok(inv) => zero::<C>() - acc * inv,
            Err(_) => return skip("weight not invertible"),
        }
    };
    errors.push(e_last);
    if errors.iter().all(|e| *e == zero::<C>()) {
        return skip("all errors are zero");
    }
    let mut altered = 0;
    for (q, e) in pos.iter().zip(&errors) {
        if *e == zero::<C>() {
            continue;
        }
        if let Some(it) = items.get_mut(*q) {
            match tweak_z::<C>(&it.sig, e) {
                Some(s) => it.sig = s,
                None => return skip("cannot shift z"),
            }
            altered += 1;
        }
    }
    let mut verifier = batch::Verifier::<C>::new();
    let mut invalid = 0;
    for it in &items {
        if it.vk.verify(&it.msg, &it.sig).is_err() {
            invalid += 1;
        }
        match batch::Item::<C>::new(it.vk, it.sig, &it.msg) {
            Ok(item) => verifier.queue(item),
            Err(_) => return skip("item cannot be built"),
        }
    }
    if invalid == 0 {
        return skip("every altered item still verifies");
    }
    notes.insert("items_not_verifying_singly".into(), json!(invalid));
    let _ = altered;
    check(
        verifier.verify(&mut *rng).is_err(),
        &if m == 2 && (family == "all-ones" || family == "responses-swapped") {
            "a batch with two invalid items whose errors cancel is rejected".to_string()
        } else {
            format!("a batch with invalid items whose errors cancel in a weighted sum (weights: {family}) is rejected")
        },
        "Err(..)",
        format!("Ok(()) for a batch of {n} items of which {invalid} do not verify singly (positions {pos:?})"),
    )
}
