//! C01: any >= t key holders (dealer or DKG keys, any identifiers) commit, sign, aggregate:
//! aggregation succeeds, every share passes share verification, the signature verifies under the
//! group key with the suite's ordinary single-signer verification.

use frost_core as fc;
use serde_json::json;

use crate::common::*;
use crate::indep::independent_verify;
use crate::rng::TestRng;
use crate::{scn, Scenario};

pub fn scenarios() -> Vec<Scenario> {
    vec![
        scn!(scenario_sign_aggregate_verify, 3),
        crate::wrap::scn_dealer(1),
        crate::wrap::scn_sign_aggregate(1),
    ]
}

/// Everything in the honest flow must succeed; key generation included (the property quantifies
/// over every valid (n, t, identifier assignment)).
pub fn scenario_sign_aggregate_verify<C: Suite>(rng: &mut TestRng, p: &Params, notes: &mut Notes) -> Verdict {
    let keys = keygen::<C>(rng, p, true)?;
    let signers = signer_ids::<C>(&keys, p);
    notes.insert("signers_hex".into(), json!(ids_hex::<C>(&signers)));
    check(
        keys.key_packages.len() == p.n as usize,
        "key generation yields one key package per participant",
        p.n.to_string(),
        keys.key_packages.len().to_string(),
    )?;
    let sess = run_session::<C>(rng, &keys.key_packages, &signers, &p.message, true)?;
    honest_session_checks::<C>(&keys.pubkeys, &sess, &p.message)
}

/// The C01 oracle on a finished honest session.
pub fn honest_session_checks<C: Suite>(
    pubkeys: &fc::keys::PublicKeyPackage<C>,
    sess: &Session<C>,
    message: &[u8],
) -> Verdict {
    // every share passes share verification
    for (id, share) in &sess.shares {
        let vs = match pubkeys.verifying_shares().get(id) {
            Some(v) => v,
            None => {
                return fail(
                    "the public key package has a verifying share for every key holder",
                    format!("entry for {}", id_hex::<C>(id)),
                    "no entry",
                )
            }
        };
        must(
            fc::verify_signature_share::<C>(*id, vs, share, &sess.package, pubkeys.verifying_key()),
            &format!("verify_signature_share of the honest share of {}", id_hex::<C>(id)),
        )?;
    }
    // aggregation succeeds in every detection mode and gives the same signature
    let sig = must(
        fc::aggregate::<C>(&sess.package, &sess.shares, pubkeys),
        "aggregate of honest shares of >= min_signers signers",
    )?;
    for (name, mode) in [
        ("Disabled", fc::CheaterDetection::Disabled),
        ("FirstCheater", fc::CheaterDetection::FirstCheater),
        ("AllCheaters", fc::CheaterDetection::AllCheaters),
    ] {
        let s2 = must(
            fc::aggregate_custom::<C>(&sess.package, &sess.shares, pubkeys, mode),
            &format!("aggregate_custom({name}) of honest shares"),
        )?;
        check(
            s2 == sig,
            &format!("aggregate_custom({name}) returns the same signature as aggregate"),
            short_dbg(&sig),
            short_dbg(&s2),
        )?;
    }
    // ordinary verification under the group key
    must(
        pubkeys.verifying_key().verify(message, &sig),
        "VerifyingKey::verify of the aggregated signature under the group key",
    )?;
    // ... also after a trip through the wire encoding
    let bytes = must(sig.serialize(), "Signature::serialize")?;
    let sig2 = must(fc::Signature::<C>::deserialize(&bytes), "Signature::deserialize of a serialized signature")?;
    must(
        pubkeys.verifying_key().verify(message, &sig2),
        "VerifyingKey::verify of the decoded signature under the group key",
    )?;
    // ... and with a second implementation of the single-signer scheme where we have one
    let vk = must(pubkeys.verifying_key().serialize(), "VerifyingKey::serialize")?;
    if let Some(r) = independent_verify(C::NAME, &vk, message, &bytes) {
        must(r, "independent single-signer verification (ed25519-dalek strict / libsecp256k1 BIP-340)")?;
    }
    Ok(())
}
