//! C08: exactly one faulty DKG contribution -> the receiving participant's key generation fails at
//! the first step that consumes the faulty field, and when the fault is attributable
//! `Error::culprits()` names exactly the offending sender (never an honest participant).

use frost_core as fc;
use frost_core::keys::dkg;
use frost_core::keys::{self, VerifiableSecretSharingCommitment};
use serde_json::json;

use crate::common::*;
use crate::rng::TestRng;
use crate::{scn, Scenario};

pub fn scenarios() -> Vec<Scenario> {
    vec![
        scn!(scenario_invalid_proof_of_knowledge, 2),
        scn!(scenario_wrong_length_commitment, 2),
        scn!(scenario_bad_round2_share, 3),
        scn!(scenario_package_set_faults, 2),
        crate::wrap::scn_dkg(2),
    ]
}

struct Setup<C: Suite> {
    ids: Vec<Id<C>>,
    run: DkgRun<C>,
    /// the participant whose view we test
    me: Id<C>,
    /// the single faulty peer
    bad: Id<C>,
}

/// Honest rounds one and two as the backdrop; picks receiver and offender.  DKG params only.
fn setup<C: Suite>(rng: &mut TestRng, p: &Params, notes: &mut Notes) -> Result<Setup<C>, Stop> {
    let ids = make_ids::<C>(&p.ids)?;
    let run = dkg_rounds::<C>(rng, &ids, p.n, p.t, false)?;
    // the honest run must complete, otherwise nothing can be concluded from a failure below
    dkg_finish::<C>(&run, false)?;
    let mi = rng.below(ids.len());
    let mut bi = rng.below(ids.len() - 1);
    if bi >= mi {
        bi += 1;
    }
    let (me, bad) = match (ids.get(mi), ids.get(bi)) {
        (Some(a), Some(b)) => (*a, *b),
        _ => return skip("internal: index"),
    };
    notes.insert("receiver_hex".into(), json!(id_hex::<C>(&me)));
    notes.insert("offender_hex".into(), json!(id_hex::<C>(&bad)));
    notes.insert("receiver_index".into(), json!(mi));
    notes.insert("offender_index".into(), json!(bi));
    Ok(Setup { ids, run, me, bad })
}

fn names_exactly<C: Suite>(e: &FErr<C>, bad: &Id<C>, what: &str) -> Verdict {
    check(
        e.culprits() == vec![*bad],
        &format!("{what}: Error::culprits() names exactly the offending sender"),
        format!("[{}]", id_hex::<C>(bad)),
        format!("{:?} (error {})", culprits_hex::<C>(e), short_dbg(e)),
    )
}

fn names_nobody_else<C: Suite>(e: &FErr<C>, bad: &Id<C>, what: &str) -> Verdict {
    check(
        e.culprits().iter().all(|c| c == bad),
        &format!("{what}: Error::culprits() never names an honest participant"),
        format!("[] or [{}]", id_hex::<C>(bad)),
        format!("{:?} (error {})", culprits_hex::<C>(e), short_dbg(e)),
    )
}

fn r1_secret_of<C: Suite>(s: &Setup<C>) -> Result<dkg::round1::SecretPackage<C>, Stop> {
    match s.run.r1_secret.get(&s.me) {
        Some(x) => Ok(x.clone()),
        None => skip("internal: secret package"),
    }
}

/// The offender's round-one proof of knowledge is not a valid proof for (its identifier, its commitment).
pub fn scenario_invalid_proof_of_knowledge<C: Suite>(rng: &mut TestRng, p: &Params, notes: &mut Notes) -> Verdict {
    let s = setup::<C>(rng, p, notes)?;
    let honest = match s.run.r1_pkg.get(&s.bad) {
        Some(x) => x.clone(),
        None => return skip("internal"),
    };
    let kinds = [
        "altered-response",
        "proof-of-another-run",
        "proof-made-for-another-identifier",
        "proof-for-another-commitment",
        "other-participants-proof",
    ];
    let kind = kinds[rng.below(kinds.len())];
    notes.insert("fault".into(), json!(kind));
    let sig_len = need(honest.proof_of_knowledge().serialize(), "Signature::serialize")?.len();
    let forged: dkg::round1::Package<C> = match kind {
        "altered-response" => {
            // flip the response scalar z -> z + 1 by re-encoding
            let bytes = need(honest.proof_of_knowledge().serialize(), "Signature::serialize")?;
            let zlen = scalar_bytes::<C>(&zero::<C>()).len();
            let (r_part, z_part) = bytes.split_at(bytes.len().saturating_sub(zlen));
            let z = match scalar_from_bytes::<C>(z_part) {
                Some(z) => z,
                None => return skip("cannot decode response scalar"),
            };
            let mut nb = r_part.to_vec();
            nb.extend_from_slice(&scalar_bytes::<C>(&(z + one::<C>())));
            let sig = need(fc::Signature::<C>::deserialize(&nb), "Signature::deserialize")?;
            dkg::round1::Package::new(honest.commitment().clone(), sig)
        }
        "proof-of-another-run" => {
            // the same participant ran part1 a second time: valid proof, but for another commitment
            let (_, other) = need(dkg::part1::<C, _>(s.bad, p.n, p.t, &mut *rng), "part1")?;
            dkg::round1::Package::new(honest.commitment().clone(), *other.proof_of_knowledge())
        }
        "proof-for-another-commitment" => {
            let (_, other) = need(dkg::part1::<C, _>(s.bad, p.n, p.t, &mut *rng), "part1")?;
            dkg::round1::Package::new(other.commitment().clone(), *honest.proof_of_knowledge())
        }
        "proof-made-for-another-identifier" => {
            // a complete, self-consistent package, but made under a different identifier and
            // filed under the offender's
            let other_id = need(Id::<C>::derive(b"somebody else entirely"), "derive")?;
            let (_, other) = need(dkg::part1::<C, _>(other_id, p.n, p.t, &mut *rng), "part1")?;
            other
        }
        _ => {
            // replay of a third participant's proof (or the receiver's own) with the offender's commitment
            let donor = s.ids.iter().find(|i| **i != s.bad).copied().unwrap_or(s.me);
            let d = match s.run.r1_pkg.get(&donor) {
                Some(x) => x,
                None => return skip("internal"),
            };
            dkg::round1::Package::new(honest.commitment().clone(), *d.proof_of_knowledge())
        }
    };
    let _ = sig_len;
    let mut r1 = s.run.r1_for(&s.me);
    r1.insert(s.bad, forged);
    let e = must_refuse(
        dkg::part2::<C>(r1_secret_of(&s)?, &r1),
        "part2 given one round-one package with an invalid proof of knowledge",
    )?;
    names_exactly::<C>(&e, &s.bad, "invalid proof of knowledge")
}

/// The offender's commitment has t-1 or t+1 coefficients (made by an honest part1 with another
/// threshold, so its proof of knowledge is valid).
pub fn scenario_wrong_length_commitment<C: Suite>(rng: &mut TestRng, p: &Params, notes: &mut Notes) -> Verdict {
    let s = setup::<C>(rng, p, notes)?;
    let longer = p.t <= 2 || rng.chance(50);
    let t_bad = if longer { p.t + 1 } else { p.t - 1 };
    notes.insert("fault".into(), json!(format!("commitment with {t_bad} coefficients instead of {}", p.t)));
    // part1 itself validates t <= n, so give it enough room
    let n_bad = p.n.max(t_bad);
    let (bad_secret, bad_pkg) = need(dkg::part1::<C, _>(s.bad, n_bad, t_bad, &mut *rng), "part1 with another threshold")?;
    let mut r1 = s.run.r1_for(&s.me);
    r1.insert(s.bad, bad_pkg.clone());
    match dkg::part2::<C>(r1_secret_of(&s)?, &r1) {
        Err(e) => names_nobody_else::<C>(&e, &s.bad, "wrong-length commitment"),
        Ok((me_r2_secret, _)) => {
            // part2 is the first step that consumes the commitment length: it must have failed.
            // Show the consequence as well when the offender plays consistently with its polynomial.
            let mut consequence = String::from("part2 returned Ok");
            let coeffs_share = bad_secret_share_for::<C>(&bad_secret, &s.me);
            if let Ok(share) = coeffs_share {
                let mut r2 = s.run.r2_for(&s.me);
                r2.insert(s.bad, share);
                match dkg::part3::<C>(&me_r2_secret, &r1, &r2) {
                    Ok((kp, pkp)) => {
                        let entry = pkp.verifying_shares().get(&s.me);
                        consequence = format!(
                            "part2 returned Ok; part3 returned Ok with key package verifying share {} vs public key package entry {:?}",
                            hex(&vshare_bytes::<C>(kp.verifying_share())),
                            entry.map(|v| hex(&vshare_bytes::<C>(v)))
                        );
                    }
                    Err(e) => consequence = format!("part2 returned Ok; only part3 failed, with {e:?}"),
                }
            }
            fail(
                "part2 given one round-one package whose commitment has the wrong number of coefficients",
                "Err(..)",
                consequence,
            )
        }
    }
}

/// The share the offender (who ran part1 with another threshold) would send to `to`, obtained by
/// running its part2 against dummy peers.
fn bad_secret_share_for<C: Suite>(
    bad_secret: &dkg::round1::SecretPackage<C>,
    to: &Id<C>,
) -> Result<dkg::round2::Package<C>, ()> {
    // evaluate through the public api: SecretPackage -> part2 needs n-1 valid packages; simpler and
    // independent: serialize the secret package, read the coefficients back as scalars.
    let bytes = bad_secret.serialize().map_err(|_| ())?;
    let json = serde_json::to_value(bad_secret).map_err(|_| ())?;
    let _ = bytes;
    let coeffs = json.get("coefficients").and_then(|c| c.as_array()).ok_or(())?;
    let x = scalar_from_bytes::<C>(&to.serialize()).ok_or(())?;
    let mut acc = zero::<C>();
    for c in coeffs.iter().rev() {
        let b = c.as_str().and_then(unhex).ok_or(())?;
        let c = scalar_from_bytes::<C>(&b).ok_or(())?;
        acc = acc * x + c;
    }
    let share = keys::SigningShare::<C>::deserialize(&scalar_bytes::<C>(&acc)).map_err(|_| ())?;
    Ok(dkg::round2::Package::new(share))
}

const BAD_SHARE_KINDS: [&str; 6] = [
    "share-plus-one",
    "share-plus-random",
    "share-for-another-recipient",
    "share-of-another-run",
    "zero-share",
    "altered-commitment-coefficient",
];

/// Plants one faulty round-two delivery of `bad` into the receiver's maps.
#[allow(clippy::too_many_arguments)]
fn plant_bad_share<C: Suite>(
    rng: &mut TestRng,
    p: &Params,
    s: &Setup<C>,
    other_run: &mut Option<DkgRun<C>>,
    bad: Id<C>,
    kind: &str,
    r1: &mut std::collections::BTreeMap<Id<C>, dkg::round1::Package<C>>,
    r2: &mut std::collections::BTreeMap<Id<C>, dkg::round2::Package<C>>,
) -> Result<Option<usize>, Stop> {
    let honest = match r2.get(&bad) {
        Some(x) => x.clone(),
        None => return skip("internal"),
    };
    let hs = share_scalar::<C>(honest.signing_share())?;
    let mk = |x: Sc<C>| -> Result<dkg::round2::Package<C>, Stop> { Ok(dkg::round2::Package::new(make_signing_share::<C>(&x)?)) };
    match kind {
        "share-plus-one" => {
            r2.insert(bad, mk(hs + one::<C>())?);
        }
        "share-plus-random" => {
            r2.insert(bad, mk(hs + random_nonzero_scalar::<C>(rng))?);
        }
        "zero-share" => {
            r2.insert(bad, mk(zero::<C>())?);
        }
        "share-for-another-recipient" => {
            let third = s.ids.iter().find(|i| **i != bad && **i != s.me).copied();
            let pkg = third.and_then(|t| s.run.r2_out.get(&bad).and_then(|m| m.get(&t)).cloned());
            match pkg {
                Some(pk) => {
                    r2.insert(bad, pk);
                }
                None => return skip("no third participant"),
            }
        }
        "share-of-another-run" => {
            // the offender's share for the receiver from a concurrent run of the same group (one concurrent run for all offenders)
            if other_run.is_none() {
                *other_run = Some(dkg_rounds::<C>(rng, &s.ids, p.n, p.t, false)?);
            }
            match other_run.as_ref().and_then(|o| o.r2_out.get(&bad)).and_then(|m| m.get(&s.me)).cloned() {
                Some(pk) => {
                    r2.insert(bad, pk);
                }
                None => return skip("internal"),
            }
        }
        _ => {
            // a non-constant coefficient commitment of the offender is replaced (the proof of
            // knowledge only covers the constant term, so part2 cannot notice); the share is honest
            let pkg = match r1.get(&bad) {
                Some(x) => x.clone(),
                None => return skip("internal"),
            };
            let mut cs = need(pkg.commitment().serialize(), "commitment serialize")?;
            let k = rng.range(1, cs.len() - 1);
            let repl = elem_bytes::<C>(&base_mul::<C>(&random_nonzero_scalar::<C>(rng)));
            if let Some(slot) = cs.get_mut(k) {
                *slot = repl;
            }
            let c = need(VerifiableSecretSharingCommitment::<C>::deserialize(cs), "commitment deserialize")?;
            r1.insert(bad, dkg::round1::Package::new(c, *pkg.proof_of_knowledge()));
            return Ok(Some(k));
        }
    }
    Ok(None)
}

/// Round two: the share the receiver gets from the offender does not match the offender's commitment.
/// With probability 40 % one to three FURTHER senders deliver a faulty share as well (same or another kind; an even and an odd
/// number of faulty slots both occur): the statement about exactly one peer does not say who is named then, so only "part3
/// refuses and names nobody but offenders" is required.
pub fn scenario_bad_round2_share<C: Suite>(rng: &mut TestRng, p: &Params, notes: &mut Notes) -> Verdict {
    let s = setup::<C>(rng, p, notes)?;
    let pick_kind = |rng: &mut TestRng| {
        let kind = BAD_SHARE_KINDS[rng.below(BAD_SHARE_KINDS.len())];
        if kind == "share-for-another-recipient" && s.ids.len() < 3 {
            "share-plus-one"
        } else {
            kind
        }
    };
    let kind = pick_kind(rng);
    notes.insert("fault".into(), json!(kind));
    let mut r1 = s.run.r1_for(&s.me);
    let mut r2 = s.run.r2_for(&s.me);
    let mut other_run = None;
    if let Some(k) = plant_bad_share::<C>(rng, p, &s, &mut other_run, s.bad, kind, &mut r1, &mut r2)? {
        notes.insert("altered_coefficient".into(), json!(k));
    }
    // further offenders
    let mut offenders = vec![s.bad];
    let peers: Vec<Id<C>> = s.ids.iter().filter(|i| **i != s.me && **i != s.bad).copied().collect();
    if !peers.is_empty() && rng.chance(40) {
        let extra = [1usize, 1, 1, 2, 3, peers.len()][rng.below(6)].min(peers.len());
        let same_kind = rng.chance(50);
        let mut log = Vec::new();
        for i in rng.subset(peers.len(), extra) {
            let Some(x) = peers.get(i).copied() else { continue };
            let k2 = if same_kind { kind } else { pick_kind(rng) };
            plant_bad_share::<C>(rng, p, &s, &mut other_run, x, k2, &mut r1, &mut r2)?;
            offenders.push(x);
            log.push(json!({"offender": id_hex::<C>(&x), "fault": k2}));
        }
        notes.insert("further_offenders".into(), json!(log));
    }
    // part2 (with the possibly altered round-one set) must still work: the fault is not visible yet
    let (r2_secret, _) = need(dkg::part2::<C>(r1_secret_of(&s)?, &r1), "part2 before the faulty round-two share")?;
    if offenders.len() == 1 {
        let e = must_refuse(
            dkg::part3::<C>(&r2_secret, &r1, &r2),
            "part3 given one round-two share that does not match the sender's commitment",
        )?;
        return names_exactly::<C>(&e, &s.bad, "round-two share not matching the commitment");
    }
    let e = must_refuse(
        dkg::part3::<C>(&r2_secret, &r1, &r2),
        &format!("part3 given {} round-two shares that do not match their senders' commitments", offenders.len()),
    )?;
    let named = e.culprits();
    check(
        named.iter().all(|c| offenders.contains(c)),
        &format!("{} round-two shares not matching their commitments: Error::culprits() never names an honest participant", offenders.len()),
        format!("a subset of {:?}", ids_hex::<C>(&offenders)),
        format!("{:?} (error {})", culprits_hex::<C>(&e), short_dbg(&e)),
    )
}

/// Missing / surplus / own-identifier / unknown-identifier packages in either round.
pub fn scenario_package_set_faults<C: Suite>(rng: &mut TestRng, p: &Params, notes: &mut Notes) -> Verdict {
    let s = setup::<C>(rng, p, notes)?;
    let kinds = [
        "r1-missing",
        "r1-surplus-outsider",
        "r1-filed-under-own-identifier",
        "r1-extra-under-own-identifier",
        "r2-missing",
        "r2-surplus-outsider",
        "r2-filed-under-own-identifier",
        "r2-filed-under-unknown-identifier",
        "r2-extra-under-own-identifier",
    ];
    let kind = kinds[rng.below(kinds.len())];
    notes.insert("fault".into(), json!(kind));
    let outsider = need(Id::<C>::derive(b"an outsider that is not part of this group"), "derive")?;
    if s.ids.contains(&outsider) {
        return skip("outsider collides");
    }
    let mut r1 = s.run.r1_for(&s.me);
    let mut r2 = s.run.r2_for(&s.me);
    let r2_secret = match s.run.r2_secret.get(&s.me) {
        Some(x) => x.clone(),
        None => return skip("internal"),
    };
    if kind.starts_with("r1-") {
        match kind {
            "r1-missing" => {
                r1.remove(&s.bad);
            }
            "r1-surplus-outsider" => {
                // a well-formed contribution (valid proof for its own identifier) by a non-member
                let (_, pk) = need(dkg::part1::<C, _>(outsider, p.n, p.t, &mut *rng), "part1 of outsider")?;
                r1.insert(outsider, pk);
            }
            "r1-filed-under-own-identifier" => {
                // the offender's package arrives under the receiver's identifier (count stays n-1)
                if let Some(pk) = r1.remove(&s.bad) {
                    r1.insert(s.me, pk);
                }
            }
            _ => {
                // the receiver's own package is echoed back in addition
                if let Some(pk) = s.run.r1_pkg.get(&s.me) {
                    r1.insert(s.me, pk.clone());
                }
            }
        }
        let e = must_refuse(
            dkg::part2::<C>(r1_secret_of(&s)?, &r1),
            &format!("part2 with a faulty set of round-one packages ({kind})"),
        )?;
        names_nobody_else::<C>(&e, &s.bad, kind)?;
        // part3 consumes the same set and must refuse it as well
        let e = must_refuse(
            dkg::part3::<C>(&r2_secret, &r1, &r2),
            &format!("part3 with a faulty set of round-one packages ({kind})"),
        )?;
        return names_nobody_else::<C>(&e, &s.bad, kind);
    }
    match kind {
        "r2-missing" => {
            r2.remove(&s.bad);
        }
        "r2-surplus-outsider" => {
            r2.insert(outsider, dkg::round2::Package::new(make_signing_share::<C>(&random_nonzero_scalar::<C>(rng))?));
        }
        "r2-filed-under-own-identifier" => {
            if let Some(pk) = r2.remove(&s.bad) {
                r2.insert(s.me, pk);
            }
        }
        "r2-filed-under-unknown-identifier" => {
            if let Some(pk) = r2.remove(&s.bad) {
                r2.insert(outsider, pk);
            }
        }
        _ => {
            // the receiver's own share f_me(me) filed as if received
            r2.insert(s.me, dkg::round2::Package::new(make_signing_share::<C>(&r2_secret.secret_share())?));
        }
    }
    let e = must_refuse(
        dkg::part3::<C>(&r2_secret, &r1, &r2),
        &format!("part3 with a faulty set of round-two packages ({kind})"),
    )?;
    names_nobody_else::<C>(&e, &s.bad, kind)
}
