#!/bin/bash
# Self-test (a): on the unchanged /repo every property must be RT-OK for several seeds.
#   selftest_clean.sh [TARGET_DIR] [BUDGET_S] [SEEDS...]       default: 60 s, seeds 1 2 3; env PROPS="C01 C06" restricts the properties
TD=${1:-/var/tmp/rt-target-I}; B=${2:-60}; shift; shift
SEEDS=${*:-1 2 3}
HERE=$(cd "$(dirname "$0")" && pwd)
for p in ${PROPS:-C01 C02 C03 C04 C05 C06 C07 C08 C09 C10 C11 C12 C13 C14 C15 C16 C17 C18 C19 C20}; do
  for s in $SEEDS; do
    o=$(python3 $HERE/run_rt.py $p --repo /repo --target-dir $TD --budget-s $B --seed $s --out $TD/clean-$p-$s.json --quiet 2>/dev/null)
    echo "$o" | grep '^RT-FINDING' | cut -c1-160 | sed "s/^/$p seed=$s :: /"
    echo "$p seed=$s :: $(echo "$o" | tail -1 | cut -c1-260)"
  done
done
