#!/usr/bin/env python3
"""Concrete replay search for one frost property against the REAL crates of a source tree.

  run_rt.py <PROPERTY_ID> [--repo PATH] [--seed N] [--budget-s S] [--out FILE.json]
                          [--target-dir D] [--replay FILE.json] [--threads T] [--max-cases M]

  exit 0  RT-OK         no failing input found within the budget   (or: the replayed case passes)
  exit 1  RT-FAIL       failing input found; FILE.json written      (or: the replayed case fails again)
  exit 2  RT-UNDECIDED  could not build / run (a compile error of the tree under test is ALWAYS 2)

What it does: renders crate/Cargo.toml.in with the path of the tree under test ($VERIF_REPO or --repo,
default /repo) into a scratch package directory <target-dir>/pkg/<key>/, copies <repo>/Cargo.lock next
to it (so that the offline resolver picks exactly the versions the tree is locked to), builds with
`cargo build --release --offline --target-dir <target-dir>`, copies the binary to the scratch package
directory and runs it.  Nothing is written into the tree under test nor next to this script.
Build and copy happen under a file lock, so concurrent invocations with the same target dir are safe.
"""
import argparse
import fcntl
import hashlib
import os
import re
import shutil
import subprocess
import sys
import time

HERE = os.path.dirname(os.path.abspath(__file__))
CRATE = os.path.join(HERE, "crate")
PROPS = ["C%02d" % i for i in range(1, 21)]


def undecided(reason, detail=""):
    reason = re.sub(r"\s+", "-", reason.strip())
    print(f"RT-UNDECIDED reason={reason}" + (f" detail={detail!r}" if detail else ""), flush=True)
    sys.exit(2)


def prune_stale(pkg_root, keep):
    """Scratch packages of source trees that no longer exist (removed scratch copies) are deleted: disk is limited."""
    try:
        for d in os.listdir(pkg_root):
            if d == keep:
                continue
            m = os.path.join(pkg_root, d, "Cargo.toml")
            try:
                txt = open(m, encoding="utf-8").read()
            except OSError:
                continue
            paths = re.findall(r'path\s*=\s*"([^"]+)/frost-core"', txt)
            if paths and not os.path.isdir(paths[0]):
                shutil.rmtree(os.path.join(pkg_root, d), ignore_errors=True)
    except OSError:
        pass


def build(repo, target_dir, quiet=False):
    """Returns the path of the built binary; exits 2 on any build problem."""
    if not os.path.isfile(os.path.join(repo, "frost-core", "Cargo.toml")):
        undecided("not-a-frost-source-tree", repo)
    key = re.sub(r"[^A-Za-z0-9]+", "_", repo).strip("_")[-40:] + "_" + hashlib.sha1(repo.encode()).hexdigest()[:8]
    pkg = os.path.join(target_dir, "pkg", key)
    os.makedirs(pkg, exist_ok=True)
    lock_path = os.path.join(target_dir, "run_rt.lock")
    with open(lock_path, "w") as lock_file:
        fcntl.flock(lock_file, fcntl.LOCK_EX)
        prune_stale(os.path.join(target_dir, "pkg"), keep=key)
        with open(os.path.join(CRATE, "Cargo.toml.in"), encoding="utf-8") as f:
            manifest = f.read().replace("@REPO@", repo).replace("@SRC@", os.path.join(CRATE, "src"))
        mpath = os.path.join(pkg, "Cargo.toml")
        old = open(mpath, encoding="utf-8").read() if os.path.exists(mpath) else None
        if old != manifest:
            with open(mpath, "w", encoding="utf-8") as f:
                f.write(manifest)
        # the tree's own lock file pins every third-party version (needed offline); cargo only has to
        # add the harness package itself and the few extra crates, all of which are in the lock already
        repo_lock = os.path.join(repo, "Cargo.lock")
        if os.path.isfile(repo_lock):
            shutil.copyfile(repo_lock, os.path.join(pkg, "Cargo.lock"))
        env = dict(os.environ, CARGO_NET_OFFLINE="true", CARGO_TERM_COLOR="never")
        cmd = ["cargo", "build", "--release", "--offline", "--target-dir", target_dir]
        t0 = time.time()
        try:
            r = subprocess.run(cmd, cwd=pkg, env=env, stdout=subprocess.PIPE, stderr=subprocess.STDOUT, text=True)
        except OSError as e:
            undecided("cannot-run-cargo", str(e))
        if r.returncode != 0:
            tail = "\n".join(r.stdout.strip().splitlines()[-40:])
            sys.stderr.write(tail + "\n")
            first_err = next((l for l in r.stdout.splitlines() if l.startswith("error")), "build failed")
            undecided("build-failed", first_err)
        if not quiet:
            sys.stderr.write(f"[run_rt] build ok in {time.time() - t0:.1f}s ({repo})\n")
        built = os.path.join(target_dir, "release", "frost-rt")
        if not os.path.isfile(built):
            undecided("binary-missing-after-build", built)
        exe = os.path.join(pkg, "frost-rt")
        tmp = exe + ".tmp%d" % os.getpid()
        shutil.copyfile(built, tmp)
        os.chmod(tmp, 0o755)
        os.replace(tmp, exe)
    return exe


def main():
    ap = argparse.ArgumentParser(description=__doc__, formatter_class=argparse.RawDescriptionHelpFormatter)
    ap.add_argument("property", help="C01..C20, or `list`")
    ap.add_argument("--repo", default=os.environ.get("VERIF_REPO", "/repo"))
    ap.add_argument("--seed", type=int, default=1)
    ap.add_argument("--budget-s", type=float, default=20.0)
    ap.add_argument("--out", default=None, help="where to write the failing input (default: ./rt-<ID>-fail.json)")
    ap.add_argument("--target-dir", default="/verif/build/rt-target")
    ap.add_argument("--replay", default=None, metavar="FILE.json")
    ap.add_argument("--threads", type=int, default=None)
    ap.add_argument("--max-cases", type=int, default=None)
    ap.add_argument("--quiet", action="store_true")
    a = ap.parse_args()

    prop = a.property.upper() if a.property != "list" else "list"
    if prop != "list" and prop not in PROPS:
        undecided("unknown-property", a.property)
    repo = os.path.abspath(a.repo)
    target_dir = os.path.abspath(a.target_dir)
    try:
        os.makedirs(target_dir, exist_ok=True)
    except OSError as e:
        undecided("cannot-create-target-dir", str(e))

    exe = build(repo, target_dir, a.quiet)

    if prop == "list":
        cmd = [exe, "list"]
    elif a.replay:
        cmd = [exe, "replay", os.path.abspath(a.replay), prop]
    else:
        out = a.out or os.path.abspath(f"rt-{prop}-fail.json")
        cmd = [exe, "run", prop, "--seed", str(a.seed), "--budget-s", str(a.budget_s), "--out", os.path.abspath(out)]
        if a.threads:
            cmd += ["--threads", str(a.threads)]
        if a.max_cases:
            cmd += ["--max-cases", str(a.max_cases)]
    try:
        # generous wall-clock cap: budget + slack for the slowest single case
        cap = None if a.replay or prop == "list" else a.budget_s + 300
        r = subprocess.run(cmd, timeout=cap)
    except subprocess.TimeoutExpired:
        undecided("harness-timeout")
    except OSError as e:
        undecided("cannot-run-harness", str(e))
    if r.returncode not in (0, 1, 2):
        # killed by a signal / abort inside the library (e.g. stack overflow): no verdict
        undecided("harness-crashed", f"exit status {r.returncode}")
    sys.exit(r.returncode)


if __name__ == "__main__":
    main()
