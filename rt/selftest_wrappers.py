#!/usr/bin/env python3
"""Sensitivity self-test of the wrapper-equivalence scenarios (crate/src/wrap.rs): defects planted into the NON-generic
wrapper functions of the ciphersuite crates (invisible to every scenario that goes through the frost_core generics).
One defect at a time in a scratch copy of /repo; run_rt.py <ID> must answer RT-FAIL and --replay must reproduce.

    selftest_wrappers.py [TARGET_DIR] [NAME ...]          env: BUDGET (default 20), SEED (default 1)

The scratch copy is kept between mutants (only the touched crate is rebuilt); a restored file is re-written so that
its modification time is new (cargo's freshness check is mtime based: restoring the old mtime would re-use the
mutated artefact)."""
import os, shutil, subprocess, sys

HERE = os.path.dirname(os.path.abspath(__file__))
MUT = "/var/tmp/rtmutL"
# name -> (properties (first = the one asked for), file, old text | None (= apply `patch`), new text | patch file, description)
MUTANTS = {
    "W1": (["C10"], "frost-secp256k1-tr/src/keys/refresh.rs", None, "/verif/seeded2/C10_3/patch.diff",
           "seeded2/C10_3: secp256k1-tr keys::refresh::refresh_share additionally .into_even_y(None)"),
    "W2": (["C11"], "frost-p256/src/keys/repairable.rs",
           "frost::keys::repairable::repair_share_part2::<P256Sha256>(deltas)",
           "frost::keys::repairable::repair_share_part2::<P256Sha256>(deltas.get(1..).unwrap_or(&[]))",
           "p256 keys::repairable::repair_share_part2 sums all deltas but the first"),
    "W3": (["C07", "C08", "C09"], "frost-ristretto255/src/keys/dkg.rs",
           "    frost::keys::dkg::part2(secret_package, round1_packages)\n",
           "    let _ = round1_packages;\n    frost::keys::dkg::part2(secret_package, &BTreeMap::new())\n",
           "ristretto255 keys::dkg::part2 hands an empty map to the core"),
    "W4": (["C01", "C04", "C05"], "frost-secp256k1/src/lib.rs",
           "        frost::round2::sign(signing_package, signer_nonces, key_package)\n",
           "        let message = signing_package.message();\n"
           "        let truncated = SigningPackage::new(\n"
           "            signing_package.signing_commitments().clone(),\n"
           "            &message[..message.len().saturating_sub(1)],\n"
           "        );\n"
           "        frost::round2::sign(&truncated, signer_nonces, key_package)\n",
           "secp256k1 round2::sign signs a clone of the signing package whose message lost its last byte"),
    "W5": (["C06", "C01"], "frost-ed448/src/lib.rs",
           "        frost::keys::split(secret, max_signers, min_signers, identifiers, rng)\n",
           "        frost::keys::split(secret, max_signers - 1, min_signers, identifiers, rng)\n",
           "ed448 keys::split passes max_signers - 1"),
    # not asked for; one defect for each of the remaining attachments (C15, C17, C18)
    "W6": (["C15"], "frost-ed25519/src/lib.rs",
           "        frost::round1::commit::<E, RNG>(secret, rng)\n",
           "        let _ = frost::round1::commit::<E, RNG>(secret, rng);\n        frost::round1::commit::<E, RNG>(secret, rng)\n",
           "ed25519 round1::commit returns the second of two draws"),
    "W7": (["C17"], "frost-ristretto255/src/rerandomized.rs",
           "        cheater_detection,\n        randomized_params,\n    )",
           "        {\n            let _ = cheater_detection;\n            crate::CheaterDetection::FirstCheater\n        },\n        randomized_params,\n    )",
           "ristretto255 rerandomized::aggregate_custom ignores the requested cheater detection"),
    "W8": (["C18"], "frost-secp256k1-tr/src/lib.rs",
           "    frost::aggregate(signing_package, signature_shares, &public_key_package)\n}\n\n/// A signing key",
           "    frost::aggregate(signing_package, signature_shares, &public_key_package)\n        .map_err(|e| if e.culprits().is_empty() { Error::InvalidSignature } else { e })\n}\n\n/// A signing key",
           "secp256k1-tr aggregate_with_tweak replaces every error that names nobody by InvalidSignature"),
}


def run(cmd):
    r = subprocess.run(cmd, stdout=subprocess.PIPE, stderr=subprocess.DEVNULL, text=True)
    lines = r.stdout.strip().splitlines()
    return lines[-1] if lines else ""


def restore(rel):
    """original content, NEW modification time"""
    with open(os.path.join("/repo", rel), "rb") as f:
        data = f.read()
    with open(os.path.join(MUT, rel), "wb") as f:
        f.write(data)


def main():
    td = sys.argv[1] if len(sys.argv) > 1 else "/var/tmp/rt-target-L"
    names = sys.argv[2:] or sorted(MUTANTS)
    budget, seed = os.environ.get("BUDGET", "20"), os.environ.get("SEED", "1")
    if not os.path.isdir(MUT):
        subprocess.run(["rsync", "-a", "--exclude", "target", "--exclude", ".git", "/repo/", MUT + "/"], check=True)
    # artefacts of an earlier user of the same scratch path (e.g. selftest_seeded.sh with MUT=...) must not be re-used: every crate root new
    subprocess.run("touch " + MUT + "/frost-*/src/lib.rs", shell=True, check=True)
    # whatever an earlier (possibly interrupted) run left behind
    for _, rel, _, _, _ in MUTANTS.values():
        restore(rel)
    for name in names:
        props, rel, old, new, desc = MUTANTS[name]
        path = os.path.join(MUT, rel)
        if old is None:
            r = subprocess.run(["patch", "-s", "-p1", "-i", new], cwd=MUT, stdout=subprocess.DEVNULL, stderr=subprocess.DEVNULL)
            if r.returncode != 0:
                print(f"{name} PATCH-DOES-NOT-APPLY :: {desc}")
                restore(rel)
                continue
        else:
            text = open(path, encoding="utf-8").read()
            if text.count(old) != 1:
                print(f"{name} MUTATION-DOES-NOT-APPLY ({text.count(old)} matches) :: {desc}")
                continue
            open(path, "w", encoding="utf-8").write(text.replace(old, new, 1))
        for prop in props:
            out = os.path.join(td, f"wrap-{name}-{prop}.json")
            if os.path.exists(out):
                os.remove(out)
            last = run([sys.executable, os.path.join(HERE, "run_rt.py"), prop, "--repo", MUT, "--target-dir", td,
                        "--budget-s", budget, "--seed", seed, "--out", out, "--quiet"])
            verdict = last.split(" ")[0] if last else "?"
            rep = ""
            if verdict == "RT-FAIL":
                rl = run([sys.executable, os.path.join(HERE, "run_rt.py"), prop, "--repo", MUT, "--target-dir", td,
                          "--replay", out, "--quiet"])
                rep = " replay=" + (rl.split(" ")[0] if rl else "?")
            print(f"{name} ({prop}: {desc}) {verdict}{rep} :: {last[:420]}", flush=True)
        restore(rel)
    shutil.rmtree(MUT, ignore_errors=True)


if __name__ == "__main__":
    main()
