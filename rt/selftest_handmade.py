#!/usr/bin/env python3
"""Sensitivity self-test for the properties that have no seeded patch (C13..C20): small hand-made defects are
planted into a scratch copy of /repo by text replacement; run_rt.py <ID> must answer RT-FAIL and --replay must
reproduce.   selftest_handmade.py [TARGET_DIR] [NAME ...]"""
import os, shutil, subprocess, sys

HERE = os.path.dirname(os.path.abspath(__file__))
MUT = "/var/tmp/rtmut-hand"
# name -> (property, file, old text, new text, description)
MUTANTS = {
    "H13": ("C13", "frost-core/src/keys/dkg.rs",
            "        /// The total number of signers.\n        pub(crate) max_signers: u16,\n    }\n\n    impl<C> SecretPackage<C>\n    where\n        C: Ciphersuite,\n    {\n        /// Create a new Secret Package.",
            "        /// The total number of signers.\n        #[cfg_attr(feature = \"serde\", serde(skip))]\n        pub(crate) max_signers: u16,\n    }\n\n    impl<C> SecretPackage<C>\n    where\n        C: Ciphersuite,\n    {\n        /// Create a new Secret Package.",
            "dkg::round1::SecretPackage.max_signers is not persisted (serde skip)"),
    "H14": ("C14", "frost-core/src/keys.rs",
            "                        .get(i)\n                        .ok_or(Error::IncorrectNumberOfCommitments)?\n                        .value(),",
            "                        .get(i)\n                        .expect(\"all commitments have the same length\")\n                        .value(),",
            "sum_commitments panics on commitments of different lengths"),
    "H15": ("C15", "frost-core/src/round1.rs",
            "        rng.fill_bytes(&mut random_bytes[..]);",
            "        rng.fill_bytes(&mut random_bytes[..16]);",
            "Nonce::new draws only 16 random bytes"),
    "H16": ("C16", "frost-core/src/keys/dkg.rs",
            "    let (k, R_i) = <C>::generate_nonce(&mut rng);\n    let c_i = challenge::<C>(identifier, &commitment.verifying_key()?, &R_i)?;",
            "    let _ = &mut rng;\n    let k = *coefficients.last().ok_or(Error::InvalidCoefficients)?;\n    let R_i = <C::Group>::generator() * k;\n    let c_i = challenge::<C>(identifier, &commitment.verifying_key()?, &R_i)?;",
            "proof-of-knowledge nonce re-uses the last polynomial coefficient instead of a fresh draw"),
    "H17": ("C17", "frost-rerandomized/src/lib.rs",
            "            &[\n                randomizer_seed,\n                &encode_group_commitments(signing_commitments)?,\n            ]\n            .concat(),",
            "            &[\n                randomizer_seed,\n                &encode_group_commitments(signing_commitments).map(|_| alloc::vec::Vec::new())?,\n            ]\n            .concat(),",
            "randomizer no longer depends on the commitment set"),
    "H18": ("C18", "frost-secp256k1-tr/src/lib.rs",
            "            let public_key_package = self.into_even_y(None);",
            "            let public_key_package = self;",
            "PublicKeyPackage::tweak skips the even-Y normalisation of the internal key"),
    "H19": ("C19", "frost-core/src/batch.rs",
            "            let blind = <<C::Group as Group>::Field>::random(&mut rng);",
            "            let _ = &mut rng;\n            let blind = <<C::Group as Group>::Field>::one();",
            "batch verification uses the constant blinder 1"),
    "H20": ("C20", "frost-core/src/keys.rs",
            "        f.debug_tuple(\"SigningShare\").field(&\"<redacted>\").finish()",
            "        f.debug_tuple(\"SigningShare\").field(&hex::encode(self.serialize())).finish()",
            "Debug of SigningShare prints the scalar"),
}

def run(cmd):
    r = subprocess.run(cmd, stdout=subprocess.PIPE, stderr=subprocess.DEVNULL, text=True)
    lines = r.stdout.strip().splitlines()
    return lines[-1] if lines else ""

def main():
    td = sys.argv[1] if len(sys.argv) > 1 else "/var/tmp/rt-target-I"
    names = sys.argv[2:] or sorted(MUTANTS)
    for name in names:
        prop, rel, old, new, desc = MUTANTS[name]
        shutil.rmtree(MUT, ignore_errors=True)
        subprocess.run(["rsync", "-a", "--exclude", "target", "--exclude", ".git", "/repo/", MUT + "/"], check=True)
        # cargo's freshness check is mtime based: a file restored by rsync carries its old mtime, so a crate changed by the previous mutant
        # and not by this one would keep the previous mutant's artefact.  Make every crate root new.
        subprocess.run("touch " + MUT + "/frost-*/src/lib.rs", shell=True, check=True)
        path = os.path.join(MUT, rel)
        text = open(path, encoding="utf-8").read()
        if text.count(old) < 1:
            print(f"{name} ({prop}) MUTATION-DOES-NOT-APPLY :: {desc}")
            continue
        open(path, "w", encoding="utf-8").write(text.replace(old, new, 1))
        out = os.path.join(td, f"hand-{name}.json")
        if os.path.exists(out):
            os.remove(out)
        last = run([sys.executable, os.path.join(HERE, "run_rt.py"), prop, "--repo", MUT, "--target-dir", td,
                    "--budget-s", os.environ.get("BUDGET", "20"), "--out", out, "--quiet"])
        verdict = last.split(" ")[0] if last else "?"
        rep = ""
        if verdict == "RT-FAIL":
            rl = run([sys.executable, os.path.join(HERE, "run_rt.py"), prop, "--repo", MUT, "--target-dir", td, "--replay", out, "--quiet"])
            rep = " replay=" + (rl.split(" ")[0] if rl else "?")
        print(f"{name} ({prop}: {desc}) {verdict}{rep} :: {last[:330]}", flush=True)
    shutil.rmtree(MUT, ignore_errors=True)

if __name__ == "__main__":
    main()
