// F1 (C10): demonstration against the real crates.  Copy to frost-ed25519/tests/f1_refresh_share_demo.rs and run
//   cargo test -p frost-ed25519 --test f1_refresh_share_demo --offline
// On the pinned tree (before the `fix:` commit) it FAILS: the key package returned by `refresh_share` keeps the
// pre-refresh verifying share, so verifying_share != G * signing_share and != the refreshed public package entry.
use frost_ed25519 as frost;
use frost::keys::{refresh::{compute_refreshing_shares, refresh_share}, IdentifierList, KeyPackage, VerifyingShare};
use std::collections::BTreeMap;

#[test]
fn refreshed_key_package_is_relinked() {
    let mut rng = rand_core::UnwrapErr(rand::rngs::SysRng);
    let (shares, pk) = frost::keys::generate_with_dealer(3, 2, IdentifierList::Default, &mut rng).unwrap();
    let mut kps: BTreeMap<_, KeyPackage> = BTreeMap::new();
    for (id, s) in shares { kps.insert(id, KeyPackage::try_from(s).unwrap()); }
    let ids: Vec<_> = kps.keys().cloned().collect();
    let (rshares, new_pk) = compute_refreshing_shares(pk.clone(), &ids, &mut rng).unwrap();
    for rs in rshares {
        let id = *rs.identifier();
        let new_kp = refresh_share(rs, &kps[&id]).unwrap();
        let expected = VerifyingShare::from(*new_kp.signing_share());
        assert_eq!(new_kp.verifying_share(), &expected, "verifying share != G * new signing share");
        assert_eq!(new_kp.verifying_share(), &new_pk.verifying_shares()[&id], "verifying share != refreshed public package entry");
        assert_eq!(new_kp.verifying_key(), new_pk.verifying_key());
    }
}
