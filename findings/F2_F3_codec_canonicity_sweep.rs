use frost_core::{Ciphersuite, Field, Group};
use rand_core::{Rng, SeedableRng};
type S = SUITE;
type G = <S as Ciphersuite>::Group;
type F = <G as Group>::Field;

fn check_elem(buf: &<G as Group>::Serialization, bad: &mut Vec<String>) {
    if let Ok(p) = G::deserialize(buf) {
        match G::serialize(&p) {
            Ok(re) => if re.as_ref() != buf.as_ref() { bad.push(format!("elem {} -> {}", hex::encode(buf.as_ref()), hex::encode(re.as_ref()))); },
            Err(_) => bad.push(format!("elem {} decodes to unserializable", hex::encode(buf.as_ref()))),
        }
    }
}
fn check_scalar(buf: &<F as Field>::Serialization, bad: &mut Vec<String>) {
    if let Ok(s) = F::deserialize(buf) {
        let re = F::serialize(&s);
        if re.as_ref() != buf.as_ref() { bad.push(format!("scalar {} -> {}", hex::encode(buf.as_ref()), hex::encode(re.as_ref()))); }
    }
}
#[test]
fn canonicity_sweep() {
    let mut rng = rand_chacha::ChaCha20Rng::seed_from_u64(7);
    let mut bad = Vec::new();
    for round in 0..40 {
        let k = if round == 0 { F::one() } else { F::random(&mut rng) };
        let p = G::generator() * k;
        let enc = G::serialize(&p).unwrap();
        let n = enc.as_ref().len();
        for pos in [0usize, 1, n / 2, n - 2, n - 1] {
            for v in 0..=255u8 {
                let mut alt = enc.clone();
                alt.as_mut()[pos] = v;
                check_elem(&alt, &mut bad);
            }
        }
        let senc = F::serialize(&k);
        let m = senc.as_ref().len();
        for pos in [0usize, 1, m / 2, m - 2, m - 1] {
            for v in 0..=255u8 {
                let mut alt = senc.clone();
                alt.as_mut()[pos] = v;
                check_scalar(&alt, &mut bad);
            }
        }
        // random strings
        for _ in 0..200 {
            let mut a = enc.clone(); rng.fill_bytes(a.as_mut()); check_elem(&a, &mut bad);
            let mut b = senc.clone(); rng.fill_bytes(b.as_mut()); check_scalar(&b, &mut bad);
            // all-ones / high values
            let mut c = senc.clone(); for x in c.as_mut().iter_mut() { *x = 0xff; } c.as_mut()[0] = (rng.next_u32() & 0xff) as u8; check_scalar(&c, &mut bad);
            let mut d = enc.clone(); for x in d.as_mut().iter_mut() { *x = 0xff; } d.as_mut()[0] = (rng.next_u32() & 0xff) as u8; let l = d.as_ref().len(); d.as_mut()[l-1] = (rng.next_u32() & 0xff) as u8; check_elem(&d, &mut bad);
        }
    }
    bad.sort(); bad.dedup();
    for b in bad.iter().take(10) { println!("NONCANONICAL {}", b); }
    assert!(bad.is_empty(), "{} non-canonical encodings accepted", bad.len());
}
