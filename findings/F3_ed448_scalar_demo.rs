use frost_core::{Group, Field};
use frost_ed448::*;
type F = <<Ed448Shake256 as frost_core::Ciphersuite>::Group as Group>::Field;
#[test]
fn byte56() {
    let one = F::one();
    let enc = F::serialize(&one);
    for v in [0x01u8, 0x80, 0x40, 0xff] {
        let mut alt = enc.clone();
        alt[56] = v;
        let r = F::deserialize(&alt);
        println!("ed448 byte56={:#x}: ok={}", v, r.is_ok());
        if let Ok(s) = r { let re = F::serialize(&s); assert!(re == alt, "scalar with byte56={:#x} accepted and re-encodes differently", v); }
    }
}
