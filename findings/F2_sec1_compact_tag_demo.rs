use frost_core::{Group, Field};
use frost_p256::*;
type G = <P256Sha256 as frost_core::Ciphersuite>::Group;
#[test]
fn compact_tag() {
    let g = G::generator();
    let enc = G::serialize(&g).unwrap();
    let mut alt = enc.clone();
    alt[0] = 0x05;
    let r = G::deserialize(&alt);
    println!("p256 tag05: {:?}", r.is_ok());
    if let Ok(p) = r { let re = G::serialize(&p).unwrap(); println!("re-encode equal: {}", re == alt); assert!(re == alt, "05||x accepted and re-encodes differently"); }
}
