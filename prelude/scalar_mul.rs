// prelude/scalar_mul.rs -- stand-in for frost-core/src/scalar_mul.rs inside the Verus unit.
// The real module (NAF recoder + Straus MSM: `vec!`, byteorder, lint-exempt indexing, generic
// IntoIterator/Borrow plumbing) is outside the Verus unit; its *result* is an assumed contract at each
// call site (rule E7 outlines the call, DESIGN.md section 4 C01 "Assumed / bounded") and its body is
// checked by the Kani layer only.  Only the trait signature is reproduced so that call sites compile.
pub mod scalar_mul {
    use core::borrow::Borrow;
    use crate::{Ciphersuite, Element, Scalar};
    pub trait VartimeMultiscalarMul<C: Ciphersuite>: Clone {
        fn vartime_multiscalar_mul<I, J>(scalars: I, elements: J) -> Self
        where
            I: IntoIterator,
            I::Item: Borrow<Scalar<C>>,
            J: IntoIterator,
            J::Item: Borrow<Self>;
    }
    impl<C> VartimeMultiscalarMul<C> for Element<C>
    where
        C: Ciphersuite,
    {
        fn vartime_multiscalar_mul<I, J>(_scalars: I, _elements: J) -> Self
        where
            I: IntoIterator,
            I::Item: Borrow<Scalar<C>>,
            J: IntoIterator,
            J::Item: Borrow<Self>,
        {
            unimplemented!()
        }
    }
}
