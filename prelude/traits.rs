// prelude/traits.rs -- hand-written counterpart of frost-core/src/traits.rs (DESIGN.md section 2.2).
//
// Same trait, type and method names and the same bounds as the repo file, plus: spec functions (the
// specification vocabulary), axioms as trait-level proof fns (trusted base T3-T5, T9) and contracts on the
// executable methods.  The *default bodies* of the optional `Ciphersuite` methods are NOT here: rule E10
// extracts them mechanically from the repo file into free functions `default_<name>` (module
// `traits_defaults`) and verifies them against the hook contracts declared below.
//
// Deviations from the repo text (all forced by Verus, see DESIGN.md E10/E11):
//   * `AsRef<[u8]> + AsMut<[u8]>` bounds -> the `Bytes` trait below (methods of the same names);
//   * `const ID` is omitted (only used by serde code, which is outside the Verus unit);
//   * rand_core's `CryptoRng` -> the ghost-stream model `CryptoRng` below.
pub mod traits {
#[allow(unused_imports)] use vstd::prelude::*;
#[allow(unused_imports)] use vstd::std_specs::ops::*;
#[allow(unused_imports)] use vstd::std_specs::cmp::*;
#[allow(unused_imports)] use core::fmt::Debug;
#[allow(unused_imports)] use core::ops::{Add, Mul, Sub};
#[allow(unused_imports)] use std::borrow::Cow;
#[allow(unused_imports)] use std::collections::BTreeMap;
#[allow(unused_imports)] use std::vec::Vec;
#[allow(unused_imports)] use crate::vstdx::*;
#[allow(unused_imports)] use crate::vspec::*;
#[allow(unused_imports)]
use crate::{
    BindingFactor, BindingFactorList, Challenge, Error, FieldError, GroupCommitment, GroupError,
    Identifier, Signature, SigningKey, SigningPackage, VerifyingKey,
    keys::{KeyPackage, PublicKeyPackage, SecretShare, VerifyingShare},
    round1::{self, SigningNonces},
    round2::{self, SignatureShare},
};
verus! {

// ---------------------------------------------------------------------------------------------------
// E11: byte-array types (`Field::Serialization`, `Group::Serialization`, `HashOutput`, ...)
pub trait Bytes: Sized {
    spec fn bytes_view(&self) -> Seq<u8>;
    fn as_ref(&self) -> (r: &[u8])
        ensures r@ == self.bytes_view(),
            // a `&[u8]` never has more than isize::MAX elements (Rust reference, slice layout invariant); needed so that the sum
            // of two serialisation lengths (signature.rs) provably does not overflow (C14)
            r@.len() <= isize::MAX;
    fn as_mut(&mut self) -> (r: &mut [u8])
        ensures (*r)@ == old(self).bytes_view(), final(self).bytes_view() == (*final(r))@;
}

// ---------------------------------------------------------------------------------------------------
// T9: ghost-stream model of the caller's random source.  `stream()` is the (prophetic, arbitrary) infinite
// byte sequence the source will produce, `pos()` how much of it has been consumed.
pub trait CryptoRng: Sized {
    spec fn pos(&self) -> nat;
    spec fn stream(&self) -> spec_fn(nat) -> u8;
    fn fill_bytes(&mut self, dst: &mut [u8])
        ensures
            (*final(self)).stream() == (*old(self)).stream(),
            (*final(self)).pos() == (*old(self)).pos() + (*old(dst))@.len(),
            (*final(dst))@.len() == (*old(dst))@.len(),
            forall|i: int| 0 <= i < (*old(dst))@.len() ==> #[trigger] (*final(dst))@[i] == ((*old(self)).stream())(((*old(self)).pos() + i) as nat);
}

impl<R: CryptoRng> CryptoRng for &mut R {
    open spec fn pos(&self) -> nat { (**self).pos() }
    open spec fn stream(&self) -> spec_fn(nat) -> u8 { (**self).stream() }
    #[verifier::external_body]
    fn fill_bytes(&mut self, dst: &mut [u8]) { (**self).fill_bytes(dst) }
}

// ---------------------------------------------------------------------------------------------------
pub trait Field: Copy {
    type Scalar: Add<Output = Self::Scalar>
        + Copy
        + Clone
        + Eq
        + Mul<Output = Self::Scalar>
        + PartialEq
        + Sub<Output = Self::Scalar>
        + Send
        + Sync;

    type Serialization: Clone + Bytes + for<'a> TryFrom<&'a [u8]> + Debug;

    // ---- specification vocabulary (T3: the scalars form a field) ----
    spec fn s_zero() -> Self::Scalar;
    spec fn s_one() -> Self::Scalar;
    spec fn s_add(a: Self::Scalar, b: Self::Scalar) -> Self::Scalar;
    spec fn s_neg(a: Self::Scalar) -> Self::Scalar;
    spec fn s_mul(a: Self::Scalar, b: Self::Scalar) -> Self::Scalar;
    spec fn s_inv(a: Self::Scalar) -> Self::Scalar;
    // T4: codec of scalars (uninterpreted; only the round-trip/canonicity laws below are assumed)
    spec fn spec_ns() -> nat;
    spec fn spec_ser(a: Self::Scalar) -> Seq<u8>;
    spec fn spec_le_ser(a: Self::Scalar) -> Seq<u8>;
    spec fn spec_deser(b: Seq<u8>) -> Option<Self::Scalar>;
    // T9: `random` is a function of the unread part of the stream
    spec fn rand_used(stream: spec_fn(nat) -> u8, pos: nat) -> nat;
    spec fn rand_val(stream: spec_fn(nat) -> u8, pos: nat) -> Self::Scalar;

    fn zero() -> (r: Self::Scalar)
        ensures r == Self::s_zero();
    fn one() -> (r: Self::Scalar)
        ensures r == Self::s_one();
    fn invert(scalar: &Self::Scalar) -> (r: Result<Self::Scalar, FieldError>)
        ensures
            *scalar == Self::s_zero() ==> r == Err::<Self::Scalar, FieldError>(FieldError::InvalidZeroScalar),
            *scalar != Self::s_zero() ==> r == Ok::<Self::Scalar, FieldError>(Self::s_inv(*scalar));
    fn random<R: CryptoRng>(rng: &mut R) -> (r: Self::Scalar)
        ensures
            (*final(rng)).stream() == (*old(rng)).stream(),
            (*final(rng)).pos() == (*old(rng)).pos() + Self::rand_used((*old(rng)).stream(), (*old(rng)).pos()),
            r == Self::rand_val((*old(rng)).stream(), (*old(rng)).pos());
    fn serialize(scalar: &Self::Scalar) -> (r: Self::Serialization)
        ensures r.bytes_view() == Self::spec_ser(*scalar);
    fn little_endian_serialize(scalar: &Self::Scalar) -> (r: Self::Serialization)
        ensures r.bytes_view() == Self::spec_le_ser(*scalar);
    fn deserialize(buf: &Self::Serialization) -> (r: Result<Self::Scalar, FieldError>)
        ensures
            Self::spec_deser(buf.bytes_view()) is Some ==> r == Ok::<Self::Scalar, FieldError>(Self::spec_deser(buf.bytes_view())->Some_0),
            Self::spec_deser(buf.bytes_view()) is None ==> r == Err::<Self::Scalar, FieldError>(FieldError::MalformedScalar);

    // exec operators compute the spec operations (bridge to vstd's operator specs; machine arithmetic of
    // the curve crates treated as mathematical)
    proof fn ax_ops()
        ensures
            <Self::Scalar as AddSpec<Self::Scalar>>::obeys_add_spec(),
            <Self::Scalar as SubSpec<Self::Scalar>>::obeys_sub_spec(),
            <Self::Scalar as MulSpec<Self::Scalar>>::obeys_mul_spec(),
            <Self::Scalar as PartialEqSpec<Self::Scalar>>::obeys_eq_spec(),
            forall|a: Self::Scalar, b: Self::Scalar| #[trigger] a.add_req(b),
            forall|a: Self::Scalar, b: Self::Scalar| #[trigger] a.sub_req(b),
            forall|a: Self::Scalar, b: Self::Scalar| #[trigger] a.mul_req(b),
            forall|a: Self::Scalar, b: Self::Scalar| #[trigger] a.add_spec(b) == Self::s_add(a, b),
            forall|a: Self::Scalar, b: Self::Scalar| #[trigger] a.sub_spec(b) == Self::s_add(a, Self::s_neg(b)),
            forall|a: Self::Scalar, b: Self::Scalar| #[trigger] a.mul_spec(b) == Self::s_mul(a, b),
            forall|a: Self::Scalar, b: Self::Scalar| #[trigger] a.eq_spec(&b) == (a == b);
    // field axioms
    proof fn ax_add_comm(a: Self::Scalar, b: Self::Scalar) ensures Self::s_add(a, b) == Self::s_add(b, a);
    proof fn ax_add_assoc(a: Self::Scalar, b: Self::Scalar, c: Self::Scalar) ensures Self::s_add(Self::s_add(a, b), c) == Self::s_add(a, Self::s_add(b, c));
    proof fn ax_add_zero(a: Self::Scalar) ensures Self::s_add(a, Self::s_zero()) == a;
    proof fn ax_add_neg(a: Self::Scalar) ensures Self::s_add(a, Self::s_neg(a)) == Self::s_zero();
    proof fn ax_mul_comm(a: Self::Scalar, b: Self::Scalar) ensures Self::s_mul(a, b) == Self::s_mul(b, a);
    proof fn ax_mul_assoc(a: Self::Scalar, b: Self::Scalar, c: Self::Scalar) ensures Self::s_mul(Self::s_mul(a, b), c) == Self::s_mul(a, Self::s_mul(b, c));
    proof fn ax_mul_one(a: Self::Scalar) ensures Self::s_mul(a, Self::s_one()) == a;
    proof fn ax_distrib(a: Self::Scalar, b: Self::Scalar, c: Self::Scalar) ensures Self::s_mul(a, Self::s_add(b, c)) == Self::s_add(Self::s_mul(a, b), Self::s_mul(a, c));
    proof fn ax_mul_inv(a: Self::Scalar) requires a != Self::s_zero() ensures Self::s_mul(a, Self::s_inv(a)) == Self::s_one();
    proof fn ax_one_ne_zero() ensures Self::s_one() != Self::s_zero();
    // codec axioms (T4)
    proof fn ax_ser_len(a: Self::Scalar) ensures Self::spec_ser(a).len() == Self::spec_ns(), Self::spec_le_ser(a).len() == Self::spec_ns();
    proof fn ax_ser_deser(a: Self::Scalar) ensures Self::spec_deser(Self::spec_ser(a)) == Some(a);
    proof fn ax_deser_canonical(b: Seq<u8>) ensures Self::spec_deser(b) is Some ==> Self::spec_ser(Self::spec_deser(b)->Some_0) == b;
    proof fn ax_serialization_len(x: Self::Serialization) ensures x.bytes_view().len() == Self::spec_ns();
    // T9
    proof fn ax_rand_used(stream: spec_fn(nat) -> u8, pos: nat) ensures Self::rand_used(stream, pos) > 0;
}

pub type Scalar<C> = <<<C as Ciphersuite>::Group as Group>::Field as Field>::Scalar;

// ---------------------------------------------------------------------------------------------------
pub trait Group: Copy + PartialEq {
    type Field: Field;

    type Element: Add<Output = Self::Element>
        + Copy
        + Clone
        + Eq
        + Mul<<Self::Field as Field>::Scalar, Output = Self::Element>
        + PartialEq
        + Sub<Output = Self::Element>
        + Send
        + Sync;

    type Serialization: Clone + Bytes + for<'a> TryFrom<&'a [u8]> + Debug;

    // ---- specification vocabulary (T3: prime-order group with scalar action) ----
    spec fn e_id() -> Self::Element;
    spec fn e_gen() -> Self::Element;
    spec fn e_add(a: Self::Element, b: Self::Element) -> Self::Element;
    spec fn e_neg(a: Self::Element) -> Self::Element;
    spec fn e_smul(a: Self::Element, k: <Self::Field as Field>::Scalar) -> Self::Element;
    spec fn s_cofactor() -> <Self::Field as Field>::Scalar;
    spec fn spec_ne() -> nat;
    spec fn spec_eser(a: Self::Element) -> Seq<u8>;
    spec fn spec_edeser(b: Seq<u8>) -> Option<Self::Element>;
    spec fn spec_edeser_err(b: Seq<u8>) -> GroupError;

    fn cofactor() -> (r: <Self::Field as Field>::Scalar)
        ensures r == Self::s_cofactor();
    fn identity() -> (r: Self::Element)
        ensures r == Self::e_id();
    fn generator() -> (r: Self::Element)
        ensures r == Self::e_gen();
    fn serialize(element: &Self::Element) -> (r: Result<Self::Serialization, GroupError>)
        ensures
            *element == Self::e_id() ==> r == Err::<Self::Serialization, GroupError>(GroupError::InvalidIdentityElement),
            *element != Self::e_id() ==> r is Ok && (r->Ok_0).bytes_view() == Self::spec_eser(*element);
    fn deserialize(buf: &Self::Serialization) -> (r: Result<Self::Element, GroupError>)
        ensures
            Self::spec_edeser(buf.bytes_view()) is Some ==> r == Ok::<Self::Element, GroupError>(Self::spec_edeser(buf.bytes_view())->Some_0),
            Self::spec_edeser(buf.bytes_view()) is None ==> r == Err::<Self::Element, GroupError>(Self::spec_edeser_err(buf.bytes_view()));

    proof fn ax_eops()
        ensures
            <Self::Element as AddSpec<Self::Element>>::obeys_add_spec(),
            <Self::Element as SubSpec<Self::Element>>::obeys_sub_spec(),
            <Self::Element as MulSpec<<Self::Field as Field>::Scalar>>::obeys_mul_spec(),
            <Self::Element as PartialEqSpec<Self::Element>>::obeys_eq_spec(),
            forall|a: Self::Element, b: Self::Element| #[trigger] a.add_req(b),
            forall|a: Self::Element, b: Self::Element| #[trigger] a.sub_req(b),
            forall|a: Self::Element, k: <Self::Field as Field>::Scalar| #[trigger] a.mul_req(k),
            forall|a: Self::Element, b: Self::Element| #[trigger] a.add_spec(b) == Self::e_add(a, b),
            forall|a: Self::Element, b: Self::Element| #[trigger] a.sub_spec(b) == Self::e_add(a, Self::e_neg(b)),
            forall|a: Self::Element, k: <Self::Field as Field>::Scalar| #[trigger] a.mul_spec(k) == Self::e_smul(a, k),
            forall|a: Self::Element, b: Self::Element| #[trigger] a.eq_spec(&b) == (a == b);
    // abelian group
    proof fn ax_eadd_comm(a: Self::Element, b: Self::Element) ensures Self::e_add(a, b) == Self::e_add(b, a);
    proof fn ax_eadd_assoc(a: Self::Element, b: Self::Element, c: Self::Element) ensures Self::e_add(Self::e_add(a, b), c) == Self::e_add(a, Self::e_add(b, c));
    proof fn ax_eadd_id(a: Self::Element) ensures Self::e_add(a, Self::e_id()) == a;
    proof fn ax_eadd_neg(a: Self::Element) ensures Self::e_add(a, Self::e_neg(a)) == Self::e_id();
    // scalar action (module laws)
    proof fn ax_smul_add(a: Self::Element, j: <Self::Field as Field>::Scalar, k: <Self::Field as Field>::Scalar)
        ensures Self::e_smul(a, <Self::Field as Field>::s_add(j, k)) == Self::e_add(Self::e_smul(a, j), Self::e_smul(a, k));
    proof fn ax_smul_eadd(a: Self::Element, b: Self::Element, k: <Self::Field as Field>::Scalar)
        ensures Self::e_smul(Self::e_add(a, b), k) == Self::e_add(Self::e_smul(a, k), Self::e_smul(b, k));
    proof fn ax_smul_mul(a: Self::Element, j: <Self::Field as Field>::Scalar, k: <Self::Field as Field>::Scalar)
        ensures Self::e_smul(Self::e_smul(a, j), k) == Self::e_smul(a, <Self::Field as Field>::s_mul(j, k));
    proof fn ax_smul_one(a: Self::Element) ensures Self::e_smul(a, <Self::Field as Field>::s_one()) == a;
    // prime order: no torsion for non-zero scalars; the generator is not the identity
    proof fn ax_smul_cancel(a: Self::Element, k: <Self::Field as Field>::Scalar)
        ensures Self::e_smul(a, k) == Self::e_id() ==> (k == <Self::Field as Field>::s_zero() || a == Self::e_id());
    proof fn ax_gen_ne_id() ensures Self::e_gen() != Self::e_id();
    proof fn ax_cofactor_nonzero() ensures Self::s_cofactor() != <Self::Field as Field>::s_zero();
    // codec axioms (T4)
    proof fn ax_eser_len(a: Self::Element) ensures a != Self::e_id() ==> Self::spec_eser(a).len() == Self::spec_ne();
    proof fn ax_eser_deser(a: Self::Element) ensures a != Self::e_id() ==> Self::spec_edeser(Self::spec_eser(a)) == Some(a);
    proof fn ax_edeser_canonical(b: Seq<u8>) ensures Self::spec_edeser(b) is Some ==> Self::spec_edeser(b)->Some_0 != Self::e_id() && Self::spec_eser(Self::spec_edeser(b)->Some_0) == b;
    proof fn ax_eserialization_len(x: Self::Serialization) ensures x.bytes_view().len() == Self::spec_ne();
    // element encodings are not empty (all suites: NE >= 32); `deserialize_whole` cuts its input into NE-byte chunks (chunks_exact panics on 0)
    proof fn ax_ne_positive() ensures Self::spec_ne() > 0;
}

pub type Element<C> = <<C as Ciphersuite>::Group as Group>::Element;

// ---------------------------------------------------------------------------------------------------
pub trait Ciphersuite: Copy + PartialEq + Debug + 'static + Send + Sync {
    type Group: Group;
    type HashOutput: Bytes;
    type SignatureSerialization: Clone + Bytes + Debug;

    // T5: hashes are deterministic functions of their input bytes (uninterpreted)
    spec fn spec_H1(m: Seq<u8>) -> <<Self::Group as Group>::Field as Field>::Scalar;
    spec fn spec_H2(m: Seq<u8>) -> <<Self::Group as Group>::Field as Field>::Scalar;
    spec fn spec_H3(m: Seq<u8>) -> <<Self::Group as Group>::Field as Field>::Scalar;
    spec fn spec_H4(m: Seq<u8>) -> Seq<u8>;
    spec fn spec_H5(m: Seq<u8>) -> Seq<u8>;
    spec fn spec_HDKG(m: Seq<u8>) -> Option<<<Self::Group as Group>::Field as Field>::Scalar>;
    spec fn spec_HID(m: Seq<u8>) -> Option<<<Self::Group as Group>::Field as Field>::Scalar>;

    fn H1(m: &[u8]) -> (r: <<Self::Group as Group>::Field as Field>::Scalar)
        ensures r == Self::spec_H1(m@);
    fn H2(m: &[u8]) -> (r: <<Self::Group as Group>::Field as Field>::Scalar)
        ensures r == Self::spec_H2(m@);
    fn H3(m: &[u8]) -> (r: <<Self::Group as Group>::Field as Field>::Scalar)
        ensures r == Self::spec_H3(m@);
    fn H4(m: &[u8]) -> (r: Self::HashOutput)
        ensures r.bytes_view() == Self::spec_H4(m@);
    fn H5(m: &[u8]) -> (r: Self::HashOutput)
        ensures r.bytes_view() == Self::spec_H5(m@);
    fn HDKG(m: &[u8]) -> (r: Option<<<Self::Group as Group>::Field as Field>::Scalar>)
        ensures r == Self::spec_HDKG(m@);
    fn HID(m: &[u8]) -> (r: Option<<<Self::Group as Group>::Field as Field>::Scalar>)
        ensures r == Self::spec_HID(m@);

    // ---- optional protocol hooks: contracts of the default behaviour ("default world", DESIGN 2.2) ----
    //@HOOKS
}

} // verus!
}
