// prelude/vstdx.rs -- assumed specifications of std items that vstd (0.2026.09.13) does not specify.
// Every item here is a statement about the Rust standard library (trusted base T6 in DESIGN.md).
pub mod vstdx {
#[allow(unused_imports)] use vstd::prelude::*;
#[allow(unused_imports)] use std::borrow::{Cow, ToOwned};
#[allow(unused_imports)] use core::ops::Deref;
#[allow(unused_imports)] use std::collections::{BTreeMap, BTreeSet};
verus! {

// ---- Cow: `Deref` has no specification in vstd -------------------------------------------------
pub uninterp spec fn cow_ref<'a, 'b, B: ?Sized + ToOwned>(c: &'b Cow<'a, B>) -> &'b B;

pub assume_specification<'a, 'b, B: ?Sized + ToOwned>[ <Cow<'a, B> as Deref>::deref ](c: &'b Cow<'a, B>) -> (r: &'b B)
    ensures r == cow_ref(c);

pub broadcast axiom fn ax_cow_borrowed<'a, B: ?Sized + ToOwned>(x: &'a B)
    ensures #[trigger] cow_ref(&Cow::<'a, B>::Borrowed(x)) == x;

pub broadcast axiom fn ax_cow_owned<'a, B: Clone>(y: B)
    ensures #[trigger] *cow_ref(&Cow::<'a, B>::Owned(y)) == y;

pub broadcast group group_cow { ax_cow_borrowed, ax_cow_owned }

} // verus!
}
