// prelude/vstdx.rs -- assumed specifications of std items that vstd (0.2026.09.13) does not specify.
// Every item here is a statement about the Rust standard library (trusted base T6 in DESIGN.md).
pub mod vstdx {
#[allow(unused_imports)] use vstd::prelude::*;
#[allow(unused_imports)] use std::borrow::{Cow, ToOwned};
#[allow(unused_imports)] use core::ops::Deref;
#[allow(unused_imports)] use std::collections::{BTreeMap, BTreeSet};
#[allow(unused_imports)] use vstd::std_specs::iter::IteratorSpec;
#[allow(unused_imports)] use vstd::std_specs::cmp::*;
#[allow(unused_imports)] use vstd::std_specs::btree::*;
verus! {

// ---- Cow: `Deref` has no specification in vstd -------------------------------------------------
pub uninterp spec fn cow_ref<'a, 'b, B: ?Sized + ToOwned>(c: &'b Cow<'a, B>) -> &'b B;

pub assume_specification<'a, 'b, B: ?Sized + ToOwned>[ <Cow<'a, B> as Deref>::deref ](c: &'b Cow<'a, B>) -> (r: &'b B)
    ensures r == cow_ref(c);

pub broadcast axiom fn ax_cow_borrowed<'a, B: ?Sized + ToOwned>(x: &'a B)
    ensures #[trigger] cow_ref(&Cow::<'a, B>::Borrowed(x)) == x;

pub broadcast axiom fn ax_cow_owned<'a, B: Clone>(y: B)
    ensures #[trigger] *cow_ref(&Cow::<'a, B>::Owned(y)) == y;

pub broadcast group group_cow { ax_cow_borrowed, ax_cow_owned }


// ---- the reflexive conversion `impl<T> From<T> for T { fn from(t: T) -> T { t } }` (core::convert) --------------------------
// vstd specifies `Into::into` through `FromSpec` but leaves `FromSpec<T> for T` uninterpreted, so `x.into()` at `T -> T` (the only
// way frost-core's `batch::Verifier::queue<I: Into<Item<C>>>` is instantiated) would be unspecified for callers.  Call it explicitly
// (`proof { ax_from_reflexive::<T>(x); }`): the nullary `obeys_from_spec()` fact does not fire through `broadcast use`.
pub broadcast axiom fn ax_from_reflexive<T>(t: T)
    ensures <T as vstd::std_specs::convert::FromSpec<T>>::obeys_from_spec(), #[trigger] <T as vstd::std_specs::convert::FromSpec<T>>::from_spec(t) == t;


// ---- iterator adaptors (rule E7, structural form) ----------------------------------------------
// The call `RECV.map(CLOSURE).collect()` is re-associated to `map_collect_vec(RECV, CLOSURE)`; the body below is
// the original method chain, the `ensures` is the documented behaviour of Iterator::map + FromIterator for Vec.
// (vstd specifies map/collect, but its broadcast lemma does not fire when the item type is an associated-type
// projection such as `Scalar<C>` -- measured.)  The closure itself stays in the verified caller.
#[verifier::external_body]
pub fn map_collect_vec<I: Iterator, B, F: FnMut(I::Item) -> B>(it: I, f: F) -> (r: Vec<B>)
    requires
        it.obeys_prophetic_iter_laws(),
        forall|k: int| 0 <= k < it.remaining().len() ==> call_requires(f, (#[trigger] it.remaining()[k],)),
    ensures
        r@.len() == it.remaining().len(),
        forall|k: int| 0 <= k < it.remaining().len() ==> call_ensures(f, (it.remaining()[k],), #[trigger] r@[k]),
{ it.map(f).collect() }


// `RECV.map(CLOSURE).min()`: `vals` are the values the closure actually returned, in order
#[verifier::external_body]
pub fn map_min<I: Iterator, F: FnMut(I::Item) -> u16>(it: I, f: F) -> (r: Option<u16>)
    requires
        it.obeys_prophetic_iter_laws(),
        forall|k: int| 0 <= k < it.remaining().len() ==> call_requires(f, (#[trigger] it.remaining()[k],)),
    ensures
        exists|vals: Seq<u16>| #![auto] vals.len() == it.remaining().len()
            && (forall|k: int| 0 <= k < vals.len() ==> call_ensures(f, (it.remaining()[k],), #[trigger] vals[k]))
            && (vals.len() == 0 ==> r is None)
            && (vals.len() > 0 ==> r is Some && vals.contains(r->Some_0) && forall|k: int| 0 <= k < vals.len() ==> r->Some_0 <= #[trigger] vals[k]),
{ it.map(f).min() }

// `RECV.map(CLOSURE).cloned().collect()` into a BTreeSet (closure returns a reference)
#[verifier::external_body]
pub fn map_cloned_collect_set<'a, I: Iterator, T: 'a + Clone + Ord, F: FnMut(I::Item) -> &'a T>(it: I, f: F) -> (r: BTreeSet<T>)
    requires
        it.obeys_prophetic_iter_laws(),
        forall|k: int| 0 <= k < it.remaining().len() ==> call_requires(f, (#[trigger] it.remaining()[k],)),
    ensures
        exists|vals: Seq<T>| #![auto] vals.len() == it.remaining().len()
            && (forall|k: int| 0 <= k < vals.len() ==> call_ensures(f, (it.remaining()[k],), &#[trigger] vals[k]))
            && r@ == vals.to_set(),
{ it.map(f).cloned().collect() }


// `RECV.any(CLOSURE)`: `vals` are the values the closure actually returned for the items it was called on (a prefix,
// because `any` short-circuits); the result is true iff one of them is true
#[verifier::external_body]
pub fn iter_any<I: Iterator, F: FnMut(I::Item) -> bool>(it: I, f: F) -> (r: bool)
    requires
        it.obeys_prophetic_iter_laws(),
        forall|k: int| 0 <= k < it.remaining().len() ==> call_requires(f, (#[trigger] it.remaining()[k],)),
    ensures
        exists|vals: Seq<bool>| #![auto] vals.len() <= it.remaining().len()
            && (forall|k: int| 0 <= k < vals.len() ==> call_ensures(f, (it.remaining()[k],), #[trigger] vals[k]))
            && (r ==> vals.len() > 0 && vals.last() && forall|k: int| 0 <= k < vals.len() - 1 ==> !#[trigger] vals[k])
            && (!r ==> vals.len() == it.remaining().len() && forall|k: int| 0 <= k < vals.len() ==> !#[trigger] vals[k]),
{ let mut it = it; it.any(f) }

// `RECV.all(CLOSURE)`
#[verifier::external_body]
pub fn iter_all<I: Iterator, F: FnMut(I::Item) -> bool>(it: I, f: F) -> (r: bool)
    requires
        it.obeys_prophetic_iter_laws(),
        forall|k: int| 0 <= k < it.remaining().len() ==> call_requires(f, (#[trigger] it.remaining()[k],)),
    ensures
        exists|vals: Seq<bool>| #![auto] vals.len() <= it.remaining().len()
            && (forall|k: int| 0 <= k < vals.len() ==> call_ensures(f, (it.remaining()[k],), #[trigger] vals[k]))
            && (!r ==> vals.len() > 0 && !vals.last() && forall|k: int| 0 <= k < vals.len() - 1 ==> #[trigger] vals[k])
            && (r ==> vals.len() == it.remaining().len() && forall|k: int| 0 <= k < vals.len() ==> #[trigger] vals[k]),
{ let mut it = it; it.all(f) }

// `RECV.map(CLOSURE).collect()` into a BTreeMap: later pairs with an equal key win (FromIterator for BTreeMap)
#[verifier::external_body]
pub fn map_collect_btreemap<I: Iterator, K: Ord, V, F: FnMut(I::Item) -> (K, V)>(it: I, f: F) -> (r: BTreeMap<K, V>)
    requires
        it.obeys_prophetic_iter_laws(),
        forall|k: int| 0 <= k < it.remaining().len() ==> call_requires(f, (#[trigger] it.remaining()[k],)),
    ensures
        exists|vals: Seq<(K, V)>| #![auto] vals.len() == it.remaining().len()
            && (forall|k: int| 0 <= k < vals.len() ==> call_ensures(f, (it.remaining()[k],), #[trigger] vals[k]))
            && (forall|key: K| #[trigger] r@.contains_key(key) <==> exists|k: int| 0 <= k < vals.len() && (#[trigger] vals[k]).0 == key)
            && (forall|k: int| 0 <= k < vals.len() && (forall|j: int| k < j < vals.len() ==> vals[j].0 != vals[k].0) ==> r@[#[trigger] vals[k].0] == vals[k].1),
{ it.map(f).collect() }

// `RECV.map(CLOSURE).collect::<Result<Vec<_>, E>>()` (`impl FromIterator<Result<A, E>> for Result<V, E>`, std docs: "Takes each
// element in the Iterator: if it is an Err, no further elements are taken, and the Err is returned.  Should no Err occur, a
// container with the values of each Result is returned.").  `vals` are the values the closure actually returned, in order.
#[verifier::external_body]
pub fn map_collect_result_vec<I: Iterator, B, E, F: FnMut(I::Item) -> Result<B, E>>(it: I, f: F) -> (r: Result<Vec<B>, E>)
    requires
        it.obeys_prophetic_iter_laws(),
        forall|k: int| 0 <= k < it.remaining().len() ==> call_requires(f, (#[trigger] it.remaining()[k],)),
    ensures
        exists|vals: Seq<Result<B, E>>| #![auto] vals.len() <= it.remaining().len()
            && (forall|k: int| 0 <= k < vals.len() ==> call_ensures(f, (it.remaining()[k],), #[trigger] vals[k]))
            && (r is Ok ==> vals.len() == it.remaining().len() && (r->Ok_0)@.len() == vals.len()
                    && forall|k: int| 0 <= k < vals.len() ==> #[trigger] vals[k] == Ok::<B, E>((r->Ok_0)@[k]))
            && (r is Err ==> vals.len() > 0 && vals.last() == Err::<B, E>(r->Err_0) && forall|k: int| 0 <= k < vals.len() - 1 ==> #[trigger] vals[k] is Ok),
{ it.map(f).collect() }

// ---- std items without a vstd specification ------------------------------------------------------
pub assume_specification<T: PartialEq>[ <[T]>::contains ](s: &[T], x: &T) -> (r: bool)
    ensures <T as PartialEqSpec>::obeys_eq_spec() ==> r == (exists|i: int| 0 <= i < s@.len() && PartialEqSpec::eq_spec(&#[trigger] s@[i], x));

pub assume_specification<T: Clone>[ <[T]>::to_vec ](s: &[T]) -> (r: Vec<T>)
    ensures r@.len() == s@.len(), forall|i: int| 0 <= i < s@.len() ==> cloned::<T>(#[trigger] s@[i], r@[i]);

pub assume_specification<T, A: core::alloc::Allocator>[ <Vec<T, A> as AsRef<[T]>>::as_ref ](v: &Vec<T, A>) -> (r: &[T])
    ensures r@ == v@;

pub assume_specification<'a, T: Copy>[ Option::<&'a T>::copied ](o: Option<&'a T>) -> (r: Option<T>)
    ensures r == (match o { Some(x) => Some(*x), None => None::<T> });

// BTreeSet::last = the greatest element
pub assume_specification<T: Ord, A: core::alloc::Allocator + Clone>[ BTreeSet::<T, A>::last ](s: &BTreeSet<T, A>) -> (r: Option<&T>)
    ensures key_obeys_cmp_spec::<T>() ==> (s@.len() == 0 ==> r is None)
        && (s@.len() > 0 ==> r is Some && s@.contains(*r->Some_0)
            && forall|x: T| #[trigger] s@.contains(x) ==> x == *r->Some_0 || OrdSpec::cmp_spec(&x, r->Some_0) is Less);

// ---- C12 (contracts/codec.vc): byte-slice helpers ------------------------------------------------------
// <[T]>::to_vec: "Copies self into a new Vec" (std docs)

// <[T]>::chunks_exact / ChunksExact::remainder (std docs): "Returns an iterator over chunk_size elements of the slice at a
// time ... If chunk_size does not divide the length of the slice, then the last up to chunk_size-1 elements will be omitted
// and can be retrieved from the remainder function of the iterator.  Panics if chunk_size is zero."
// The iterator is modelled by the slice it was made from and its chunk size; `spec_chunks` is the list of chunks it yields.
#[verifier::external_type_specification]
#[verifier::external_body]
#[verifier::reject_recursive_types(T)]
pub struct ExChunksExact<'a, T: 'a>(core::slice::ChunksExact<'a, T>);

pub uninterp spec fn chunks_src<'a, T>(c: &core::slice::ChunksExact<'a, T>) -> Seq<T>;
pub uninterp spec fn chunks_size<'a, T>(c: &core::slice::ChunksExact<'a, T>) -> nat;

pub open spec fn spec_chunks<T>(s: Seq<T>, n: nat) -> Seq<Seq<T>>
{ if n == 0 { Seq::empty() } else { Seq::new(s.len() / n, |k: int| s.subrange(k * (n as int), k * (n as int) + (n as int))) } }

pub open spec fn spec_chunks_remainder<T>(s: Seq<T>, n: nat) -> Seq<T>
{ if n == 0 { Seq::empty() } else { s.subrange(((s.len() / n) * n) as int, s.len() as int) } }

pub assume_specification<'a, T>[ <[T]>::chunks_exact ](s: &'a [T], chunk_size: usize) -> (r: core::slice::ChunksExact<'a, T>)
    requires chunk_size != 0,
    ensures chunks_src(&r) == s@, chunks_size(&r) == chunk_size as nat;

pub assume_specification<'a, T>[ core::slice::ChunksExact::<'a, T>::remainder ](c: &core::slice::ChunksExact<'a, T>) -> (r: &'a [T])
    ensures r@ == spec_chunks_remainder(chunks_src(c), chunks_size(c));

// The `?` operator on `Result<_, E>` inside a function returning `Result<_, F>`: "Err(e) => return Err(From::from(e))" (Rust
// reference, the question mark operator).  vstd models the conversion by the uninterpreted relation `spec_from` and only says what
// it is for F == E; this axiom adds the general case: the converted error is what vstd's own specification of `From::from` gives
// (`obeys_from_spec() ==> r == from_spec(e)`).  Use with `broadcast use crate::vstdx::ax_question_mark_from;` at function entry.
pub broadcast axiom fn ax_question_mark_from<S: From<T>, T>(e: T, r: S)
    ensures #[trigger] vstd::std_specs::control_flow::spec_from::<S, T>(e, r) && <S as vstd::std_specs::convert::FromSpec<T>>::obeys_from_spec()
        ==> r == <S as vstd::std_specs::convert::FromSpec<T>>::from_spec(e);

// The byte strings a generic `I: IntoIterator<Item = V>, V: AsRef<[u8]>` yields (`it.into_iter()`, each item through `as_ref()`).
// Uninterpreted: it only gives the *assumed* contract of `VerifiableSecretSharingCommitment::deserialize<I, V>` (generic code that is
// outside Verus's reach, contracts/codec.vc) something to speak about.  For the one instance verified code creates, a fresh
// `ChunksExact<u8>` (Verus has no specification of its `next`, so verified code can never advance one), the items are the chunks.
pub uninterp spec fn spec_byte_items<I>(it: I) -> Seq<Seq<u8>>;
pub axiom fn ax_chunks_exact_items<'a>(c: core::slice::ChunksExact<'a, u8>)
    ensures spec_byte_items(c) == spec_chunks(chunks_src(&c), chunks_size(&c));

// [V]::concat for V = Vec<T> ("Flattens a slice of T into a single value"): the concatenation of the items in order
pub open spec fn spec_concat<T>(v: Seq<Vec<T>>) -> Seq<T> { v.map_values(|x: Vec<T>| x@).flatten() }

} // verus!
}
