// prelude/k256_model.rs -- stand-in for the external crates the Taproot suite is written against (k256, sha2, subtle).
//
// Verus runs on ONE file without dependencies, so the real crates cannot be linked and `external_type_specification` has nothing to
// attach to.  The types below are OPAQUE (`external_body` structs: Verus knows nothing about their representation) and carry exactly
// the methods frost-secp256k1-tr/src/lib.rs calls from the functions that are VERIFIED in the unit; every method is `external_body`
// with an `ensures` over uninterpreted spec functions.  Each `ensures` / `axiom fn` in this file is an ASSUMPTION about k256 / sha2 /
// subtle (listed one by one in the C18 report, K1..K12); the field/group LAWS are not here but in the `impl Field` / `impl Group`
// blocks of the suite (trusted item T3, contracts_tr/tr_model.vc).  Executable bodies are never run (`unimplemented!()`).
pub mod k256_model {
#[allow(unused_imports)] use vstd::prelude::*;
#[allow(unused_imports)] use vstd::std_specs::ops::*;
#[allow(unused_imports)] use vstd::std_specs::cmp::*;
#[allow(unused_imports)] use vstd::std_specs::convert::*;
#[allow(unused_imports)] use core::ops::{Add, Mul, Neg, Not, Sub};
verus! {

// =====================================================================================================
// k256::Scalar -- an element of Z/nZ, n the (prime) order of secp256k1.  Spec operations are uninterpreted; that they form a field is T3.
#[verifier::external_body]
pub struct Scalar { limbs: [u64; 4] }
impl Clone for Scalar { #[verifier::external_body] fn clone(&self) -> (r: Self) ensures r == *self { unimplemented!() } }
impl Copy for Scalar {}

pub uninterp spec fn sc_zero() -> Scalar;
pub uninterp spec fn sc_one() -> Scalar;
pub uninterp spec fn sc_add(a: Scalar, b: Scalar) -> Scalar;
pub uninterp spec fn sc_neg(a: Scalar) -> Scalar;
pub uninterp spec fn sc_mul(a: Scalar, b: Scalar) -> Scalar;
pub uninterp spec fn sc_inv(a: Scalar) -> Scalar;
// `Scalar::reduce(&U256::from_be_slice(b))`: the big-endian integer b reduced modulo n (uninterpreted function of the 32 bytes)
pub uninterp spec fn sc_reduce_be(b: Seq<u8>) -> Scalar;

// K1: the operators on Scalar are the field operations (`-a` is the additive inverse, `a - b = a + (-b)`), `==` is equality of residues
impl AddSpecImpl<Scalar> for Scalar {
    open spec fn obeys_add_spec() -> bool { true }
    open spec fn add_req(self, rhs: Scalar) -> bool { true }
    open spec fn add_spec(self, rhs: Scalar) -> Scalar { sc_add(self, rhs) }
}
impl Add<Scalar> for Scalar { type Output = Scalar; #[verifier::external_body] fn add(self, rhs: Scalar) -> (r: Scalar) { unimplemented!() } }
impl SubSpecImpl<Scalar> for Scalar {
    open spec fn obeys_sub_spec() -> bool { true }
    open spec fn sub_req(self, rhs: Scalar) -> bool { true }
    open spec fn sub_spec(self, rhs: Scalar) -> Scalar { sc_add(self, sc_neg(rhs)) }
}
impl Sub<Scalar> for Scalar { type Output = Scalar; #[verifier::external_body] fn sub(self, rhs: Scalar) -> (r: Scalar) { unimplemented!() } }
impl MulSpecImpl<Scalar> for Scalar {
    open spec fn obeys_mul_spec() -> bool { true }
    open spec fn mul_req(self, rhs: Scalar) -> bool { true }
    open spec fn mul_spec(self, rhs: Scalar) -> Scalar { sc_mul(self, rhs) }
}
impl Mul<Scalar> for Scalar { type Output = Scalar; #[verifier::external_body] fn mul(self, rhs: Scalar) -> (r: Scalar) { unimplemented!() } }
impl NegSpecImpl for Scalar {
    open spec fn obeys_neg_spec() -> bool { true }
    open spec fn neg_req(self) -> bool { true }
    open spec fn neg_spec(self) -> Scalar { sc_neg(self) }
}
impl Neg for Scalar { type Output = Scalar; #[verifier::external_body] fn neg(self) -> (r: Scalar) { unimplemented!() } }
impl PartialEqSpecImpl for Scalar {
    open spec fn obeys_eq_spec() -> bool { true }
    open spec fn eq_spec(&self, other: &Scalar) -> bool { *self == *other }
}
impl PartialEq for Scalar { #[verifier::external_body] fn eq(&self, other: &Scalar) -> (r: bool) { unimplemented!() } }
impl Eq for Scalar {}

// =====================================================================================================
// subtle::Choice (result of the constant-time predicates)
#[verifier::external_body]
pub struct Choice { b: u8 }
pub uninterp spec fn choice_val(c: Choice) -> bool;
pub uninterp spec fn choice_not(c: Choice) -> Choice;
// K2: `!c` negates the truth value, `c.into()` (From<Choice> for bool) returns it
pub broadcast axiom fn ax_choice_not(c: Choice)
    ensures #[trigger] choice_val(choice_not(c)) == !choice_val(c);
impl NotSpecImpl for Choice {
    open spec fn obeys_not_spec() -> bool { true }
    open spec fn not_req(self) -> bool { true }
    open spec fn not_spec(self) -> Choice { choice_not(self) }
}
impl Not for Choice { type Output = Choice; #[verifier::external_body] fn not(self) -> (r: Choice) { unimplemented!() } }
impl FromSpecImpl<Choice> for bool {
    open spec fn obeys_from_spec() -> bool { true }
    open spec fn from_spec(c: Choice) -> bool { choice_val(c) }
}
impl From<Choice> for bool { #[verifier::external_body] fn from(c: Choice) -> (r: bool) { unimplemented!() } }

// =====================================================================================================
// k256::ProjectivePoint / AffinePoint -- a point of the curve group (identity included).  Equality of the opaque value is equality
// of group elements (k256's `==` on ProjectivePoint compares the points, not the representatives).  Group laws: T3.
#[verifier::external_body]
pub struct ProjectivePoint { c: [u64; 15] }
impl Clone for ProjectivePoint { #[verifier::external_body] fn clone(&self) -> (r: Self) ensures r == *self { unimplemented!() } }
impl Copy for ProjectivePoint {}
#[verifier::external_body]
pub struct AffinePoint { c: [u64; 11] }
impl Clone for AffinePoint { #[verifier::external_body] fn clone(&self) -> (r: Self) ensures r == *self { unimplemented!() } }
impl Copy for AffinePoint {}
pub type FieldBytes = [u8; 32];

pub uninterp spec fn pt_id() -> ProjectivePoint;
pub uninterp spec fn pt_gen() -> ProjectivePoint;
pub uninterp spec fn pt_add(a: ProjectivePoint, b: ProjectivePoint) -> ProjectivePoint;
pub uninterp spec fn pt_neg(a: ProjectivePoint) -> ProjectivePoint;
pub uninterp spec fn pt_smul(a: ProjectivePoint, k: Scalar) -> ProjectivePoint;
// the affine point a group element normalises to, its big-endian x coordinate (32 bytes) and the parity of its y coordinate
pub uninterp spec fn pt_affine(a: ProjectivePoint) -> AffinePoint;
pub uninterp spec fn aff_x(a: AffinePoint) -> Seq<u8>;
pub uninterp spec fn aff_y_odd(a: AffinePoint) -> bool;
pub open spec fn pt_x(a: ProjectivePoint) -> Seq<u8> { aff_x(pt_affine(a)) }
pub open spec fn pt_y_odd(a: ProjectivePoint) -> bool { aff_y_odd(pt_affine(a)) }

// K3: the operators on ProjectivePoint are the group operations
impl AddSpecImpl<ProjectivePoint> for ProjectivePoint {
    open spec fn obeys_add_spec() -> bool { true }
    open spec fn add_req(self, rhs: ProjectivePoint) -> bool { true }
    open spec fn add_spec(self, rhs: ProjectivePoint) -> ProjectivePoint { pt_add(self, rhs) }
}
impl Add<ProjectivePoint> for ProjectivePoint { type Output = ProjectivePoint; #[verifier::external_body] fn add(self, rhs: ProjectivePoint) -> (r: ProjectivePoint) { unimplemented!() } }
impl SubSpecImpl<ProjectivePoint> for ProjectivePoint {
    open spec fn obeys_sub_spec() -> bool { true }
    open spec fn sub_req(self, rhs: ProjectivePoint) -> bool { true }
    open spec fn sub_spec(self, rhs: ProjectivePoint) -> ProjectivePoint { pt_add(self, pt_neg(rhs)) }
}
impl Sub<ProjectivePoint> for ProjectivePoint { type Output = ProjectivePoint; #[verifier::external_body] fn sub(self, rhs: ProjectivePoint) -> (r: ProjectivePoint) { unimplemented!() } }
impl MulSpecImpl<Scalar> for ProjectivePoint {
    open spec fn obeys_mul_spec() -> bool { true }
    open spec fn mul_req(self, rhs: Scalar) -> bool { true }
    open spec fn mul_spec(self, rhs: Scalar) -> ProjectivePoint { pt_smul(self, rhs) }
}
impl Mul<Scalar> for ProjectivePoint { type Output = ProjectivePoint; #[verifier::external_body] fn mul(self, rhs: Scalar) -> (r: ProjectivePoint) { unimplemented!() } }
impl NegSpecImpl for ProjectivePoint {
    open spec fn obeys_neg_spec() -> bool { true }
    open spec fn neg_req(self) -> bool { true }
    open spec fn neg_spec(self) -> ProjectivePoint { pt_neg(self) }
}
impl Neg for ProjectivePoint { type Output = ProjectivePoint; #[verifier::external_body] fn neg(self) -> (r: ProjectivePoint) { unimplemented!() } }
impl PartialEqSpecImpl for ProjectivePoint {
    open spec fn obeys_eq_spec() -> bool { true }
    open spec fn eq_spec(&self, other: &ProjectivePoint) -> bool { *self == *other }
}
impl PartialEq for ProjectivePoint { #[verifier::external_body] fn eq(&self, other: &ProjectivePoint) -> (r: bool) { unimplemented!() } }
impl Eq for ProjectivePoint {}

impl ProjectivePoint {
    // K4: the constant GENERATOR is the base point the `Group` impl returns from `generator()`
    #[verifier::external_body]
    pub exec const GENERATOR: ProjectivePoint ensures Self::GENERATOR == pt_gen() { ProjectivePoint { c: [0u64; 15] } }
    // K5: `to_affine` is a function of the group element
    #[verifier::external_body]
    pub fn to_affine(&self) -> (r: AffinePoint) ensures r == pt_affine(*self) { unimplemented!() }
}
impl AffinePoint {
    // K6: `x()` returns the 32 bytes of the x coordinate, `y_is_odd()` the parity of y -- functions of the affine point
    #[verifier::external_body]
    pub fn x(&self) -> (r: FieldBytes) ensures r@ == aff_x(*self) { unimplemented!() }
    #[verifier::external_body]
    pub fn y_is_odd(&self) -> (r: Choice) ensures choice_val(r) == aff_y_odd(*self) { unimplemented!() }
}

// K7: negation keeps x.  (-P = (x, p - y); the identity, whose affine form k256 represents by (0, 0), is its own negative.)
pub axiom fn ax_neg_x(a: ProjectivePoint)
    ensures pt_x(pt_neg(a)) == pt_x(a);
// K8: negation flips the parity of y, except for the identity.  (p is odd and y != 0: the group has odd prime order, no 2-torsion.)
pub axiom fn ax_neg_parity(a: ProjectivePoint)
    requires a != pt_id()
    ensures pt_y_odd(pt_neg(a)) == !pt_y_odd(a);
// K9: a point other than the identity is determined by its x coordinate and the parity of y (y^2 = x^3 + 7 has at most the two roots +-y).
pub axiom fn ax_x_parity_determine(a: ProjectivePoint, b: ProjectivePoint)
    requires a != pt_id(), b != pt_id(), pt_x(a) == pt_x(b), pt_y_odd(a) == pt_y_odd(b)
    ensures a == b;
// K10: the x coordinate is 32 bytes long
pub axiom fn ax_x_len(a: ProjectivePoint)
    ensures pt_x(a).len() == 32;

// =====================================================================================================
// sha2::Sha256 (streaming interface of the `Digest` trait) and U256
#[verifier::external_body]
pub struct Sha256 { st: [u32; 8] }
pub uninterp spec fn sha256(m: Seq<u8>) -> Seq<u8>;
// what `update(data)` absorbs: the bytes `data.as_ref()`
pub trait HashData { spec fn hash_bytes(&self) -> Seq<u8>; }
impl<'a> HashData for &'a [u8] { open spec fn hash_bytes(&self) -> Seq<u8> { (*self)@ } }
impl HashData for [u8; 32] { open spec fn hash_bytes(&self) -> Seq<u8> { self@ } }
impl Sha256 {
    // the bytes absorbed so far, in order
    pub uninterp spec fn absorbed(&self) -> Seq<u8>;
    // K11: Sha256 is a deterministic streaming hash: new() has absorbed nothing, update appends, finalize is a function (32 bytes) of
    // everything absorbed
    #[verifier::external_body]
    pub fn new() -> (r: Sha256) ensures r.absorbed() == Seq::<u8>::empty() { unimplemented!() }
    #[verifier::external_body]
    pub fn update<D: HashData>(&mut self, data: D) ensures final(self).absorbed() == old(self).absorbed() + data.hash_bytes() { unimplemented!() }
    #[verifier::external_body]
    pub fn finalize(self) -> (r: [u8; 32]) ensures r@ == sha256(self.absorbed()) { unimplemented!() }
}
#[verifier::external_body]
pub struct U256 { w: [u64; 4] }
impl U256 {
    pub uninterp spec fn be_bytes(&self) -> Seq<u8>;
    // K12: `Scalar::reduce(&U256::from_be_slice(b))` is a function of the 32 bytes b (the integer they encode big-endian, modulo n)
    #[verifier::external_body]
    pub fn from_be_slice(b: &[u8]) -> (r: U256) requires b@.len() == 32 ensures r.be_bytes() == b@ { unimplemented!() }
}
impl Scalar {
    #[verifier::external_body]
    pub fn reduce(u: &U256) -> (r: Scalar) ensures r == sc_reduce_be(u.be_bytes()) { unimplemented!() }
}

// =====================================================================================================
// E11: the byte-array types of the suite (`[u8; 32]`, `[u8; 33]`, `[u8; 64]`) as `Bytes`
impl<const N: usize> crate::traits::Bytes for [u8; N] {
    open spec fn bytes_view(&self) -> Seq<u8> { self@ }
    #[verifier::external_body]
    fn as_ref(&self) -> (r: &[u8]) { &self[..] }
    #[verifier::external_body]
    fn as_mut(&mut self) -> (r: &mut [u8]) { &mut self[..] }
}

} // verus!
}
