#![allow(unused_imports)]
// Design-phase probe P24: C06 mini-slice.  Real text of evaluate_polynomial (keys.rs:587-603, E5 applied),
// evaluate_vss (keys.rs:610-623, E5b fold desugaring + E6) and SecretShare::verify's comparison, generic over
// an abstract ciphersuite; plus the VSS completeness lemma connecting them.
use vstd::prelude::*;
use vstd::std_specs::ops::*;
use vstd::std_specs::cmp::*;
use vstd::std_specs::iter::IteratorSpec;
use core::ops::{Add, Mul, Sub};
verus! {

pub trait Field: Copy {
    type Scalar: Add<Output = Self::Scalar> + Copy + Clone + Eq + Mul<Output = Self::Scalar> + PartialEq + Sub<Output = Self::Scalar>;
    spec fn s_zero() -> Self::Scalar;
    spec fn s_one() -> Self::Scalar;
    spec fn s_add(a: Self::Scalar, b: Self::Scalar) -> Self::Scalar;
    spec fn s_mul(a: Self::Scalar, b: Self::Scalar) -> Self::Scalar;
    fn zero() -> (r: Self::Scalar) ensures r == Self::s_zero();
    fn one() -> (r: Self::Scalar) ensures r == Self::s_one();
    proof fn ax_ops(a: Self::Scalar, b: Self::Scalar)
        ensures a.add_req(b), <Self::Scalar as AddSpec<Self::Scalar>>::obeys_add_spec(), a.add_spec(b) == Self::s_add(a, b),
                a.mul_req(b), <Self::Scalar as MulSpec<Self::Scalar>>::obeys_mul_spec(), a.mul_spec(b) == Self::s_mul(a, b);
    proof fn ax_add_comm(a: Self::Scalar, b: Self::Scalar) ensures Self::s_add(a, b) == Self::s_add(b, a);
    proof fn ax_add_zero(a: Self::Scalar) ensures Self::s_add(a, Self::s_zero()) == a;
    proof fn ax_mul_comm(a: Self::Scalar, b: Self::Scalar) ensures Self::s_mul(a, b) == Self::s_mul(b, a);
    proof fn ax_mul_assoc(a: Self::Scalar, b: Self::Scalar, c: Self::Scalar) ensures Self::s_mul(Self::s_mul(a, b), c) == Self::s_mul(a, Self::s_mul(b, c));
    proof fn ax_mul_one(a: Self::Scalar) ensures Self::s_mul(a, Self::s_one()) == a;
    proof fn ax_mul_zero(a: Self::Scalar) ensures Self::s_mul(a, Self::s_zero()) == Self::s_zero();
    proof fn ax_distrib(a: Self::Scalar, b: Self::Scalar, c: Self::Scalar) ensures Self::s_mul(a, Self::s_add(b, c)) == Self::s_add(Self::s_mul(a, b), Self::s_mul(a, c));
}
pub trait Group: Copy + PartialEq {
    type Field: Field;
    type Element: Add<Output = Self::Element> + Copy + Clone + Eq + Mul<<Self::Field as Field>::Scalar, Output = Self::Element> + PartialEq + Sub<Output = Self::Element>;
    spec fn e_id() -> Self::Element;
    spec fn e_gen() -> Self::Element;
    spec fn e_add(a: Self::Element, b: Self::Element) -> Self::Element;
    spec fn e_smul(p: Self::Element, a: <Self::Field as Field>::Scalar) -> Self::Element;
    fn identity() -> (r: Self::Element) ensures r == Self::e_id();
    fn generator() -> (r: Self::Element) ensures r == Self::e_gen();
    proof fn ax_eops(p: Self::Element, q: Self::Element, a: <Self::Field as Field>::Scalar)
        ensures p.add_req(q), <Self::Element as AddSpec<Self::Element>>::obeys_add_spec(), p.add_spec(q) == Self::e_add(p, q),
                p.mul_req(a), <Self::Element as MulSpec<<Self::Field as Field>::Scalar>>::obeys_mul_spec(), p.mul_spec(a) == Self::e_smul(p, a),
                <Self::Element as PartialEqSpec<Self::Element>>::obeys_eq_spec(), p.eq_spec(&q) == (p == q);
    proof fn ax_eadd_comm(a: Self::Element, b: Self::Element) ensures Self::e_add(a, b) == Self::e_add(b, a);
    proof fn ax_eadd_assoc(a: Self::Element, b: Self::Element, c: Self::Element) ensures Self::e_add(Self::e_add(a, b), c) == Self::e_add(a, Self::e_add(b, c));
    proof fn ax_eadd_id(a: Self::Element) ensures Self::e_add(a, Self::e_id()) == a;
    proof fn ax_smul_add(p: Self::Element, a: <Self::Field as Field>::Scalar, b: <Self::Field as Field>::Scalar) ensures Self::e_smul(p, <Self::Field as Field>::s_add(a, b)) == Self::e_add(Self::e_smul(p, a), Self::e_smul(p, b));
    proof fn ax_smul_mul(p: Self::Element, a: <Self::Field as Field>::Scalar, b: <Self::Field as Field>::Scalar) ensures Self::e_smul(Self::e_smul(p, a), b) == Self::e_smul(p, <Self::Field as Field>::s_mul(a, b));
    proof fn ax_smul_zero(p: Self::Element) ensures Self::e_smul(p, <Self::Field as Field>::s_zero()) == Self::e_id();
}
pub trait Ciphersuite: Copy + PartialEq + 'static { type Group: Group; }
pub type Scalar<C> = <<<C as Ciphersuite>::Group as Group>::Field as Field>::Scalar;
pub type Element<C> = <<C as Ciphersuite>::Group as Group>::Element;
pub type FF<C> = <<C as Ciphersuite>::Group as Group>::Field;
pub type GG<C> = <C as Ciphersuite>::Group;

#[derive(Clone, Copy)]
pub struct SerializableScalar<C: Ciphersuite>(pub Scalar<C>);
#[derive(Clone, Copy)]
pub struct SerializableElement<C: Ciphersuite>(pub Element<C>);
#[derive(Copy, Clone)]
pub struct Identifier<C: Ciphersuite>(pub SerializableScalar<C>);
impl<C> Identifier<C> where C: Ciphersuite { pub(crate) fn to_scalar(&self) -> (r: Scalar<C>) ensures r == self.0.0 { self.0.0 } }
#[derive(Clone, Copy)]
pub struct CoefficientCommitment<C: Ciphersuite>(pub SerializableElement<C>);
impl<C> CoefficientCommitment<C> where C: Ciphersuite { pub fn value(&self) -> (r: Element<C>) ensures r == self.0.0 { self.0.0 } }
pub struct VerifiableSecretSharingCommitment<C: Ciphersuite>(pub Vec<CoefficientCommitment<C>>);

// ---- specs (RFC 9591 appendix C: polynomial_evaluate, vss_verify) ----
pub open spec fn poly<C: Ciphersuite>(a: Seq<Scalar<C>>, x: Scalar<C>) -> Scalar<C> decreases a.len()
{ if a.len() == 0 { FF::<C>::s_zero() } else { FF::<C>::s_add(a[0], FF::<C>::s_mul(poly::<C>(a.drop_first(), x), x)) } }

// sum_k C_k * (x^k * pw), folded left to right as the code does
pub open spec fn vss<C: Ciphersuite>(c: Seq<Element<C>>, x: Scalar<C>, pw: Scalar<C>) -> Element<C> decreases c.len()
{ if c.len() == 0 { GG::<C>::e_id() } else { GG::<C>::e_add(GG::<C>::e_smul(c[0], pw), vss::<C>(c.drop_first(), x, FF::<C>::s_mul(x, pw))) } }

pub open spec fn comm_vals<C: Ciphersuite>(c: Seq<CoefficientCommitment<C>>) -> Seq<Element<C>> { c.map_values(|k: CoefficientCommitment<C>| k.0.0) }

// ---- extracted: keys.rs:587-603, E5 applied (for -> loop) ----
fn evaluate_polynomial<C: Ciphersuite>(
    identifier: Identifier<C>,
    coefficients: &[Scalar<C>],
) -> (value: Scalar<C>)
    requires coefficients@.len() >= 1,                              // [nonempty] checked at every call site (C14)
    ensures value == poly::<C>(coefficients@, identifier.0.0),      // [horner]
{
    let mut value = <<C::Group as Group>::Field>::zero();

    let ell = identifier;
    let mut __it = coefficients.iter().skip(1).rev();
    let ghost all = __it.remaining();
    let ghost n = coefficients@.len() as int;
    assert(all.len() == n - 1);
    assert(forall|k: int| 0 <= k < all.len() ==> *all[k] == coefficients@[n - 1 - k]);
    proof {
        assert(coefficients@.skip(n).len() == 0);
        FF::<C>::ax_mul_zero(identifier.0.0); FF::<C>::ax_mul_comm(identifier.0.0, FF::<C>::s_zero());
    }
    loop
        invariant
            __it.obeys_prophetic_iter_laws(), __it.decrease() is Some,
            __it.remaining().len() <= all.len(),
            __it.remaining() == all.skip(all.len() - __it.remaining().len()),
            ell == identifier, n == coefficients@.len(), all.len() == n - 1,
            forall|k: int| 0 <= k < all.len() ==> *all[k] == coefficients@[n - 1 - k],
            // value == x * poly(coefficients[n-j ..], x) where j = number of items consumed
            value == FF::<C>::s_mul(poly::<C>(coefficients@.skip(n - (all.len() - __it.remaining().len())), identifier.0.0), identifier.0.0),
        ensures __it.remaining().len() == 0,
        decreases __it.decrease()->0,
    {
        let ghost j = all.len() - __it.remaining().len();
        let coeff = match __it.next() { None => break, Some(v) => v };
        proof {
            assert(all.skip(j)[0] == all[j]);
            assert(all.skip(j).drop_first() =~= all.skip(j + 1));
            let tail = coefficients@.skip(n - j); let tail1 = coefficients@.skip(n - (j + 1));
            assert(tail1[0] == *coeff);
            assert(tail1.drop_first() =~= tail);
            FF::<C>::ax_ops(value, *coeff);
            FF::<C>::ax_ops(FF::<C>::s_add(value, *coeff), ell.0.0);
            FF::<C>::ax_add_comm(value, *coeff);
        }
        value = value + *coeff;
        value = value * ell.to_scalar();
    }
    proof {
        assert(coefficients@.skip(n - (n - 1)).drop_first() =~= coefficients@.skip(1).drop_first());
        assert(coefficients@.drop_first() =~= coefficients@.skip(1));
        FF::<C>::ax_ops(value, coefficients@[0]);
        FF::<C>::ax_add_comm(value, coefficients@[0]);
    }
    value = value
        + *coefficients
            .first()
            .expect("coefficients must have at least one element");
    value
}

// ---- extracted: keys.rs:610-623, E5b (fold -> loop) and E6 (tuple closure parameter) applied ----
fn evaluate_vss<C: Ciphersuite>(
    identifier: Identifier<C>,
    commitment: &VerifiableSecretSharingCommitment<C>,
) -> (result: Element<C>)
    ensures result == vss::<C>(comm_vals::<C>(commitment.0@), identifier.0.0, FF::<C>::s_one()),   // [vss_rhs]
{
    let i = identifier.to_scalar();

    let (_, result) = {
        let mut __acc = (<<C::Group as Group>::Field>::one(), <C::Group>::identity());
        let mut __it = commitment.0.iter();
        let ghost all = __it.remaining();
        let ghost cv = comm_vals::<C>(commitment.0@);
        assert(all.len() == cv.len());
        assert(forall|k: int| 0 <= k < all.len() ==> all[k].0.0 == cv[k]);
        proof {
            assert(cv.skip(0) =~= cv);
            let v0 = vss::<C>(cv, i, FF::<C>::s_one());
            GG::<C>::ax_eadd_comm(GG::<C>::e_id(), v0); GG::<C>::ax_eadd_id(v0);
        }
        loop
            invariant
                __it.obeys_prophetic_iter_laws(), __it.decrease() is Some,
                __it.remaining().len() <= all.len(),
                __it.remaining() == all.skip(all.len() - __it.remaining().len()),
                i == identifier.0.0, all.len() == cv.len(), cv == comm_vals::<C>(commitment.0@),
                forall|k: int| 0 <= k < all.len() ==> all[k].0.0 == cv[k],
                // total == acc.1 + vss(rest, i, acc.0)
                vss::<C>(cv, i, FF::<C>::s_one()) == GG::<C>::e_add(__acc.1, vss::<C>(cv.skip(all.len() - __it.remaining().len()), i, __acc.0)),
            ensures __it.remaining().len() == 0,
            decreases __it.decrease()->0,
        {
            let ghost j = all.len() - __it.remaining().len();
            let comm_k = match __it.next() { None => break, Some(v) => v };
            proof {
                assert(all.skip(j)[0] == all[j]);
                assert(all.skip(j).drop_first() =~= all.skip(j + 1));
                assert(cv.skip(j)[0] == comm_k.0.0);
                assert(cv.skip(j).drop_first() =~= cv.skip(j + 1));
                FF::<C>::ax_ops(i, __acc.0);
                GG::<C>::ax_eops(comm_k.0.0, comm_k.0.0, __acc.0);
                GG::<C>::ax_eops(__acc.1, GG::<C>::e_smul(comm_k.0.0, __acc.0), __acc.0);
                GG::<C>::ax_eadd_assoc(__acc.1, GG::<C>::e_smul(comm_k.0.0, __acc.0), vss::<C>(cv.skip(j + 1), i, FF::<C>::s_mul(i, __acc.0)));
            }
            __acc = { let __p = __acc; let (i_to_the_k, sum_so_far) = __p;
                (i * i_to_the_k, sum_so_far + comm_k.value() * i_to_the_k)
            };
        }
        proof {
            assert(cv.skip(all.len() as int).len() == 0);
            GG::<C>::ax_eadd_id(__acc.1);
        }
        __acc
    };
    result
}

// ---- lemma (P13 restated over the repo's specs): an honest dealer's share passes the VSS check ----
pub open spec fn commit<C: Ciphersuite>(a: Seq<Scalar<C>>) -> Seq<Element<C>> { a.map_values(|s: Scalar<C>| GG::<C>::e_smul(GG::<C>::e_gen(), s)) }

pub proof fn lemma_vss_complete<C: Ciphersuite>(a: Seq<Scalar<C>>, x: Scalar<C>, pw: Scalar<C>)
    ensures GG::<C>::e_smul(GG::<C>::e_gen(), FF::<C>::s_mul(pw, poly::<C>(a, x))) == vss::<C>(commit::<C>(a), x, pw)
    decreases a.len()
{
    let g = GG::<C>::e_gen();
    if a.len() == 0 {
        FF::<C>::ax_mul_zero(pw); GG::<C>::ax_smul_zero(g);
    } else {
        let rest = a.drop_first(); let h = poly::<C>(rest, x);
        lemma_vss_complete::<C>(rest, x, FF::<C>::s_mul(x, pw));
        assert(commit::<C>(a).drop_first() =~= commit::<C>(rest));
        FF::<C>::ax_distrib(pw, a[0], FF::<C>::s_mul(h, x));
        FF::<C>::ax_mul_comm(h, x); FF::<C>::ax_mul_assoc(pw, x, h); FF::<C>::ax_mul_comm(pw, x);
        GG::<C>::ax_smul_add(g, FF::<C>::s_mul(pw, a[0]), FF::<C>::s_mul(pw, FF::<C>::s_mul(h, x)));
        FF::<C>::ax_mul_comm(pw, a[0]); GG::<C>::ax_smul_mul(g, a[0], pw);
    }
}

}
fn main() {}
