import Mathlib.LinearAlgebra.Lagrange

open Polynomial Finset

/-- Lagrange interpolation, in exactly the product form computed by
    `compute_lagrange_coefficient` (num / den accumulated over j ≠ i).
    Checked in the design phase: `lean P11_Lagrange.lean` (~90 s, import time). -/
theorem lagrange_eval {F : Type*} [Field F] {ι : Type*} [DecidableEq ι]
    (s : Finset ι) (v : ι → F) (hinj : Set.InjOn v s)
    (f : F[X]) (hdeg : f.degree < s.card) (x : F) :
    f.eval x = ∑ i ∈ s, f.eval (v i) *
        ((∏ j ∈ s.erase i, (x - v j)) * (∏ j ∈ s.erase i, (v i - v j))⁻¹) := by
  have h := Lagrange.eq_interpolate hinj hdeg
  conv_lhs => rw [h]
  rw [Lagrange.interpolate_apply, eval_finset_sum]
  refine Finset.sum_congr rfl ?_
  intro i hi
  rw [eval_mul, eval_C, Lagrange.basis, eval_prod]
  congr 1
  rw [← Finset.prod_inv_distrib, ← Finset.prod_mul_distrib]
  refine Finset.prod_congr rfl ?_
  intro j hj
  simp [Lagrange.basisDivisor, mul_comm]
