#!/usr/bin/env python3
# Pretty-print requires/ensures of functions from a Verus --log-all crate.vir (s-expression), heavily condensed.
import sys,re
def tokenize(s):
    i=0;n=len(s)
    while i<n:
        c=s[i]
        if c.isspace(): i+=1; continue
        if c in '()': yield c; i+=1; continue
        if c=='"':
            j=i+1
            while s[j]!='"':
                if s[j]=='\\': j+=1
                j+=1
            yield s[i:j+1]; i=j+1; continue
        j=i
        while j<n and not s[j].isspace() and s[j] not in '()': j+=1
        yield s[i:j]; i=j
def parse(tokens):
    stack=[[]]
    for t in tokens:
        if t=='(':
            stack.append([])
        elif t==')':
            l=stack.pop(); stack[-1].append(l)
        else: stack[-1].append(t)
    return stack[0]
def kw(l,k):
    for i,x in enumerate(l):
        if x==k and i+1<len(l): return l[i+1]
    return None
def short(p):
    p=re.sub(r'impl&%\d+::','',p)
    return p.split('::')[-1] if p.count('::')>0 and not p.startswith('vstd::std_specs') else p
def typ(t):
    if not isinstance(t,list): return str(t)
    if t and t[0]=='Typ':
        if t[1]=='Decorate': return '&'+typ(t[4]) if t[2]==['TypDecoration','Ref'] else typ(t[4])
        if t[1]=='Datatype': 
            path=t[2][2] if isinstance(t[2],list) and len(t[2])>2 else str(t[2])
            args=','.join(typ(a) for a in t[3]) if len(t)>3 else ''
            return short(path)+('<'+args+'>' if args else '')
        if t[1]=='TypParam': return t[2].strip('"')
        if t[1]=='Bool': return 'bool'
        if t[1]=='Int': return str(t[2][1]) if isinstance(t[2],list) else 'int'
        return ' '.join(typ(x) for x in t[1:])
    return '?'
def ex(e):
    # e is like ['>' or '@'-less node ...]; find the core
    if not isinstance(e,list): return str(e)
    if len(e)==0: return '()'
    if e[0] in ('@','@@'): return ex(e[2]) if len(e)>2 else '?'
    if e[0]=='>' : e=e[1:]
    # strip trailing type
    h=e[0]
    if h=='Call':
        tgt=kw(e,':target'); args=kw(e,':args')
        name='?'
        if isinstance(tgt,list):
            for x in tgt:
                if isinstance(x,list) and x and x[0]=='Fun': name=short(x[2])
        a=[]
        for x in (args or []):
            a.append(ex(x))
        return f"{name}({', '.join(a)})"
    if h in('Logical','Binary','Arith','Inequality','Bitwise'):
        op=e[1]; opn=op[1] if isinstance(op,list) and len(op)>1 else str(op)
        if opn in('InequalityOp',): opn=op[1]
        args=[x for x in e[2:] if isinstance(x,list) and x and x[0] in ('@@','@')]
        sym={'Implies':'==>','And':'&&','Or':'||','Eq':'==','Ne':'!=','Le':'<=','Lt':'<','Ge':'>=','Gt':'>','Add':'+','Sub':'-','Mul':'*'}.get(opn,opn)
        return '('+f' {sym} '.join(ex(a) for a in args)+')'
    if h=='ReadPlace': return ex(e[1])
    if h=='Place': return ex(e[1:])
    if h in('Local','Var'): 
        v=e[1]; return v[1].strip('"') if isinstance(v,list) else str(v)
    if h=='VarIdent': return e[1].strip('"')
    if h=='Temporary': return ex(e[1])
    if h=='Block': 
        return ex(e[2]) if len(e)>2 and e[2] else '{}'
    if h=='UnaryOpr':
        op=e[1]; 
        if op[1]=='IsVariant': return ex(e[2])+' is '+kw(op,':variant').strip('"')
        if op[1]=='Field': return ex(e[2])+'.'+str(kw(op,':field')).strip('"')
        return f"{op[1]}({ex(e[2])})"
    if h=='Unary':
        return f"{e[1][1] if isinstance(e[1],list) else e[1]}({ex(e[2])})"
    if h=='Quant':
        return 'FORALL/EXISTS['+' '.join(ex(x) for x in e[1:] if isinstance(x,list))+']'
    if h=='Bind':
        return 'BIND['+' '.join(ex(x) for x in e[1:] if isinstance(x,list))+']'
    if h=='Const': return str(e[1][-1]) if isinstance(e[1],list) else str(e[1])
    if h=='If': return 'if '+' '.join(ex(x) for x in e[1:] if isinstance(x,list))
    if h=='Field': return ex(e[-1])
    if h=='Ctor': return 'Ctor'+str([x for x in e[1:3]])
    # generic
    if not isinstance(h,str): return '['+' '.join(ex(x) for x in e if isinstance(x,list))+']'
    return h+'['+' '.join(ex(x) for x in e[1:] if isinstance(x,list))+']'
def main():
    txt=open(sys.argv[1]).read()
    pat=sys.argv[2]
    tree=parse(tokenize(txt))
    def walk(n):
        if isinstance(n,list):
            if n and n[0]=='Function':
                name=kw(n,':name')
                nm=name[2] if isinstance(name,list) else str(name)
                if re.search(pat,nm):
                    print('FN',nm)
                    params=kw(n,':params') or []
                    for p in params:
                        pp=p[0] if p and isinstance(p[0],list) else p
                        print('   param',ex(kw(pp,':name')),':',typ(kw(pp,':typ')))
                    r=kw(n,':ret')
                    if r:
                        rr=r[0]; print('   ret',ex(kw(rr,':name')),':',typ(kw(rr,':typ')))
                    for k in (':require',':ensure'):
                        v=kw(n,k)
                        if v:
                            items=v
                            if k==':ensure' and v and v[0]=='tuple': items=v[1]
                            for it in items:
                                print('  ',k,ex(it))
                    b=kw(n,':body')
                    if b and b!='None' and sys.argv[3:]==['body']: print('   body',ex(b))
                return
            for x in n: walk(x)
    walk(tree)
main()
