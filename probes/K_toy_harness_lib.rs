// Design-phase Kani probes (P7, P9, P14, P10), reconstructed for reference.  NOT part of any check.
//
// How they were run (scratch crate outside /repo and /verif, deleted afterwards):
//   Cargo.toml:   [dependencies] frost-core = { path = "<copy-or-/repo>/frost-core", default-features = false,
//                                 features = ["internals", "serialization"] }
//                 rand_core = "0.10"; zeroize = { version = "1.9", default-features = false }
//                 [workspace]
//   .cargo/config.toml: [net] offline = true          cp /repo/Cargo.lock .
//   CARGO_NET_OFFLINE=true timeout 900 cargo kani -Z stubbing --harness <name>
// For scalar_mul (private module) a copy of the workspace is needed: root Cargo.toml with
//   members = ["frost-core"], `mod scalar_mul;` made `pub mod`, and appended to frost-core/src/lib.rs:
//   #[cfg(kani)] pub mod __verif { pub use crate::scalar_mul::*; }
//
// Results: id_from_u16 9 s; keypackage_roundtrip 44 s; keypackage_zeroize / keypackage_drop < 1 s (negative
// control fails as required); naf32_safe 515 s; naf8_top16 155 s; fully symbolic naf with value
// reconstruction (8 or 32 bytes) did not finish in 15/25 min; a symbolic 3-element BTreeSet through
// compute_lagrange_coefficient ran out of memory after 21 min; format!("{:?}") of a KeyPackage: intractable.
#![allow(non_snake_case)]
use core::ops::{Add, Mul, Sub};
use frost_core::{Ciphersuite, Field, FieldError, Group, GroupError};
use rand_core::CryptoRng;

pub const Q: u32 = 251;

#[derive(Clone, Copy, PartialEq, Eq, Debug)]
pub struct S(pub u32);
impl Add for S { type Output = S; fn add(self, o: S) -> S { S((self.0 + o.0) % Q) } }
impl Sub for S { type Output = S; fn sub(self, o: S) -> S { S((self.0 + Q - o.0) % Q) } }
impl Mul for S { type Output = S; fn mul(self, o: S) -> S { S((self.0 * o.0) % Q) } }

#[derive(Clone, Copy, PartialEq, Eq, Debug)]
pub struct E(pub u32);
impl Add for E { type Output = E; fn add(self, o: E) -> E { E((self.0 + o.0) % Q) } }
impl Sub for E { type Output = E; fn sub(self, o: E) -> E { E((self.0 + Q - o.0) % Q) } }
impl Mul<S> for E { type Output = E; fn mul(self, o: S) -> E { E((self.0 * o.0) % Q) } }

#[derive(Clone, Copy, PartialEq, Eq, Debug)]
pub struct ToyField;
impl Field for ToyField {
    type Scalar = S;
    type Serialization = [u8; 1];
    fn zero() -> S { S(0) }
    fn one() -> S { S(1) }
    fn invert(s: &S) -> Result<S, FieldError> {
        if s.0 == 0 { return Err(FieldError::InvalidZeroScalar); }
        let (mut r, mut b, mut e) = (1u32, s.0, Q - 2);
        while e > 0 { if e & 1 == 1 { r = r * b % Q; } b = b * b % Q; e >>= 1; }
        Ok(S(r))
    }
    fn random<R: CryptoRng>(rng: &mut R) -> S { let mut b = [0u8; 1]; rng.fill_bytes(&mut b); S(b[0] as u32 % Q) }
    fn serialize(s: &S) -> [u8; 1] { [s.0 as u8] }
    fn little_endian_serialize(s: &S) -> [u8; 1] { [s.0 as u8] }
    fn deserialize(b: &[u8; 1]) -> Result<S, FieldError> {
        if (b[0] as u32) < Q { Ok(S(b[0] as u32)) } else { Err(FieldError::MalformedScalar) }
    }
}
#[derive(Clone, Copy, PartialEq, Eq, Debug)]
pub struct ToyGroup;
impl Group for ToyGroup {
    type Field = ToyField;
    type Element = E;
    type Serialization = [u8; 1];
    fn cofactor() -> S { S(1) }
    fn identity() -> E { E(0) }
    fn generator() -> E { E(1) }
    fn serialize(e: &E) -> Result<[u8; 1], GroupError> {
        if e.0 == 0 { Err(GroupError::InvalidIdentityElement) } else { Ok([e.0 as u8]) }
    }
    fn deserialize(b: &[u8; 1]) -> Result<E, GroupError> {
        if b[0] == 0 { Err(GroupError::InvalidIdentityElement) }
        else if (b[0] as u32) < Q { Ok(E(b[0] as u32)) } else { Err(GroupError::MalformedElement) }
    }
}
fn h(tag: u32, m: &[u8]) -> u32 { let mut a = tag; for x in m { a = (a * 31 + *x as u32) % Q; } a }
#[derive(Clone, Copy, PartialEq, Eq, Debug)]
pub struct Toy;
impl Ciphersuite for Toy {
    const ID: &'static str = "TOY";
    type Group = ToyGroup;
    type HashOutput = [u8; 1];
    type SignatureSerialization = [u8; 2];
    fn H1(m: &[u8]) -> S { S(h(1, m)) }
    fn H2(m: &[u8]) -> S { S(h(2, m)) }
    fn H3(m: &[u8]) -> S { S(h(3, m)) }
    fn H4(m: &[u8]) -> [u8; 1] { [h(4, m) as u8] }
    fn H5(m: &[u8]) -> [u8; 1] { [h(5, m) as u8] }
    fn HDKG(m: &[u8]) -> Option<S> { Some(S(h(6, m))) }
    fn HID(m: &[u8]) -> Option<S> { Some(S(h(7, m))) }
}

// "Wide" suites for the NAF recoder: scalar = opaque little-endian byte array, arithmetic irrelevant.
// (W8 = [u8; 8], W = [u8; 32]; same shape with the obvious substitutions.)

#[cfg(kani)]
mod proofs {
    use super::*;
    use frost_core::keys::{KeyPackage, SigningShare, VerifyingShare};
    use frost_core::{Identifier, VerifyingKey};

    fn noop_barrier<T: ?Sized>(_v: &T) {}

    #[kani::proof]
    #[kani::unwind(18)]
    fn id_from_u16() {
        let n: u16 = kani::any();
        kani::assume(n != 0 && (n as u32) % Q != 0);
        let id = Identifier::<Toy>::try_from(n).unwrap();
        assert_eq!(id.to_scalar().0, (n as u32) % Q);
    }

    fn mk(a: u8, b: u8, c: u8, i: u8, m: u16) -> KeyPackage<Toy> {
        KeyPackage::<Toy>::new(
            Identifier::<Toy>::new(S(i as u32)).unwrap(),
            SigningShare::new(S(a as u32)),
            VerifyingShare::new(E(b as u32)),
            VerifyingKey::new(E(c as u32)),
            m,
        )
    }

    #[kani::proof]
    #[kani::unwind(8)]
    #[kani::stub(zeroize::barrier::optimization_barrier, noop_barrier)]
    fn keypackage_roundtrip() {
        let (a, b, c, i): (u8, u8, u8, u8) = (kani::any(), kani::any(), kani::any(), kani::any());
        kani::assume((a as u32) < Q && (b as u32) < Q && b != 0 && (c as u32) < Q && c != 0 && i != 0 && (i as u32) < Q);
        let kp = mk(a, b, c, i, kani::any());
        let bytes = kp.serialize().unwrap();
        let kp2 = KeyPackage::<Toy>::deserialize(&bytes).unwrap();
        assert!(kp == kp2);
    }

    #[kani::proof]
    #[kani::stub(zeroize::barrier::optimization_barrier, noop_barrier)]
    fn keypackage_zeroize() {
        use zeroize::Zeroize;
        let (a, b, c, i): (u8, u8, u8, u8) = (kani::any(), kani::any(), kani::any(), kani::any());
        kani::assume((a as u32) < Q && (b as u32) < Q && (c as u32) < Q && i != 0 && (i as u32) < Q);
        let mut kp = mk(a, b, c, i, kani::any());
        kp.zeroize();
        assert!(kp.signing_share().to_scalar().0 == 0);
        assert!(kp.verifying_share().to_element().0 == b as u32);
    }

    #[kani::proof]
    #[kani::stub(zeroize::barrier::optimization_barrier, noop_barrier)]
    fn keypackage_drop() {
        use core::mem::MaybeUninit;
        let (a, b, c, i): (u8, u8, u8, u8) = (kani::any(), kani::any(), kani::any(), kani::any());
        kani::assume((a as u32) < Q && (b as u32) < Q && (c as u32) < Q && i != 0 && (i as u32) < Q);
        let mut slot = MaybeUninit::<KeyPackage<Toy>>::uninit();
        slot.write(mk(a, b, c, i, kani::any()));
        unsafe { core::ptr::drop_in_place(slot.as_mut_ptr()); } // negative control: make this conditional -> FAILS
        let after: &KeyPackage<Toy> = unsafe { &*slot.as_ptr() };
        assert!(after.signing_share().to_scalar().0 == 0);
    }

    // NAF (needs the scratch copy exposing frost_core::__verif::NonAdjacentForm and the W8/W suites):
    //
    // #[kani::proof] #[kani::unwind(260)]
    // fn naf32_safe() { let b: [u8; 32] = kani::any();
    //     let naf = NonAdjacentForm::<WToy>::non_adjacent_form(&W(b), 5); assert!(naf.len() == 257); }
    //
    // #[kani::proof] #[kani::unwind(68)]
    // fn naf8_top16() { let hi: [u8; 2] = kani::any(); let pat: u8 = kani::any();
    //     kani::assume(pat == 0x00 || pat == 0xFF || pat == 0xA5 || pat == 0x10);
    //     let b = [pat, pat, pat, pat, pat, pat, hi[0], hi[1]];
    //     let naf = NonAdjacentForm::<W8Toy>::non_adjacent_form(&W8(b), 5);
    //     let mut acc: i128 = 0; let mut i = 65; while i > 0 { i -= 1; acc = acc * 2 + naf[i] as i128; }
    //     assert!(acc == u64::from_le_bytes(b) as i128); }
}
