#![allow(unused_imports)]
use vstd::prelude::*;
use vstd::std_specs::ops::*;
use vstd::std_specs::cmp::*;
use vstd::std_specs::iter::IteratorSpec;
use core::ops::{Add, Mul, Sub};
use std::collections::{BTreeMap, BTreeSet};
use core::marker::PhantomData;
verus! {

pub enum FieldError { MalformedScalar, InvalidZeroScalar }

pub trait Field: Copy {
    type Scalar: Add<Output = Self::Scalar> + Copy + Clone + Eq + Mul<Output = Self::Scalar> + PartialEq + Sub<Output = Self::Scalar>;
    // ---- abstract algebra (spec side) ----
    spec fn s_zero() -> Self::Scalar;
    spec fn s_one() -> Self::Scalar;
    spec fn s_add(a: Self::Scalar, b: Self::Scalar) -> Self::Scalar;
    spec fn s_sub(a: Self::Scalar, b: Self::Scalar) -> Self::Scalar;
    spec fn s_mul(a: Self::Scalar, b: Self::Scalar) -> Self::Scalar;
    spec fn s_inv(a: Self::Scalar) -> Self::Scalar;

    fn zero() -> (r: Self::Scalar) ensures r == Self::s_zero();
    fn one() -> (r: Self::Scalar) ensures r == Self::s_one();
    fn invert(scalar: &Self::Scalar) -> (r: Result<Self::Scalar, FieldError>)
        ensures *scalar == Self::s_zero() ==> r is Err,
                *scalar != Self::s_zero() ==> r == Ok::<Self::Scalar, FieldError>(Self::s_inv(*scalar));

    proof fn ax_ops(a: Self::Scalar, b: Self::Scalar)
        ensures
            a.add_req(b), <Self::Scalar as AddSpec<Self::Scalar>>::obeys_add_spec(), a.add_spec(b) == Self::s_add(a, b),
            a.sub_req(b), <Self::Scalar as SubSpec<Self::Scalar>>::obeys_sub_spec(), a.sub_spec(b) == Self::s_sub(a, b),
            a.mul_req(b), <Self::Scalar as MulSpec<Self::Scalar>>::obeys_mul_spec(), a.mul_spec(b) == Self::s_mul(a, b),
            <Self::Scalar as PartialEqSpec<Self::Scalar>>::obeys_eq_spec(), a.eq_spec(&b) == (a == b);
}
pub trait Group: Copy + PartialEq {
    type Field: Field;
    type Element: Add<Output = Self::Element> + Copy + Clone + Eq + Mul<<Self::Field as Field>::Scalar, Output = Self::Element> + PartialEq + Sub<Output = Self::Element>;
    fn identity() -> Self::Element;
    fn generator() -> Self::Element;
}
pub trait Ciphersuite: Copy + PartialEq + 'static {
    type Group: Group;
}
pub type Scalar<C> = <<<C as Ciphersuite>::Group as Group>::Field as Field>::Scalar;
pub type Element<C> = <<C as Ciphersuite>::Group as Group>::Element;
pub type F<C> = <<C as Ciphersuite>::Group as Group>::Field;

pub broadcast proof fn b_add<FF: Field>(a: FF::Scalar, b: FF::Scalar)
    ensures #[trigger] a.add_req(b), <FF::Scalar as AddSpec<FF::Scalar>>::obeys_add_spec(), a.add_spec(b) == FF::s_add(a, b),
{ FF::ax_ops(a, b); }
pub broadcast proof fn b_add2<FF: Field>(a: FF::Scalar, b: FF::Scalar)
    ensures <FF::Scalar as AddSpec<FF::Scalar>>::obeys_add_spec(), #[trigger] a.add_spec(b) == FF::s_add(a, b),
{ FF::ax_ops(a, b); }
pub broadcast proof fn b_sub<FF: Field>(a: FF::Scalar, b: FF::Scalar)
    ensures #[trigger] a.sub_req(b), <FF::Scalar as SubSpec<FF::Scalar>>::obeys_sub_spec(), a.sub_spec(b) == FF::s_sub(a, b),
{ FF::ax_ops(a, b); }
pub broadcast proof fn b_sub2<FF: Field>(a: FF::Scalar, b: FF::Scalar)
    ensures <FF::Scalar as SubSpec<FF::Scalar>>::obeys_sub_spec(), #[trigger] a.sub_spec(b) == FF::s_sub(a, b),
{ FF::ax_ops(a, b); }
pub broadcast proof fn b_mul<FF: Field>(a: FF::Scalar, b: FF::Scalar)
    ensures #[trigger] a.mul_req(b), <FF::Scalar as MulSpec<FF::Scalar>>::obeys_mul_spec(), a.mul_spec(b) == FF::s_mul(a, b),
{ FF::ax_ops(a, b); }
pub broadcast proof fn b_mul2<FF: Field>(a: FF::Scalar, b: FF::Scalar)
    ensures <FF::Scalar as MulSpec<FF::Scalar>>::obeys_mul_spec(), #[trigger] a.mul_spec(b) == FF::s_mul(a, b),
{ FF::ax_ops(a, b); }
pub broadcast proof fn b_eq<FF: Field>(a: FF::Scalar, b: FF::Scalar)
    ensures <FF::Scalar as PartialEqSpec<FF::Scalar>>::obeys_eq_spec(), #[trigger] a.eq_spec(&b) == (a == b),
{ FF::ax_ops(a, b); }
pub broadcast group b_ops { b_add, b_add2, b_sub, b_sub2, b_mul, b_mul2, b_eq }

pub enum Error<C: Ciphersuite> {
    IncorrectNumberOfIdentifiers,
    UnknownIdentifier,
    DuplicatedIdentifier,
    InvalidSignatureShare { culprits: Vec<Identifier<C>> },
    FieldError(FieldError),
}

#[derive(Clone, Copy, Eq)]
pub struct SerializableScalar<C: Ciphersuite>(
    pub <<<C as Ciphersuite>::Group as Group>::Field as Field>::Scalar,
);

#[derive(Copy, Clone)]
pub struct Identifier<C: Ciphersuite>(pub SerializableScalar<C>);

impl<C: Ciphersuite> PartialEqSpecImpl for SerializableScalar<C> {
    open spec fn obeys_eq_spec() -> bool { true }
    open spec fn eq_spec(&self, other: &Self) -> bool { self.0 == other.0 }
}
impl<C: Ciphersuite> PartialEq for SerializableScalar<C> {
    fn eq(&self, other: &Self) -> (r: bool)
    { proof { F::<C>::ax_ops(self.0, other.0); } self.0 == other.0 }
}
impl<C: Ciphersuite> PartialEqSpecImpl for Identifier<C> {
    open spec fn obeys_eq_spec() -> bool { true }
    open spec fn eq_spec(&self, other: &Self) -> bool { self.0 == other.0 }
}
impl<C: Ciphersuite> PartialEq for Identifier<C> {
    fn eq(&self, other: &Self) -> (r: bool)
    { self.0 == other.0 }
}


impl<C> Identifier<C>
where
    C: Ciphersuite,
{
    pub(crate) fn to_scalar(&self) -> (r: Scalar<C>)
        ensures r == self.0.0
    {
        self.0.0
    }
}

spec fn lag_num<C: Ciphersuite>(xs: Seq<Identifier<C>>, x: Option<Identifier<C>>, xi: Identifier<C>) -> Scalar<C>
    decreases xs.len()
{
    if xs.len() == 0 { F::<C>::s_one() } else {
        let r = lag_num(xs.drop_last(), x, xi);
        let xj = xs.last();
        if xj == xi { r } else {
            match x {
                Some(x) => F::<C>::s_mul(r, F::<C>::s_sub(x.0.0, xj.0.0)),
                None => F::<C>::s_mul(r, xj.0.0),
            }
        }
    }
}
spec fn lag_den<C: Ciphersuite>(xs: Seq<Identifier<C>>, x: Option<Identifier<C>>, xi: Identifier<C>) -> Scalar<C>
    decreases xs.len()
{
    if xs.len() == 0 { F::<C>::s_one() } else {
        let r = lag_den(xs.drop_last(), x, xi);
        let xj = xs.last();
        if xj == xi { r } else {
            match x {
                Some(x) => F::<C>::s_mul(r, F::<C>::s_sub(xi.0.0, xj.0.0)),
                None => F::<C>::s_mul(r, F::<C>::s_sub(xj.0.0, xi.0.0)),
            }
        }
    }
}

proof fn lemma_take_step<T>(all: Seq<&T>, k: int)
    requires 0 <= k < all.len()
    ensures all.take(k + 1).unref().drop_last() =~= all.take(k).unref(),
            all.take(k + 1).unref().last() == *all[k],
            all.skip(k).len() > 0, all.skip(k)[0] == all[k], all.skip(k).drop_first() =~= all.skip(k + 1),
{
    broadcast use vstd::seq::group_seq_axioms;
    broadcast use vstd::seq_lib::group_seq_properties;
}

fn compute_lagrange_coefficient<C: Ciphersuite>(
    x_set: &BTreeSet<Identifier<C>>,
    x: Option<Identifier<C>>,
    x_i: Identifier<C>,
) -> (res: Result<Scalar<C>, Error<C>>)
    requires vstd::std_specs::btree::key_obeys_cmp_spec::<Identifier<C>>(),
{
    broadcast use b_ops;
    if x_set.is_empty() {
        return Err(Error::IncorrectNumberOfIdentifiers);
    }
    let mut num = <<C::Group as Group>::Field>::one();
    let mut den = <<C::Group as Group>::Field>::one();

    let mut x_i_found = false;

    let mut __it = x_set.iter();
    let ghost all = __it.remaining();
    loop
        invariant
            __it.obeys_prophetic_iter_laws(),
            __it.decrease() is Some,
            __it.remaining().len() <= all.len(),
            __it.remaining() == all.skip(all.len() - __it.remaining().len()),
            num == lag_num::<C>(all.take(all.len() - __it.remaining().len()).unref(), x, x_i),
            den == lag_den::<C>(all.take(all.len() - __it.remaining().len()).unref(), x, x_i),
        decreases __it.decrease()->0,
    {
      let ghost k0 = all.len() - __it.remaining().len();
      let x_j = match __it.next() { None => break, Some(v) => v };
      broadcast use b_ops;
      proof { lemma_take_step(all, k0); reveal_with_fuel(lag_num, 2); reveal_with_fuel(lag_den, 2); }
        if x_i == *x_j {
            x_i_found = true;
            continue;
        }

        assert(*x_j != x_i);
        assert(all.take(k0 + 1).unref().last() == *x_j);
        assert(lag_num::<C>(all.take(k0 + 1).unref(), x, x_i) == match x { Some(xx) => F::<C>::s_mul(lag_num::<C>(all.take(k0).unref(), x, x_i), F::<C>::s_sub(xx.0.0, x_j.0.0)), None => F::<C>::s_mul(lag_num::<C>(all.take(k0).unref(), x, x_i), x_j.0.0) });
        let ghost num0 = num;
        if let Some(x) = x {
            num = num * (x.to_scalar() - x_j.to_scalar());
            den = den * (x_i.to_scalar() - x_j.to_scalar());
        } else {
            // Both signs inverted just to avoid requiring Neg (-*xj)
            num = num * x_j.to_scalar();
            den = den * (x_j.to_scalar() - x_i.to_scalar());
        }
        assert(num == match x { Some(xx) => F::<C>::s_mul(num0, F::<C>::s_sub(xx.0.0, x_j.0.0)), None => F::<C>::s_mul(num0, x_j.0.0) });
        assert(num0 == lag_num::<C>(all.take(k0).unref(), x, x_i));
        assert(num == lag_num::<C>(all.take(k0 + 1).unref(), x, x_i));
        assert(all.len() - __it.remaining().len() == k0 + 1);
    }
    if !x_i_found {
        return Err(Error::UnknownIdentifier);
    }

    Ok(
        num * <<C::Group as Group>::Field>::invert(&den)
            .map_err(|_e| Error::DuplicatedIdentifier)?,
    )
}

}
fn main() {}
