#!/usr/bin/env python3
# Prototype extractor (design-phase probe only): flatten selected frost-core files into one Verus file.
import re,sys
R='/repo/frost-core/src/'
def strip_comments(s):
    out=[];i=0;n=len(s)
    while i<n:
        if s.startswith('//',i):
            j=s.find('\n',i); j=n if j<0 else j; i=j; continue
        if s.startswith('/*',i):
            j=s.find('*/',i); i=j+2; continue
        if s[i]=='"':
            j=i+1
            while s[j]!='"':
                if s[j]=='\\': j+=1
                j+=1
            out.append(s[i:j+1]); i=j+1; continue
        if s[i]=="'" :
            # char literal or lifetime
            m=re.match(r"'(\\.|[^\\'])'",s[i:])
            if m: out.append(m.group(0)); i+=len(m.group(0)); continue
        out.append(s[i]); i+=1
    return ''.join(out)
def split_items(s):
    # returns list of (attrs, text) for top-level items in s
    items=[];i=0;n=len(s)
    while i<n:
        while i<n and s[i].isspace(): i+=1
        if i>=n: break
        start=i; attrs=[]
        while s.startswith('#[',i) or s.startswith('#![',i):
            d=0;j=i
            while True:
                if s[j]=='[': d+=1
                elif s[j]==']':
                    d-=1
                    if d==0: break
                elif s[j]=='"':
                    j+=1
                    while s[j]!='"':
                        if s[j]=='\\': j+=1
                        j+=1
                j+=1
            attrs.append(s[i:j+1]); i=j+1
            while i<n and s[i].isspace(): i+=1
        # item body: until ';' at depth 0 or matching '}' of first '{' at depth 0
        if re.match(r'(pub(\([a-z]+\))? )?use ', s[i:i+20]):
            j=s.find(';',i)+1
            items.append((attrs,s[i:j])); i=j; continue
        j=i;d=0
        while j<n:
            c=s[j]
            if c=='"':
                j+=1
                while s[j]!='"':
                    if s[j]=='\\': j+=1
                    j+=1
            elif c=="'":
                m=re.match(r"'(\\.|[^\\'])'",s[j:])
                if m: j+=len(m.group(0))-1
            elif c in '{([': d+=1
            elif c in '})]':
                d-=1
                if d==0 and c=='}':
                    j+=1; break
            elif c==';' and d==0:
                j+=1; break
            j+=1
        items.append((attrs,s[i:j])); i=j
    return items
DROP_ATTR_ITEM=re.compile(r'cfg\(any\(test|cfg\(feature = "serde"\)|cfg\(feature = "serialization"\)|cfg\(feature = "internals"\)|macro_use')
def keep(attrs,text):
    a=' '.join(attrs)
    if any(x.startswith(('#[cfg(','#![')) and DROP_ATTR_ITEM.search(x) for x in attrs): return False
    if any(x.startswith('#[macro_use') for x in attrs): return False
    t=text.lstrip()
    if re.match(r'(pub(\([a-z]+\))? )?(extern crate|mod \w+;)', t): return False
    if re.match(r'(pub(\([a-z]+\))? )?use ', t):
        if re.match(r'(pub(\([a-z]+\))? )?use (crate|super|self|error|identifier|keys|scalar_mul|serialization|signature|signing_key|traits|verifying_key)\b', t):
            if re.search(r'\bserde\b|scalar_mul|benches|tests', t): return False
            return True
        return False
    if re.match(r'impl<[^{]*?>\s*(core::fmt::)?(fmt::)?Debug for|impl<[^{]*?>\s*(serde::)?(Serialize|Deserialize)|impl<[^{]*?>\s*FromHex|impl<[^{]*?>\s*(Zeroize|ZeroizeOnDrop|DefaultIsZeroes|Drop|Hash) for|impl<C: Ciphersuite> core::fmt::Debug|impl<C: Ciphersuite, T: Debug> Debug',t): return False
    return True
def fix_derives(attrs):
    out=[]
    for a in attrs:
        m=re.match(r'#\[derive\((.*)\)\]',a,re.S)
        if m:
            ds=[d.strip() for d in m.group(1).split(',')]
            ds=[d for d in ds if d in('Clone','Copy','PartialEq','Eq')]
            if ds: out.append('#[derive(%s)]'%', '.join(ds))
    return out
def clean_inner(text):
    # remove attributes inside items (fields, methods)
    res=[];i=0;n=len(text)
    while i<n:
        if text.startswith('#[',i):
            d=0;j=i
            while True:
                if text[j]=='[': d+=1
                elif text[j]==']':
                    d-=1
                    if d==0: break
                elif text[j]=='"':
                    j+=1
                    while text[j]!='"':
                        if text[j]=='\\': j+=1
                        j+=1
                j+=1
            inner=text[i:j+1]
            i=j+1
            if inner.startswith('#[cfg('):
                # skip following attrs + item
                while True:
                    while text[i].isspace(): i+=1
                    if text.startswith('#[',i):
                        d=0
                        while True:
                            if text[i]=='[': d+=1
                            elif text[i]==']':
                                d-=1
                                if d==0: break
                            i+=1
                        i+=1; continue
                    break
                d=0
                while i<n:
                    c=text[i]
                    if c in '{([': d+=1
                    elif c in '})]':
                        d-=1
                        if d==0 and c=='}': i+=1; break
                    elif c in ';,' and d==0: i+=1; break
                    i+=1
            continue
        res.append(text[i]); i+=1
    t=''.join(res)
    return t
def process(path, modname=None):
    s=strip_comments(open(R+path).read())
    out=[]
    for attrs,text in split_items(s):
        if not keep(attrs,text): continue
        t=text.lstrip()
        m=re.match(r'pub mod (\w+)\s*\{',t)
        if m:
            inner=t[t.index('{')+1:t.rindex('}')]
            out.append('pub mod %s {\nuse super::*;\n'%m.group(1))
            for a2,t2 in split_items(inner):
                if keep(a2,t2): out.append('\n'.join(fix_derives(a2))+'\n'+clean_inner(t2)+'\n')
            out.append('}\n'); continue
        out.append('\n'.join(fix_derives(attrs))+'\n'+clean_inner(text)+'\n')
    return ''.join(out)
PRE='use std::collections::{BTreeMap,BTreeSet}; use std::vec::Vec; use core::ops::{Add,Mul,Sub}; use std::borrow::Cow; use core::marker::PhantomData; use core::iter; use std::string::ToString; use std::fmt::{self, Debug}; use crate::CryptoRng; use crate::VartimeMultiscalarMul;\n'
def fixuse(t): return PRE+t.replace('alloc::','std::').replace('use super::*;','use super::*;'+PRE)
print(fixuse(process('lib.rs')).replace('use crate::CryptoRng; use crate::VartimeMultiscalarMul;','',1))
mods={'error':'error.rs','identifier':'identifier.rs','serialization':'serialization.rs','signature':'signature.rs','signing_key':'signing_key.rs','verifying_key':'verifying_key.rs','traits':'traits.rs','round1':'round1.rs','round2':'round2.rs','scalar_mul':None,'batch':'batch.rs'}
for m,f in mods.items():
    if f is None: continue
    if m=='batch' and 'batch' not in sys.argv: continue
    print('pub mod %s {\n'%m+fixuse(process(f))+'\n} // MODEND')
print('pub mod keys {\n'+fixuse(process('keys.rs')))
if 'dkg' in sys.argv:
  for m in ('dkg','refresh','repairable'):
    print('pub mod %s {\n'%m+fixuse(process('keys/%s.rs'%m))+'\n} // MODEND')
print('} // MODEND')
