#![allow(unused_imports)]
use vstd::prelude::*;
use vstd::std_specs::btree::*;
use vstd::std_specs::iter::IteratorSpec;
use std::collections::BTreeMap;
verus! {
spec fn vsum(s: Seq<(u64, u64)>) -> int decreases s.len() { if s.len() == 0 { 0 } else { vsum(s.drop_last()) + s.last().1 as int } }

fn total(m: &BTreeMap<u64, u64>, other: &BTreeMap<u64, u64>) -> (r: Result<u64, ()>)
    requires key_obeys_cmp_spec::<u64>(),
    ensures r is Ok ==> forall|k: u64| m@.contains_key(k) ==> other@.contains_key(k),
{
    let mut acc: u64 = 0;
    let mut __it = m.iter();
    let ghost all = __it.remaining();
    assert(forall|i: int| 0 <= i < all.len() ==> m@.contains_key(*all[i].0) && m@[*all[i].0] == *all[i].1);
    assert(forall|k: u64| m@.contains_key(k) ==> exists|i: int| 0 <= i < all.len() && *all[i].0 == k);
    loop
        invariant __it.obeys_prophetic_iter_laws(), __it.decrease() is Some,
            __it.remaining().len() <= all.len(),
            __it.remaining() == all.skip(all.len() - __it.remaining().len()),
            forall|i: int| 0 <= i < all.len() - __it.remaining().len() ==> other@.contains_key(*all[i].0),
        ensures __it.remaining().len() == 0,
        decreases __it.decrease()->0
    {
        let ghost k0 = all.len() - __it.remaining().len();
        let (k, v) = match __it.next() { None => break, Some(p) => p };
        assert(all.skip(k0)[0] == all[k0]);
        assert(all.skip(k0).drop_first() =~= all.skip(k0 + 1));
        let o = match other.get(k) { Some(o) => *o, None => return Err(()) };
        acc = if acc < 1000 && o < 1000 && *v < 1000 { acc + 1 } else { acc };
    }
    Ok(acc)
}
}
fn main() {}
