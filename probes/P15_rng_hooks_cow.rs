#![allow(unused_imports)]
use vstd::prelude::*;
use std::borrow::Cow;
use std::collections::BTreeMap;
verus! {

pub trait RngLike { 
    spec fn pos(&self) -> nat;
    spec fn stream(&self) -> Seq<u8>;
    fn fill_bytes(&mut self, dst: &mut [u8])
        ensures final(self).stream() == old(self).stream(),
                final(self).pos() == old(self).pos() + old(dst)@.len(),
                final(dst)@ == old(self).stream().subrange(old(self).pos() as int, (old(self).pos() + old(dst)@.len()) as int);
}

pub trait Suite: Sized + Copy {
    spec fn h3(m: Seq<u8>) -> u64;
    fn H3(m: &[u8]) -> (r: u64) ensures r == Self::h3(m@);

    // hook with default body and a contract
    fn pre<'a>(x: &'a Vec<u8>) -> (r: Result<Cow<'a, Vec<u8>>, ()>)
        ensures r is Ok
    {
        Ok(Cow::Borrowed(x))
    }
}

#[derive(Clone, Copy)]
pub struct A;
impl Suite for A {
    open spec fn h3(m: Seq<u8>) -> u64 { 7 }
    fn H3(m: &[u8]) -> (r: u64) { 7 }
    fn pre<'a>(x: &'a Vec<u8>) -> (r: Result<Cow<'a, Vec<u8>>, ()>)
    {
        Ok(Cow::Owned(x.clone()))
    }
}

fn nonce<S: Suite, R: RngLike>(rng: &mut R) -> (r: u64)
    ensures final(rng).pos() == old(rng).pos() + 32,
            r == S::h3(old(rng).stream().subrange(old(rng).pos() as int, (old(rng).pos() + 32) as int)),
{
    let mut random_bytes = [0u8; 32];
    rng.fill_bytes(&mut random_bytes[..]);
    S::H3(&random_bytes[..])
}

fn use_cow<S: Suite>(x: &Vec<u8>) -> (r: usize)
{
    let y = match S::pre(x) { Ok(v) => v, Err(_e) => return 0 };
    let z: &Vec<u8> = &y;
    z.len()
}

}
fn main() {}
