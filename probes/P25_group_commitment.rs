#![allow(unused_imports)]
// Design-phase probe P25: compute_group_commitment (frost-core/src/lib.rs:495-538), real text with E5 applied,
// MSM assumed by contract, verified against  R = sum_j (D_j + rho_j * E_j)  and the IdentityCommitment clause.
use vstd::prelude::*;
use vstd::std_specs::ops::*;
use vstd::std_specs::cmp::*;
use vstd::std_specs::iter::IteratorSpec;
use vstd::std_specs::btree::*;
use core::ops::{Add, Mul, Sub};
use std::collections::BTreeMap;
verus! {


pub trait Field: Copy {
    type Scalar: Add<Output = Self::Scalar> + Copy + Clone + Eq + Mul<Output = Self::Scalar> + PartialEq + Sub<Output = Self::Scalar>;
    spec fn s_zero() -> Self::Scalar;
    spec fn s_one() -> Self::Scalar;
    spec fn s_add(a: Self::Scalar, b: Self::Scalar) -> Self::Scalar;
    spec fn s_mul(a: Self::Scalar, b: Self::Scalar) -> Self::Scalar;
    fn zero() -> (r: Self::Scalar) ensures r == Self::s_zero();
    fn one() -> (r: Self::Scalar) ensures r == Self::s_one();
    proof fn ax_ops(a: Self::Scalar, b: Self::Scalar)
        ensures a.add_req(b), <Self::Scalar as AddSpec<Self::Scalar>>::obeys_add_spec(), a.add_spec(b) == Self::s_add(a, b),
                a.mul_req(b), <Self::Scalar as MulSpec<Self::Scalar>>::obeys_mul_spec(), a.mul_spec(b) == Self::s_mul(a, b);
    proof fn ax_add_comm(a: Self::Scalar, b: Self::Scalar) ensures Self::s_add(a, b) == Self::s_add(b, a);
    proof fn ax_add_zero(a: Self::Scalar) ensures Self::s_add(a, Self::s_zero()) == a;
    proof fn ax_mul_comm(a: Self::Scalar, b: Self::Scalar) ensures Self::s_mul(a, b) == Self::s_mul(b, a);
    proof fn ax_mul_assoc(a: Self::Scalar, b: Self::Scalar, c: Self::Scalar) ensures Self::s_mul(Self::s_mul(a, b), c) == Self::s_mul(a, Self::s_mul(b, c));
    proof fn ax_mul_one(a: Self::Scalar) ensures Self::s_mul(a, Self::s_one()) == a;
    proof fn ax_mul_zero(a: Self::Scalar) ensures Self::s_mul(a, Self::s_zero()) == Self::s_zero();
    proof fn ax_distrib(a: Self::Scalar, b: Self::Scalar, c: Self::Scalar) ensures Self::s_mul(a, Self::s_add(b, c)) == Self::s_add(Self::s_mul(a, b), Self::s_mul(a, c));
}
pub trait Group: Copy + PartialEq {
    type Field: Field;
    type Element: Add<Output = Self::Element> + Copy + Clone + Eq + Mul<<Self::Field as Field>::Scalar, Output = Self::Element> + PartialEq + Sub<Output = Self::Element>;
    spec fn e_id() -> Self::Element;
    spec fn e_gen() -> Self::Element;
    spec fn e_add(a: Self::Element, b: Self::Element) -> Self::Element;
    spec fn e_smul(p: Self::Element, a: <Self::Field as Field>::Scalar) -> Self::Element;
    fn identity() -> (r: Self::Element) ensures r == Self::e_id();
    fn generator() -> (r: Self::Element) ensures r == Self::e_gen();
    proof fn ax_eops(p: Self::Element, q: Self::Element, a: <Self::Field as Field>::Scalar)
        ensures p.add_req(q), <Self::Element as AddSpec<Self::Element>>::obeys_add_spec(), p.add_spec(q) == Self::e_add(p, q),
                p.mul_req(a), <Self::Element as MulSpec<<Self::Field as Field>::Scalar>>::obeys_mul_spec(), p.mul_spec(a) == Self::e_smul(p, a),
                <Self::Element as PartialEqSpec<Self::Element>>::obeys_eq_spec(), p.eq_spec(&q) == (p == q);
    proof fn ax_eadd_comm(a: Self::Element, b: Self::Element) ensures Self::e_add(a, b) == Self::e_add(b, a);
    proof fn ax_eadd_assoc(a: Self::Element, b: Self::Element, c: Self::Element) ensures Self::e_add(Self::e_add(a, b), c) == Self::e_add(a, Self::e_add(b, c));
    proof fn ax_eadd_id(a: Self::Element) ensures Self::e_add(a, Self::e_id()) == a;
    proof fn ax_smul_add(p: Self::Element, a: <Self::Field as Field>::Scalar, b: <Self::Field as Field>::Scalar) ensures Self::e_smul(p, <Self::Field as Field>::s_add(a, b)) == Self::e_add(Self::e_smul(p, a), Self::e_smul(p, b));
    proof fn ax_smul_mul(p: Self::Element, a: <Self::Field as Field>::Scalar, b: <Self::Field as Field>::Scalar) ensures Self::e_smul(Self::e_smul(p, a), b) == Self::e_smul(p, <Self::Field as Field>::s_mul(a, b));
    proof fn ax_smul_zero(p: Self::Element) ensures Self::e_smul(p, <Self::Field as Field>::s_zero()) == Self::e_id();
}
pub trait Ciphersuite: Copy + PartialEq + 'static { type Group: Group; }
pub type Scalar<C> = <<<C as Ciphersuite>::Group as Group>::Field as Field>::Scalar;
pub type Element<C> = <<C as Ciphersuite>::Group as Group>::Element;
pub type FF<C> = <<C as Ciphersuite>::Group as Group>::Field;
pub type GG<C> = <C as Ciphersuite>::Group;


pub enum Error<C: Ciphersuite> { IdentityCommitment, UnknownIdentifier, Other(Identifier<C>) }

#[derive(Clone, Copy)]
pub struct SerializableScalar<C: Ciphersuite>(pub Scalar<C>);
#[derive(Clone, Copy)]
pub struct SerializableElement<C: Ciphersuite>(pub Element<C>);
#[derive(Copy, Clone)]
pub struct Identifier<C: Ciphersuite>(pub SerializableScalar<C>);

// Ord for Identifier: assumed total order (T7)
impl<C: Ciphersuite> PartialEqSpecImpl for Identifier<C> { open spec fn obeys_eq_spec() -> bool { true } open spec fn eq_spec(&self, o: &Self) -> bool { self.0.0 == o.0.0 } }
impl<C: Ciphersuite> PartialEq for Identifier<C> { #[verifier::external_body] fn eq(&self, o: &Self) -> (r: bool) { unimplemented!() } }
impl<C: Ciphersuite> Eq for Identifier<C> {}
pub uninterp spec fn id_cmp<C: Ciphersuite>(a: Identifier<C>, b: Identifier<C>) -> core::cmp::Ordering;
impl<C: Ciphersuite> PartialOrdSpecImpl for Identifier<C> { open spec fn obeys_partial_cmp_spec() -> bool { true } open spec fn partial_cmp_spec(&self, o: &Self) -> Option<core::cmp::Ordering> { Some(id_cmp(*self, *o)) } }
impl<C: Ciphersuite> PartialOrd for Identifier<C> { #[verifier::external_body] fn partial_cmp(&self, o: &Self) -> (r: Option<core::cmp::Ordering>) { unimplemented!() } }
impl<C: Ciphersuite> OrdSpecImpl for Identifier<C> { open spec fn obeys_cmp_spec() -> bool { true } open spec fn cmp_spec(&self, o: &Self) -> core::cmp::Ordering { id_cmp(*self, *o) } }
impl<C: Ciphersuite> Ord for Identifier<C> { #[verifier::external_body] fn cmp(&self, o: &Self) -> (r: core::cmp::Ordering) { unimplemented!() } }

#[derive(Clone, Copy)]
pub struct NonceCommitment<C: Ciphersuite>(pub SerializableElement<C>);
impl<C> NonceCommitment<C> where C: Ciphersuite { pub(crate) fn value(&self) -> (r: Element<C>) ensures r == self.0.0 { self.0.0 } }
#[derive(Clone, Copy)]
pub struct SigningCommitments<C: Ciphersuite> { pub hiding: NonceCommitment<C>, pub binding: NonceCommitment<C> }
pub struct SigningPackage<C: Ciphersuite> { pub signing_commitments: BTreeMap<Identifier<C>, SigningCommitments<C>>, pub message: Vec<u8> }
impl<C: Ciphersuite> SigningPackage<C> {
    pub fn signing_commitments(&self) -> (r: &BTreeMap<Identifier<C>, SigningCommitments<C>>) ensures r == &self.signing_commitments { &self.signing_commitments }
}
pub struct BindingFactor<C: Ciphersuite>(pub Scalar<C>);
pub struct BindingFactorList<C: Ciphersuite>(pub BTreeMap<Identifier<C>, BindingFactor<C>>);
impl<C> BindingFactorList<C> where C: Ciphersuite {
    pub fn get(&self, key: &Identifier<C>) -> (r: Option<&BindingFactor<C>>)
        requires key_obeys_cmp_spec::<Identifier<C>>()
        ensures r == if self.0@.contains_key(*key) { Some(&self.0@[*key]) } else { None::<&BindingFactor<C>> }
    { self.0.get(key) }
}
pub struct GroupCommitment<C: Ciphersuite>(pub Element<C>);

// ---- MSM: assumed contract (scalar_mul.rs is Kani's job) ----
pub open spec fn msm<C: Ciphersuite>(s: Seq<Scalar<C>>, e: Seq<Element<C>>) -> Element<C> decreases s.len()
{ if s.len() == 0 || e.len() == 0 { GG::<C>::e_id() } else { GG::<C>::e_add(msm::<C>(s.drop_last(), e.drop_last()), GG::<C>::e_smul(e.last(), s.last())) } }
#[verifier::external_body]
fn vartime_multiscalar_mul<C: Ciphersuite>(scalars: Vec<Scalar<C>>, elements: Vec<Element<C>>) -> (r: Element<C>)
    requires scalars@.len() == elements@.len()
    ensures r == msm::<C>(scalars@, elements@)
{ unimplemented!() }

// ---- spec: RFC 9591 4.5 compute_group_commitment, over the ascending (id, commitment) sequence ----
pub open spec fn gc_hiding<C: Ciphersuite>(items: Seq<(Identifier<C>, SigningCommitments<C>)>) -> Element<C> decreases items.len()
{ if items.len() == 0 { GG::<C>::e_id() } else { GG::<C>::e_add(gc_hiding::<C>(items.drop_last()), items.last().1.hiding.0.0) } }
pub open spec fn gc_binding<C: Ciphersuite>(items: Seq<(Identifier<C>, SigningCommitments<C>)>, bf: Map<Identifier<C>, BindingFactor<C>>) -> Element<C> decreases items.len()
{ if items.len() == 0 { GG::<C>::e_id() } else { GG::<C>::e_add(gc_binding::<C>(items.drop_last(), bf), GG::<C>::e_smul(items.last().1.binding.0.0, bf[items.last().0].0)) } }
pub open spec fn id_item<C: Ciphersuite>(it: (Identifier<C>, SigningCommitments<C>)) -> bool { it.1.hiding.0.0 == GG::<C>::e_id() || it.1.binding.0.0 == GG::<C>::e_id() }
pub open spec fn has_identity<C: Ciphersuite>(items: Seq<(Identifier<C>, SigningCommitments<C>)>) -> bool
{ exists|k: int| 0 <= k < items.len() && id_item::<C>(#[trigger] items[k]) }
pub open spec fn deref_items<C: Ciphersuite>(s: Seq<(&Identifier<C>, &SigningCommitments<C>)>) -> Seq<(Identifier<C>, SigningCommitments<C>)>
{ s.map_values(|p: (&Identifier<C>, &SigningCommitments<C>)| (*p.0, *p.1)) }

// ---- extracted: lib.rs:495-538 (E5: for -> loop over .iter(); operator `==` on elements kept) ----
fn compute_group_commitment<C>(
    signing_package: &SigningPackage<C>,
    binding_factor_list: &BindingFactorList<C>,
) -> (res: Result<GroupCommitment<C>, Error<C>>)
where
    C: Ciphersuite,
    requires key_obeys_cmp_spec::<Identifier<C>>(),
    ensures exists|items: Seq<(Identifier<C>, SigningCommitments<C>)>| #![trigger has_identity::<C>(items)]
        items.len() == signing_package.signing_commitments@.len()
        && (forall|k: int| 0 <= k < items.len() ==> #[trigger] signing_package.signing_commitments@.contains_key(items[k].0) && signing_package.signing_commitments@[items[k].0] == items[k].1)
        && (has_identity::<C>(items) ==> res is Err)                                                             // [identity_rejected] (C05)
        && (res is Ok ==> (forall|k: int| 0 <= k < items.len() ==> binding_factor_list.0@.contains_key(#[trigger] items[k].0))
                          && res->Ok_0.0 == GG::<C>::e_add(gc_hiding::<C>(items), gc_binding::<C>(items, binding_factor_list.0@))),   // [value] (C01/C02)
{
    let identity = <C::Group as Group>::identity();

    let mut group_commitment = <C::Group as Group>::identity();

    // Number of signing participants we are iterating over.
    let n = signing_package.signing_commitments().len();

    let mut binding_scalars = Vec::with_capacity(n);

    let mut binding_elements = Vec::with_capacity(n);

    let mut __it = signing_package.signing_commitments().iter();
    let ghost all = __it.remaining();
    let ghost items = deref_items::<C>(all);
    assert(items.len() == signing_package.signing_commitments@.len());
    assert(forall|k: int| 0 <= k < all.len() ==> signing_package.signing_commitments@.contains_key(*all[k].0) && signing_package.signing_commitments@[*all[k].0] == *all[k].1);
    loop
        invariant
            __it.obeys_prophetic_iter_laws(), __it.decrease() is Some,
            __it.remaining().len() <= all.len(),
            __it.remaining() == all.skip(all.len() - __it.remaining().len()),
            items == deref_items::<C>(all), identity == GG::<C>::e_id(), key_obeys_cmp_spec::<Identifier<C>>(),
            items.len() == signing_package.signing_commitments@.len(),
            forall|k: int| 0 <= k < items.len() ==> #[trigger] signing_package.signing_commitments@.contains_key(items[k].0) && signing_package.signing_commitments@[items[k].0] == items[k].1,
            binding_scalars@.len() == all.len() - __it.remaining().len(),
            binding_elements@.len() == binding_scalars@.len(),
            !has_identity::<C>(items.take(all.len() - __it.remaining().len())),
            forall|k: int| 0 <= k < all.len() - __it.remaining().len() ==> binding_factor_list.0@.contains_key(#[trigger] items[k].0),
            group_commitment == gc_hiding::<C>(items.take(all.len() - __it.remaining().len())),
            msm::<C>(binding_scalars@, binding_elements@) == gc_binding::<C>(items.take(all.len() - __it.remaining().len()), binding_factor_list.0@),
        ensures __it.remaining().len() == 0,
        decreases __it.decrease()->0,
    {
        let ghost j = all.len() - __it.remaining().len();
        let ghost s0 = binding_scalars@; let ghost e0 = binding_elements@;
        let ghost hi = has_identity::<C>(items);
        let (commitment_identifier, commitment) = match __it.next() { None => break, Some(v) => v };
        proof {
            assert(all.skip(j)[0] == all[j]);
            assert(all.skip(j).drop_first() =~= all.skip(j + 1));
            assert(items.take(j + 1).drop_last() =~= items.take(j));
            assert(items.take(j + 1).last() == (*commitment_identifier, *commitment));
            GG::<C>::ax_eops(identity, commitment.binding.0.0, FF::<C>::s_zero());
            GG::<C>::ax_eops(identity, commitment.hiding.0.0, FF::<C>::s_zero());
            GG::<C>::ax_eops(group_commitment, commitment.hiding.0.0, FF::<C>::s_zero());
        }
        // The following check prevents a party from accidentally revealing their share.
        // Note that the '&&' operator would be sufficient.
        if identity == commitment.binding.value() || identity == commitment.hiding.value() {
            proof { assert(items[j] == (*commitment_identifier, *commitment)); assert(id_item::<C>(items[j])); assert(has_identity::<C>(items)); }
            return Err(Error::IdentityCommitment);
        }

        let binding_factor = binding_factor_list
            .get(commitment_identifier)
            .ok_or(Error::UnknownIdentifier)?;

        // Collect the binding commitments and their binding factors for one big
        // multiscalar multiplication at the end.
        binding_elements.push(commitment.binding.value());
        binding_scalars.push(binding_factor.0);

        group_commitment = group_commitment + commitment.hiding.value();
        proof {
            assert(binding_scalars@.drop_last() =~= s0); assert(binding_elements@.drop_last() =~= e0);
            assert(binding_scalars@.last() == binding_factor_list.0@[*commitment_identifier].0);

            assert(!has_identity::<C>(items.take(j + 1))) by {
                if has_identity::<C>(items.take(j + 1)) {
                    let k = choose|k: int| 0 <= k < items.take(j + 1).len() && id_item::<C>(#[trigger] items.take(j + 1)[k]);
                    if k < j { assert(items.take(j)[k] == items.take(j + 1)[k]); }
                }
            }
        }
    }
    proof { assert(items.take(all.len() as int) =~= items); }

    let accumulated_binding_commitment: Element<C> =
        vartime_multiscalar_mul::<C>(binding_scalars, binding_elements);

    proof { GG::<C>::ax_eops(group_commitment, accumulated_binding_commitment, FF::<C>::s_zero()); }
    group_commitment = group_commitment + accumulated_binding_commitment;

    Ok(GroupCommitment(group_commitment))
}

pub open spec fn old_seq_placeholder<T>(s: Seq<T>) -> Seq<T> { s.drop_last() }

}
fn main() {}
