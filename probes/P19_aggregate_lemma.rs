use vstd::prelude::*;
verus! {

// abstract field + module, spec-level only
pub trait Alg {
    type S;  // scalars
    type E;  // elements
    spec fn zero() -> Self::S;
    spec fn one() -> Self::S;
    spec fn add(a: Self::S, b: Self::S) -> Self::S;
    spec fn mul(a: Self::S, b: Self::S) -> Self::S;
    spec fn eid() -> Self::E;
    spec fn eadd(a: Self::E, b: Self::E) -> Self::E;
    spec fn smul(p: Self::E, a: Self::S) -> Self::E;

    proof fn add_comm(a: Self::S, b: Self::S) ensures Self::add(a, b) == Self::add(b, a);
    proof fn add_assoc(a: Self::S, b: Self::S, c: Self::S) ensures Self::add(Self::add(a, b), c) == Self::add(a, Self::add(b, c));
    proof fn add_zero(a: Self::S) ensures Self::add(a, Self::zero()) == a;
    proof fn mul_comm(a: Self::S, b: Self::S) ensures Self::mul(a, b) == Self::mul(b, a);
    proof fn mul_assoc(a: Self::S, b: Self::S, c: Self::S) ensures Self::mul(Self::mul(a, b), c) == Self::mul(a, Self::mul(b, c));
    proof fn mul_one(a: Self::S) ensures Self::mul(a, Self::one()) == a;
    proof fn mul_zero(a: Self::S) ensures Self::mul(a, Self::zero()) == Self::zero();
    proof fn distrib(a: Self::S, b: Self::S, c: Self::S) ensures Self::mul(a, Self::add(b, c)) == Self::add(Self::mul(a, b), Self::mul(a, c));
    proof fn eadd_comm(a: Self::E, b: Self::E) ensures Self::eadd(a, b) == Self::eadd(b, a);
    proof fn eadd_assoc(a: Self::E, b: Self::E, c: Self::E) ensures Self::eadd(Self::eadd(a, b), c) == Self::eadd(a, Self::eadd(b, c));
    proof fn eadd_id(a: Self::E) ensures Self::eadd(a, Self::eid()) == a;
    proof fn smul_add(p: Self::E, a: Self::S, b: Self::S) ensures Self::smul(p, Self::add(a, b)) == Self::eadd(Self::smul(p, a), Self::smul(p, b));
    proof fn smul_mul(p: Self::E, a: Self::S, b: Self::S) ensures Self::smul(Self::smul(p, a), b) == Self::smul(p, Self::mul(a, b));
    proof fn smul_zero(p: Self::E) ensures Self::smul(p, Self::zero()) == Self::eid();
    proof fn smul_dist(p: Self::E, q: Self::E, a: Self::S) ensures Self::smul(Self::eadd(p, q), a) == Self::eadd(Self::smul(p, a), Self::smul(q, a));
    proof fn smul_id(a: Self::S) ensures Self::smul(Self::eid(), a) == Self::eid();
}


pub struct Sg<A: Alg> { pub d: A::S, pub e: A::S, pub rho: A::S, pub lam: A::S, pub s: A::S }

pub open spec fn zi<A: Alg>(g: Sg<A>, eps: A::S, sig: A::S, c: A::S) -> A::S {
    A::add(A::mul(eps, A::add(g.d, A::mul(g.e, g.rho))), A::mul(A::mul(g.lam, A::mul(sig, g.s)), c))
}
pub open spec fn sum_z<A: Alg>(v: Seq<Sg<A>>, eps: A::S, sig: A::S, c: A::S) -> A::S decreases v.len()
{ if v.len() == 0 { A::zero() } else { A::add(sum_z::<A>(v.drop_last(), eps, sig, c), zi::<A>(v.last(), eps, sig, c)) } }
pub open spec fn sum_r<A: Alg>(g: A::E, v: Seq<Sg<A>>) -> A::E decreases v.len()
{ if v.len() == 0 { A::eid() } else { A::eadd(sum_r::<A>(g, v.drop_last()), A::eadd(A::smul(g, v.last().d), A::smul(A::smul(g, v.last().e), v.last().rho))) } }
pub open spec fn sum_ls<A: Alg>(v: Seq<Sg<A>>) -> A::S decreases v.len()
{ if v.len() == 0 { A::zero() } else { A::add(sum_ls::<A>(v.drop_last()), A::mul(v.last().lam, v.last().s)) } }

// G*(sum z_i) == (sum R_i)*eps + (G*(sig * sum lam_i s_i))*c
pub proof fn lemma_agg<A: Alg>(g: A::E, v: Seq<Sg<A>>, eps: A::S, sig: A::S, c: A::S)
    ensures A::smul(g, sum_z::<A>(v, eps, sig, c))
         == A::eadd(A::smul(sum_r::<A>(g, v), eps), A::smul(A::smul(g, A::mul(sig, sum_ls::<A>(v))), c))
    decreases v.len()
{
    if v.len() == 0 {
        A::smul_zero(g);
        A::smul_id(eps);
        A::mul_zero(sig);
        A::smul_id(c);
        A::eadd_id(A::eid());
    } else {
        let w = v.drop_last(); let x = v.last();
        lemma_agg::<A>(g, w, eps, sig, c);
        let zw = sum_z::<A>(w, eps, sig, c);
        let nonce = A::add(x.d, A::mul(x.e, x.rho));
        let t1 = A::mul(eps, nonce);
        let t2 = A::mul(A::mul(x.lam, A::mul(sig, x.s)), c);
        // G*(zw + (t1 + t2)) = G*zw + (G*t1 + G*t2)
        A::smul_add(g, zw, A::add(t1, t2));
        A::smul_add(g, t1, t2);
        // G*t1 = (G*nonce)*eps = (G*d + (G*e)*rho)*eps
        A::mul_comm(eps, nonce);
        A::smul_mul(g, nonce, eps);
        A::smul_add(g, x.d, A::mul(x.e, x.rho));
        A::smul_mul(g, x.e, x.rho);
        let ri = A::eadd(A::smul(g, x.d), A::smul(A::smul(g, x.e), x.rho));
        assert(A::smul(g, t1) == A::smul(ri, eps));
        // G*t2 = (G*(sig*(lam*s)))*c
        A::mul_comm(x.lam, A::mul(sig, x.s));
        A::mul_assoc(sig, x.s, x.lam);
        A::mul_comm(x.s, x.lam);
        A::smul_mul(g, A::mul(sig, A::mul(x.lam, x.s)), c);
        let ki = A::mul(sig, A::mul(x.lam, x.s));
        assert(A::smul(g, t2) == A::smul(A::smul(g, ki), c));
        // regroup: sums
        let rw = sum_r::<A>(g, w); let lw = sum_ls::<A>(w);
        A::smul_dist(rw, ri, eps);
        A::distrib(sig, lw, A::mul(x.lam, x.s));
        A::smul_add(g, A::mul(sig, lw), ki);
        A::smul_dist(A::smul(g, A::mul(sig, lw)), A::smul(g, ki), c);
        // (a + b) + (c + d) = (a + c) + (b + d)
        let a = A::smul(rw, eps); let b = A::smul(A::smul(g, A::mul(sig, lw)), c);
        let cc = A::smul(ri, eps); let dd = A::smul(A::smul(g, ki), c);
        A::eadd_assoc(a, b, A::eadd(cc, dd));
        A::eadd_assoc(b, cc, dd);
        A::eadd_comm(b, cc);
        A::eadd_assoc(cc, b, dd);
        A::eadd_assoc(a, cc, A::eadd(b, dd));
    }
}
}
fn main() {}
