#![allow(unused_imports)]
use vstd::prelude::*;
use vstd::std_specs::cmp::*;
use vstd::std_specs::btree::*;
use vstd::std_specs::iter::IteratorSpec;
use std::collections::BTreeMap;
use core::cmp::Ordering;
verus! {

#[derive(Clone, Copy)]
pub struct Id(pub u64);

pub uninterp spec fn id_cmp(a: Id, b: Id) -> Ordering;

impl PartialEqSpecImpl for Id {
    open spec fn obeys_eq_spec() -> bool { true }
    open spec fn eq_spec(&self, other: &Self) -> bool { self.0 == other.0 }
}
impl PartialEq for Id { fn eq(&self, other: &Self) -> (r: bool) { self.0 == other.0 } }
impl Eq for Id {}
impl PartialOrdSpecImpl for Id {
    open spec fn obeys_partial_cmp_spec() -> bool { true }
    open spec fn partial_cmp_spec(&self, other: &Self) -> Option<Ordering> { Some(id_cmp(*self, *other)) }
}
impl PartialOrd for Id {
    #[verifier::external_body]
    fn partial_cmp(&self, other: &Self) -> (r: Option<Ordering>) { Some(self.0.cmp(&other.0)) }
}
impl OrdSpecImpl for Id {
    open spec fn obeys_cmp_spec() -> bool { true }
    open spec fn cmp_spec(&self, other: &Self) -> Ordering { id_cmp(*self, *other) }
}
impl Ord for Id {
    #[verifier::external_body]
    fn cmp(&self, other: &Self) -> (r: Ordering) { self.0.cmp(&other.0) }
}

fn look(m: &BTreeMap<Id, u64>, k: Id) -> (r: Option<u64>)
    ensures r == if m@.contains_key(k) { Some(m@[k]) } else { None::<u64> }
{
    proof { assert(key_obeys_cmp_spec::<Id>()); }
    match m.get(&k) { Some(v) => Some(*v), None => None }
}

}
fn main() {}
