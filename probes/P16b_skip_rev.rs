#![allow(unused_imports)]
use vstd::prelude::*;
use vstd::std_specs::iter::IteratorSpec;
verus! {

spec fn hsum(a: Seq<u64>, x: u64) -> int decreases a.len()
{ if a.len() == 0 { 0 } else { a[0] as int + x as int * hsum(a.drop_first(), x) } }

fn ev(coefficients: &[u64]) -> (r: u64)
    requires coefficients@.len() >= 1
{
    let mut value = 0u64;
    let mut __it = coefficients.iter().skip(1).rev();
    let ghost all = __it.remaining();
    assert(all.len() == coefficients@.len() - 1);
    assert(forall|k: int| 0 <= k < all.len() ==> *all[k] == coefficients@[coefficients@.len() - 1 - k]);
    loop
        invariant __it.obeys_prophetic_iter_laws(), __it.decrease() is Some,
        decreases __it.decrease()->0
    {
        let coeff = match __it.next() { None => break, Some(v) => v };
        value = *coeff;
    }
    value
}
}
fn main() {}
