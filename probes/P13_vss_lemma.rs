use vstd::prelude::*;
verus! {

// abstract field + module, spec-level only
pub trait Alg {
    type S;  // scalars
    type E;  // elements
    spec fn zero() -> Self::S;
    spec fn one() -> Self::S;
    spec fn add(a: Self::S, b: Self::S) -> Self::S;
    spec fn mul(a: Self::S, b: Self::S) -> Self::S;
    spec fn eid() -> Self::E;
    spec fn eadd(a: Self::E, b: Self::E) -> Self::E;
    spec fn smul(p: Self::E, a: Self::S) -> Self::E;

    proof fn add_comm(a: Self::S, b: Self::S) ensures Self::add(a, b) == Self::add(b, a);
    proof fn add_assoc(a: Self::S, b: Self::S, c: Self::S) ensures Self::add(Self::add(a, b), c) == Self::add(a, Self::add(b, c));
    proof fn add_zero(a: Self::S) ensures Self::add(a, Self::zero()) == a;
    proof fn mul_comm(a: Self::S, b: Self::S) ensures Self::mul(a, b) == Self::mul(b, a);
    proof fn mul_assoc(a: Self::S, b: Self::S, c: Self::S) ensures Self::mul(Self::mul(a, b), c) == Self::mul(a, Self::mul(b, c));
    proof fn mul_one(a: Self::S) ensures Self::mul(a, Self::one()) == a;
    proof fn mul_zero(a: Self::S) ensures Self::mul(a, Self::zero()) == Self::zero();
    proof fn distrib(a: Self::S, b: Self::S, c: Self::S) ensures Self::mul(a, Self::add(b, c)) == Self::add(Self::mul(a, b), Self::mul(a, c));
    proof fn eadd_comm(a: Self::E, b: Self::E) ensures Self::eadd(a, b) == Self::eadd(b, a);
    proof fn eadd_assoc(a: Self::E, b: Self::E, c: Self::E) ensures Self::eadd(Self::eadd(a, b), c) == Self::eadd(a, Self::eadd(b, c));
    proof fn eadd_id(a: Self::E) ensures Self::eadd(a, Self::eid()) == a;
    proof fn smul_add(p: Self::E, a: Self::S, b: Self::S) ensures Self::smul(p, Self::add(a, b)) == Self::eadd(Self::smul(p, a), Self::smul(p, b));
    proof fn smul_mul(p: Self::E, a: Self::S, b: Self::S) ensures Self::smul(Self::smul(p, a), b) == Self::smul(p, Self::mul(a, b));
    proof fn smul_zero(p: Self::E) ensures Self::smul(p, Self::zero()) == Self::eid();
    proof fn smul_dist(p: Self::E, q: Self::E, a: Self::S) ensures Self::smul(Self::eadd(p, q), a) == Self::eadd(Self::smul(p, a), Self::smul(q, a));
    proof fn smul_id(a: Self::S) ensures Self::smul(Self::eid(), a) == Self::eid();
}

// Horner evaluation as the code does it: value = (((a_{t-1}) * x + a_{t-2}) * x ... ) + a_0
pub open spec fn horner<A: Alg>(a: Seq<A::S>, x: A::S) -> A::S
    decreases a.len()
{
    if a.len() == 0 { A::zero() } else { A::add(a[0], A::mul(horner::<A>(a.drop_first(), x), x)) }
}

// VSS right-hand side as the code folds it: sum_k comm_k * x^k, with running power
pub open spec fn vss<A: Alg>(c: Seq<A::E>, x: A::S, pw: A::S) -> A::E
    decreases c.len()
{
    if c.len() == 0 { A::eid() } else { A::eadd(A::smul(c[0], pw), vss::<A>(c.drop_first(), x, A::mul(x, pw))) }
}

pub open spec fn commit<A: Alg>(g: A::E, a: Seq<A::S>) -> Seq<A::E> { a.map_values(|s: A::S| A::smul(g, s)) }

// G * (pw * horner(a, x)) == vss(commit(G, a), x, pw)
pub proof fn lemma_vss_complete<A: Alg>(g: A::E, a: Seq<A::S>, x: A::S, pw: A::S)
    ensures A::smul(g, A::mul(pw, horner::<A>(a, x))) == vss::<A>(commit::<A>(g, a), x, pw)
    decreases a.len()
{
    if a.len() == 0 {
        A::mul_zero(pw);
        A::smul_zero(g);
    } else {
        let rest = a.drop_first();
        let h = horner::<A>(rest, x);
        lemma_vss_complete::<A>(g, rest, x, A::mul(x, pw));
        assert(commit::<A>(g, a).drop_first() =~= commit::<A>(g, rest));
        // pw * (a0 + h*x) = pw*a0 + pw*(h*x) = pw*a0 + (x*pw)*h
        A::distrib(pw, a[0], A::mul(h, x));
        A::mul_comm(h, x);
        A::mul_assoc(pw, x, h);
        A::mul_comm(pw, x);
        A::smul_add(g, A::mul(pw, a[0]), A::mul(pw, A::mul(h, x)));
        A::mul_comm(pw, a[0]);
        A::smul_mul(g, a[0], pw);
    }
}

}
fn main() {}
