#!/usr/bin/env python3
"""Development aid: print the README harness tables (markdown) from the @harness metadata and one or more result
JSONs of run_kani.py.   python3 dev_gen_table.py RESULT.json [RESULT.json ...]"""
import json
import subprocess
import sys
import os

HERE = os.path.dirname(os.path.abspath(__file__))
meta = json.loads(subprocess.run([sys.executable, os.path.join(HERE, "run_kani.py"), "--list", "--tier", "thorough"],
                                 capture_output=True, text=True, check=True).stdout)
res = {}
for p in sys.argv[1:]:
    for h in json.load(open(p))["harnesses"]:
        res[h["name"]] = h
groups = [
    ("ident", lambda h: h["module"] == "ident"),
    ("params", lambda h: h["module"] == "params"),
    ("sumc", lambda h: h["name"].startswith("sumc_")),
    ("coeffs", lambda h: h["name"].startswith("coeffs_")),
    ("codec", lambda h: h["module"] == "codec"),
    ("nopanic (deserialize entry points)", lambda h: h["module"] == "nopanic"),
    ("nopanic (scalar_mul: NAF, MSM)", lambda h: h["module"] == "scalarmul"),
    ("zeroize", lambda h: h["module"] == "zeroize_h"),
]
for title, pred in groups:
    print(f"\n### {title}\n")
    print("| harness | props | complete / bounded (bound) | tier | expect | result | wall s | peak RSS MB | checks | decides / backs |")
    print("|---|---|---|---|---|---|---|---|---|---|")
    for h in meta:
        if not pred(h):
            continue
        r = res.get(h["name"], {})
        kind = "COMPLETE" if h["kind"] == "complete" else f"BOUNDED: {h['bound']}"
        print("| `%s` | %s | %s | %s | %s | %s | %s | %s | %s | %s |" % (
            h["name"], ",".join(h["props"]), kind, h["tier"], h["expect"], r.get("status", "n/a"),
            r.get("wall_s", "n/a"), r.get("max_rss_mb", "n/a"), r.get("checks_total", "n/a"),
            h["backs"].replace("|", "\\|")))
