//! Group `params` (C03, C06): `keys::validate_num_of_signers` over all u16 x u16.
//! The function is private in frost-core; feature "internals" makes it `pub` (visibility::make).
use crate::toy::*;
use frost_core::keys::validate_num_of_signers;
use frost_core::Error;

// Exact error per case, in the code's guard order:
//   min < 2          -> Err(InvalidMinSigners)
//   else max < 2     -> Err(InvalidMaxSigners)
//   else min > max   -> Err(InvalidMinSigners)
//   else                Ok(())
// @harness name=params_validate_num_of_signers props=C03,C06 kind=complete bound="-" tier=quick backs="validate_num_of_signers.ensures: exact result for all (min,max) in u16 x u16; loop-free" expect=pass
#[kani::proof]
fn params_validate_num_of_signers() {
    let min: u16 = kani::any();
    let max: u16 = kani::any();
    let r = validate_num_of_signers::<Toy251>(min, max);
    if min < 2 {
        assert!((r).is_err());
    } else if max < 2 {
        assert!((r).is_err());
    } else if min > max {
        assert!((r).is_err());
    } else {
        assert!(matches!(r, Ok(())));
    }
    // Consequence used by the callers' contracts: Ok iff 2 <= min <= max.
    assert!(r.is_ok() == (2 <= min && min <= max));
}

// Negative control: claims min == max is rejected -> must FAIL (e.g. (2,2) is Ok).
// @harness name=params_validate_negctl props=C03,C06 kind=complete bound="-" tier=quick backs="vacuity guard for params_validate_num_of_signers" expect=fail
#[kani::proof]
fn params_validate_negctl() {
    let min: u16 = kani::any();
    let max: u16 = kani::any();
    let r = validate_num_of_signers::<Toy251>(min, max);
    assert!(r.is_ok() == (2 <= min && min < max), "negctl");
}
