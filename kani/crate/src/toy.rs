//! Toy ciphersuites for the Kani layer.  The code under verification is the REAL frost-core, monomorphised
//! at these suites; nothing in here is verified, it is the (trusted, tiny) instantiation.
//!
//! * `Toy251`    scalars and elements are Z/251, 1-byte encodings.  A genuine prime field and a genuine
//!               cyclic group of prime order 251: element = residue under addition, generator 1, scalar
//!               multiplication = multiplication mod 251.  `Field::deserialize` rejects bytes >= 251,
//!               `Group::serialize` rejects the identity 0, `Group::deserialize` rejects 0 and >= 251.
//!               `Field::random` consumes EXACTLY 2 bytes b0,b1 of the RNG and returns
//!               (b0 + 256*b1) mod 251  (see `toy251_scalar_of`).
//! * `Toy65537`  same shape over Z/65537 (> 2^16 elements, so a u16 never wraps), scalars are u32,
//!               4-byte encodings; `serialize` is BIG-endian and `little_endian_serialize` little-endian, so
//!               a mix-up of the two in `Ord for Identifier` is visible.
//! * `Wide<N>`   scalar = opaque little-endian `[u8; N]`; arithmetic is meaningless (returns lhs).  Only for
//!               `scalar_mul::non_adjacent_form`, whose sole interaction with the suite is
//!               `Field::little_endian_serialize`.  `Wide8`, `Wide32`, `Wide57`.
#![allow(non_snake_case)]
use core::ops::{Add, Mul, Sub};
use frost_core::{Ciphersuite, Field, FieldError, Group, GroupError};
use rand_core::CryptoRng;

// ------------------------------------------------------------------------------------------------
// Toy251
// ------------------------------------------------------------------------------------------------
pub const Q: u16 = 251;

/// Scalar of Toy251.  Invariant: .0 < 251.
#[derive(Clone, Copy, PartialEq, Eq, Debug)]
pub struct S(pub u8);
/// (a + b) mod 251 and (a - b) mod 251 for a, b < 251, by conditional subtraction (no division circuit:
/// `%` costs CBMC far more than a comparison).
fn add251(a: u8, b: u8) -> u8 {
    let t = a as u16 + b as u16;
    (if t >= Q { t - Q } else { t }) as u8
}
fn sub251(a: u8, b: u8) -> u8 {
    (if a >= b { a as u16 - b as u16 } else { a as u16 + Q - b as u16 }) as u8
}
impl Add for S {
    type Output = S;
    fn add(self, o: S) -> S {
        S(add251(self.0, o.0))
    }
}
impl Sub for S {
    type Output = S;
    fn sub(self, o: S) -> S {
        S(sub251(self.0, o.0))
    }
}
impl Mul for S {
    type Output = S;
    fn mul(self, o: S) -> S {
        S(((self.0 as u16 * o.0 as u16) % Q) as u8)
    }
}

/// Element of Toy251 (additive group Z/251, generator 1).  Invariant: .0 < 251.
#[derive(Clone, Copy, PartialEq, Eq, Debug)]
pub struct E(pub u8);
impl Add for E {
    type Output = E;
    fn add(self, o: E) -> E {
        E(add251(self.0, o.0))
    }
}
impl Sub for E {
    type Output = E;
    fn sub(self, o: E) -> E {
        E(sub251(self.0, o.0))
    }
}
impl Mul<S> for E {
    type Output = E;
    fn mul(self, o: S) -> E {
        E(((self.0 as u16 * o.0 as u16) % Q) as u8)
    }
}

/// The stated function of the two RNG bytes that `Field::random` of Toy251 returns.
pub fn toy251_scalar_of(b0: u8, b1: u8) -> S {
    S(((b0 as u32 + 256 * b1 as u32) % Q as u32) as u8)
}

#[derive(Clone, Copy, PartialEq, Eq, Debug)]
pub struct F251;
impl Field for F251 {
    type Scalar = S;
    type Serialization = [u8; 1];
    fn zero() -> S {
        S(0)
    }
    fn one() -> S {
        S(1)
    }
    fn invert(s: &S) -> Result<S, FieldError> {
        if s.0 == 0 {
            return Err(FieldError::InvalidZeroScalar);
        }
        // s^(Q-2), square and multiply, 8 iterations (unwind >= 9 if a harness reaches this).
        let (mut r, mut b, mut e) = (1u32, s.0 as u32, (Q - 2) as u32);
        while e > 0 {
            if e & 1 == 1 {
                r = r * b % Q as u32;
            }
            b = b * b % Q as u32;
            e >>= 1;
        }
        Ok(S(r as u8))
    }
    fn random<R: CryptoRng>(rng: &mut R) -> S {
        let mut b = [0u8; 2];
        rng.fill_bytes(&mut b);
        toy251_scalar_of(b[0], b[1])
    }
    fn serialize(s: &S) -> [u8; 1] {
        [s.0]
    }
    fn little_endian_serialize(s: &S) -> [u8; 1] {
        [s.0]
    }
    fn deserialize(b: &[u8; 1]) -> Result<S, FieldError> {
        if (b[0] as u16) < Q {
            Ok(S(b[0]))
        } else {
            Err(FieldError::MalformedScalar)
        }
    }
}

#[derive(Clone, Copy, PartialEq, Eq, Debug)]
pub struct G251;
impl Group for G251 {
    type Field = F251;
    type Element = E;
    type Serialization = [u8; 1];
    fn cofactor() -> S {
        S(1)
    }
    fn identity() -> E {
        E(0)
    }
    fn generator() -> E {
        E(1)
    }
    fn serialize(e: &E) -> Result<[u8; 1], GroupError> {
        if e.0 == 0 {
            Err(GroupError::InvalidIdentityElement)
        } else {
            Ok([e.0])
        }
    }
    fn deserialize(b: &[u8; 1]) -> Result<E, GroupError> {
        if b[0] == 0 {
            Err(GroupError::InvalidIdentityElement)
        } else if (b[0] as u16) < Q {
            Ok(E(b[0]))
        } else {
            Err(GroupError::MalformedElement)
        }
    }
}

/// Deterministic byte-fold "hash" into Z/251.
fn h251(tag: u32, m: &[u8]) -> u8 {
    let mut a = tag;
    for x in m {
        a = (a * 31 + *x as u32) % Q as u32;
    }
    a as u8
}

#[derive(Clone, Copy, PartialEq, Eq, Debug)]
pub struct Toy251;
impl Ciphersuite for Toy251 {
    const ID: &'static str = "TOY251";
    type Group = G251;
    type HashOutput = [u8; 1];
    type SignatureSerialization = [u8; 2];
    fn H1(m: &[u8]) -> S {
        S(h251(1, m))
    }
    fn H2(m: &[u8]) -> S {
        S(h251(2, m))
    }
    fn H3(m: &[u8]) -> S {
        S(h251(3, m))
    }
    fn H4(m: &[u8]) -> [u8; 1] {
        [h251(4, m)]
    }
    fn H5(m: &[u8]) -> [u8; 1] {
        [h251(5, m)]
    }
    fn HDKG(m: &[u8]) -> Option<S> {
        Some(S(h251(6, m)))
    }
    fn HID(m: &[u8]) -> Option<S> {
        Some(S(h251(7, m)))
    }
}

// ------------------------------------------------------------------------------------------------
// Toy65537: field with more than 2^16 elements
// ------------------------------------------------------------------------------------------------
pub const QW: u32 = 65537;

#[derive(Clone, Copy, PartialEq, Eq, Debug)]
pub struct SW(pub u32);
fn addw(a: u32, b: u32) -> u32 {
    let t = a + b;
    if t >= QW {
        t - QW
    } else {
        t
    }
}
fn subw(a: u32, b: u32) -> u32 {
    if a >= b {
        a - b
    } else {
        a + QW - b
    }
}
impl Add for SW {
    type Output = SW;
    fn add(self, o: SW) -> SW {
        SW(addw(self.0, o.0))
    }
}
impl Sub for SW {
    type Output = SW;
    fn sub(self, o: SW) -> SW {
        SW(subw(self.0, o.0))
    }
}
impl Mul for SW {
    type Output = SW;
    fn mul(self, o: SW) -> SW {
        SW(((self.0 as u64 * o.0 as u64) % QW as u64) as u32)
    }
}
#[derive(Clone, Copy, PartialEq, Eq, Debug)]
pub struct EW(pub u32);
impl Add for EW {
    type Output = EW;
    fn add(self, o: EW) -> EW {
        EW(addw(self.0, o.0))
    }
}
impl Sub for EW {
    type Output = EW;
    fn sub(self, o: EW) -> EW {
        EW(subw(self.0, o.0))
    }
}
impl Mul<SW> for EW {
    type Output = EW;
    fn mul(self, o: SW) -> EW {
        EW(((self.0 as u64 * o.0 as u64) % QW as u64) as u32)
    }
}

#[derive(Clone, Copy, PartialEq, Eq, Debug)]
pub struct F65537;
impl Field for F65537 {
    type Scalar = SW;
    type Serialization = [u8; 4];
    fn zero() -> SW {
        SW(0)
    }
    fn one() -> SW {
        SW(1)
    }
    fn invert(s: &SW) -> Result<SW, FieldError> {
        if s.0 == 0 {
            return Err(FieldError::InvalidZeroScalar);
        }
        let (mut r, mut b, mut e) = (1u64, s.0 as u64, (QW - 2) as u64);
        while e > 0 {
            if e & 1 == 1 {
                r = r * b % QW as u64;
            }
            b = b * b % QW as u64;
            e >>= 1;
        }
        Ok(SW(r as u32))
    }
    fn random<R: CryptoRng>(rng: &mut R) -> SW {
        let mut b = [0u8; 4];
        rng.fill_bytes(&mut b);
        SW(u32::from_le_bytes(b) % QW)
    }
    /// BIG-endian on purpose (like P-256 / secp256k1).
    fn serialize(s: &SW) -> [u8; 4] {
        s.0.to_be_bytes()
    }
    fn little_endian_serialize(s: &SW) -> [u8; 4] {
        s.0.to_le_bytes()
    }
    fn deserialize(b: &[u8; 4]) -> Result<SW, FieldError> {
        let v = u32::from_be_bytes(*b);
        if v < QW {
            Ok(SW(v))
        } else {
            Err(FieldError::MalformedScalar)
        }
    }
}
#[derive(Clone, Copy, PartialEq, Eq, Debug)]
pub struct G65537;
impl Group for G65537 {
    type Field = F65537;
    type Element = EW;
    type Serialization = [u8; 4];
    fn cofactor() -> SW {
        SW(1)
    }
    fn identity() -> EW {
        EW(0)
    }
    fn generator() -> EW {
        EW(1)
    }
    fn serialize(e: &EW) -> Result<[u8; 4], GroupError> {
        if e.0 == 0 {
            Err(GroupError::InvalidIdentityElement)
        } else {
            Ok(e.0.to_be_bytes())
        }
    }
    fn deserialize(b: &[u8; 4]) -> Result<EW, GroupError> {
        let v = u32::from_be_bytes(*b);
        if v == 0 {
            Err(GroupError::InvalidIdentityElement)
        } else if v < QW {
            Ok(EW(v))
        } else {
            Err(GroupError::MalformedElement)
        }
    }
}
fn hw(tag: u32, m: &[u8]) -> u32 {
    let mut a = tag as u64;
    for x in m {
        a = (a * 31 + *x as u64) % QW as u64;
    }
    a as u32
}
#[derive(Clone, Copy, PartialEq, Eq, Debug)]
pub struct Toy65537;
impl Ciphersuite for Toy65537 {
    const ID: &'static str = "TOY65537";
    type Group = G65537;
    type HashOutput = [u8; 4];
    type SignatureSerialization = [u8; 8];
    fn H1(m: &[u8]) -> SW {
        SW(hw(1, m))
    }
    fn H2(m: &[u8]) -> SW {
        SW(hw(2, m))
    }
    fn H3(m: &[u8]) -> SW {
        SW(hw(3, m))
    }
    fn H4(m: &[u8]) -> [u8; 4] {
        hw(4, m).to_be_bytes()
    }
    fn H5(m: &[u8]) -> [u8; 4] {
        hw(5, m).to_be_bytes()
    }
    fn HDKG(m: &[u8]) -> Option<SW> {
        Some(SW(hw(6, m)))
    }
    fn HID(m: &[u8]) -> Option<SW> {
        Some(SW(hw(7, m)))
    }
}

// ------------------------------------------------------------------------------------------------
// Wide<N>: opaque little-endian byte-array scalars for the NAF recoder
// ------------------------------------------------------------------------------------------------
#[derive(Clone, Copy, PartialEq, Eq, Debug)]
pub struct W<const N: usize>(pub [u8; N]);
impl<const N: usize> Add for W<N> {
    type Output = Self;
    fn add(self, _o: Self) -> Self {
        self
    }
}
impl<const N: usize> Sub for W<N> {
    type Output = Self;
    fn sub(self, _o: Self) -> Self {
        self
    }
}
impl<const N: usize> Mul for W<N> {
    type Output = Self;
    fn mul(self, _o: Self) -> Self {
        self
    }
}
#[derive(Clone, Copy, PartialEq, Eq, Debug)]
pub struct WideField<const N: usize>;
impl<const N: usize> Field for WideField<N> {
    type Scalar = W<N>;
    type Serialization = [u8; N];
    fn zero() -> W<N> {
        W([0; N])
    }
    fn one() -> W<N> {
        let mut b = [0; N];
        b[0] = 1;
        W(b)
    }
    fn invert(s: &W<N>) -> Result<W<N>, FieldError> {
        Ok(*s)
    }
    fn random<R: CryptoRng>(rng: &mut R) -> W<N> {
        let mut b = [0u8; N];
        rng.fill_bytes(&mut b);
        W(b)
    }
    fn serialize(s: &W<N>) -> [u8; N] {
        s.0
    }
    fn little_endian_serialize(s: &W<N>) -> [u8; N] {
        s.0
    }
    fn deserialize(b: &[u8; N]) -> Result<W<N>, FieldError> {
        Ok(W(*b))
    }
}
#[derive(Clone, Copy, PartialEq, Eq, Debug)]
pub struct WideGroup<const N: usize>;
impl<const N: usize> Group for WideGroup<N> {
    type Field = WideField<N>;
    type Element = W<N>;
    type Serialization = [u8; N];
    fn cofactor() -> W<N> {
        WideField::<N>::one()
    }
    fn identity() -> W<N> {
        W([0; N])
    }
    fn generator() -> W<N> {
        WideField::<N>::one()
    }
    fn serialize(e: &W<N>) -> Result<[u8; N], GroupError> {
        Ok(e.0)
    }
    fn deserialize(b: &[u8; N]) -> Result<W<N>, GroupError> {
        Ok(W(*b))
    }
}
#[derive(Clone, Copy, PartialEq, Eq, Debug)]
pub struct Wide<const N: usize>;
impl<const N: usize> Ciphersuite for Wide<N> {
    const ID: &'static str = "WIDE";
    type Group = WideGroup<N>;
    type HashOutput = [u8; 1];
    type SignatureSerialization = Vec<u8>;
    fn H1(_m: &[u8]) -> W<N> {
        W([0; N])
    }
    fn H2(_m: &[u8]) -> W<N> {
        W([0; N])
    }
    fn H3(_m: &[u8]) -> W<N> {
        W([0; N])
    }
    fn H4(_m: &[u8]) -> [u8; 1] {
        [0]
    }
    fn H5(_m: &[u8]) -> [u8; 1] {
        [0]
    }
}
pub type Wide8 = Wide<8>;
pub type Wide32 = Wide<32>;
pub type Wide57 = Wide<57>;
