//! Group `codec` (C12, C13): postcard round trips of every wire / stored type, the header check, and
//! canonicity of the primitive (fixed-size) encodings — all on the real frost-core at `Toy251`.
//!
//! Encodable values only: `Group::serialize` rejects the identity, so every element put into a value is
//! assumed non-identity (and the harnesses assert that `serialize()` then succeeds).
use crate::common::*;
use crate::toy::*;
use frost_core::keys::dkg;
use frost_core::keys::{KeyPackage, PublicKeyPackage, SecretShare, SigningShare, VerifyingShare};
use frost_core::round1::{Nonce, NonceCommitment, SigningCommitments, SigningNonces};
use frost_core::round2::SignatureShare;
use frost_core::serialization::SerializableScalar;
use frost_core::{
    Error, FieldError, GroupError, Identifier, Signature, SigningKey, SigningPackage, VerifyingKey, __verif,
};
use std::collections::BTreeMap;

/// CRC-32 (IEEE, zlib.crc32) of b"TOY251", big endian — computed outside Rust (python zlib), so the header
/// harness has an oracle independent of const-crc32.
pub const TOY251_SHORT_ID: [u8; 4] = [0x9e, 0x7b, 0x97, 0x80];

macro_rules! roundtrip {
    ($x:expr, $ty:ty) => {{
        let x = $x;
        match x.serialize() {
            Err(_) => {
                assert!(false, "serialize failed on an encodable value");
            }
            Ok(bytes) => match <$ty>::deserialize(&bytes) {
                Err(_) => {
                    assert!(false, "deserialize(serialize(x)) failed");
                }
                Ok(y) => {
                    assert!(y == x, "deserialize(serialize(x)) != x");
                }
            },
        }
    }};
}

fn any_keypackage() -> KeyPackage<Toy251> {
    KeyPackage::<Toy251>::new(
        any_id(),
        share(any_s()),
        vshare(any_e_nz()),
        vkey(any_e_nz()),
        kani::any(),
    )
}

// ---------------------------------------------------------------------------------------------
// fixed-size types: loop bounds are fixed by the encoding widths -> complete for Toy251
// ---------------------------------------------------------------------------------------------

// @harness name=codec_rt_keypackage props=C12,C13 kind=complete bound="-" tier=quick backs="KeyPackage postcard round trip: deserialize(serialize(x)) == Ok(x), all field values (all ids, shares, non-identity elements, min_signers: u16)" expect=pass
#[kani::proof]
#[kani::unwind(8)]
#[kani::stub(zeroize::barrier::optimization_barrier, noop_barrier)]
fn codec_rt_keypackage() {
    roundtrip!(any_keypackage(), KeyPackage<Toy251>);
}

// Negative control: claims the round trip changes nothing even if we then compare against a value with a
// different min_signers -> must FAIL.
// @harness name=codec_rt_negctl props=C12,C13 kind=complete bound="-" tier=quick backs="vacuity guard for the codec_rt_* harnesses" expect=fail
#[kani::proof]
#[kani::unwind(8)]
#[kani::stub(zeroize::barrier::optimization_barrier, noop_barrier)]
fn codec_rt_negctl() {
    let x = any_keypackage();
    if let Ok(bytes) = x.serialize() {
        if let Ok(y) = KeyPackage::<Toy251>::deserialize(&bytes) {
            assert!(*y.min_signers() == 7, "negctl");
        }
    }
}

// @harness name=codec_rt_signing_nonces props=C12,C13 kind=complete bound="-" tier=quick backs="round1::SigningNonces postcard round trip, all non-zero nonce pairs (commitments derived by from_nonces)" expect=pass
#[kani::proof]
#[kani::unwind(8)]
#[kani::stub(zeroize::barrier::optimization_barrier, noop_barrier)]
fn codec_rt_signing_nonces() {
    let x = SigningNonces::<Toy251>::from_nonces(
        Nonce::<Toy251>::from_scalar(any_s_nz()),
        Nonce::<Toy251>::from_scalar(any_s_nz()),
    );
    roundtrip!(x, SigningNonces<Toy251>);
}

fn any_signing_commitments() -> SigningCommitments<Toy251> {
    SigningCommitments::<Toy251>::new(
        NonceCommitment::<Toy251>::new(any_e_nz()),
        NonceCommitment::<Toy251>::new(any_e_nz()),
    )
}

// @harness name=codec_rt_signing_commitments props=C12 kind=complete bound="-" tier=quick backs="round1::SigningCommitments postcard round trip, all non-identity pairs" expect=pass
#[kani::proof]
#[kani::unwind(8)]
fn codec_rt_signing_commitments() {
    roundtrip!(any_signing_commitments(), SigningCommitments<Toy251>);
}

// round2::SignatureShare: the public API is the raw scalar encoding (serialize() -> Vec<u8>, infallible);
// the serde derive (used when the type is embedded / sent through postcard by applications) is exercised
// through postcard directly.
// @harness name=codec_rt_signature_share props=C12 kind=complete bound="-" tier=quick backs="round2::SignatureShare: raw round trip deserialize(serialize(x)) == Ok(x) and postcard (serde derive) round trip, all scalars" expect=pass
#[kani::proof]
#[kani::unwind(8)]
fn codec_rt_signature_share() {
    let s = any_s();
    let x = __verif::signature_share_new::<Toy251>(s);
    let raw = x.serialize();
    assert!(raw.len() == 1 && raw[0] == s.0);
    match SignatureShare::<Toy251>::deserialize(&raw) {
        Ok(y) => {
            assert!(y == x);
        }
        Err(_) => {
            assert!(false, "raw deserialize failed");
        }
    }
    match postcard::to_allocvec(&x) {
        Err(_) => {
            assert!(false, "postcard serialize failed");
        }
        Ok(bytes) => match postcard::from_bytes::<SignatureShare<Toy251>>(&bytes) {
            Ok(y) => {
                assert!(y == x);
            }
            Err(_) => {
                assert!(false, "postcard deserialize failed");
            }
        },
    }
}

// @harness name=codec_rt_dkg_round2_package props=C12 kind=complete bound="-" tier=quick backs="keys::dkg::round2::Package postcard round trip, all signing shares" expect=pass
#[kani::proof]
#[kani::unwind(8)]
#[kani::stub(zeroize::barrier::optimization_barrier, noop_barrier)]
fn codec_rt_dkg_round2_package() {
    roundtrip!(dkg::round2::Package::<Toy251>::new(share(any_s())), dkg::round2::Package<Toy251>);
}

// Signature: Ciphersuite::serialize_signature / deserialize_signature defaults (R || z).
// @harness name=codec_rt_signature props=C12 kind=complete bound="-" tier=quick backs="Signature::default_serialize/default_deserialize: round trip for all (R != identity, z); serialize fails with GroupError(InvalidIdentityElement) iff R is the identity; encoding is enc(R) || enc(z)" expect=pass
#[kani::proof]
#[kani::unwind(8)]
#[kani::stub(std::fmt::format, stub_format)]
fn codec_rt_signature() {
    let (r, z) = (any_e(), any_s());
    let x = Signature::<Toy251>::new(r, z);
    match x.serialize() {
        Err(e) => {
            assert!(r.0 == 0);
            assert!(matches!(e, Error::GroupError(GroupError::InvalidIdentityElement)));
        }
        Ok(bytes) => {
            assert!(r.0 != 0);
            assert!(bytes.len() == 2 && bytes[0] == r.0 && bytes[1] == z.0);
            match Signature::<Toy251>::deserialize(&bytes) {
                Ok(y) => {
                    assert!(y == x);
                }
                Err(_) => {
                    assert!(false, "deserialize(serialize(sig)) failed");
                }
            }
        }
    }
}

// ---------------------------------------------------------------------------------------------
// variable-size types: bounded in the container lengths
// ---------------------------------------------------------------------------------------------

// @harness name=codec_rt_secret_share props=C12 kind=bounded bound="commitment length in {0,1,2}" tier=quick backs="SecretShare postcard round trip, all ids / shares / non-identity coefficient commitments" expect=pass
#[kani::proof]
#[kani::unwind(8)]
#[kani::stub(zeroize::barrier::optimization_barrier, noop_barrier)]
fn codec_rt_secret_share() {
    let mut len = 0;
    while len <= 2 {
        let x = SecretShare::<Toy251>::new(any_id(), share(any_s()), any_commitment_nz(len));
        roundtrip!(x, SecretShare<Toy251>);
        len += 1;
    }
}

fn pkp(entries: usize, min_signers: Option<u16>) -> PublicKeyPackage<Toy251> {
    let mut m = BTreeMap::new();
    if entries >= 1 {
        m.insert(id(1), vshare(any_e_nz()));
    }
    if entries >= 2 {
        m.insert(id(2), vshare(any_e_nz()));
    }
    PublicKeyPackage::<Toy251>::new(m, vkey(any_e_nz()), min_signers)
}

// @harness name=codec_rt_public_key_package_some props=C12,C13 kind=bounded bound="2 entries with the concrete keys 1, 2; min_signers = Some(any u16)" tier=quick backs="PublicKeyPackage postcard round trip (custom Deserialize impl, serialization.rs:259-490), symbolic verifying shares / key / threshold" expect=pass
#[kani::proof]
#[kani::unwind(8)]
fn codec_rt_public_key_package_some() {
    roundtrip!(pkp(2, Some(kani::any())), PublicKeyPackage<Toy251>);
}

// @harness name=codec_rt_public_key_package_none props=C12,C13 kind=bounded bound="2 entries with the concrete keys 1, 2; min_signers = None (pre-3.0 format: field absent on the wire)" tier=quick backs="PublicKeyPackage legacy format: encoding without threshold decodes with min_signers == None and equals the original" expect=pass
#[kani::proof]
#[kani::unwind(8)]
fn codec_rt_public_key_package_none() {
    let x = pkp(2, None);
    // the legacy encoding really has no threshold bytes: header(5) + map(1 + 2*2) + key(1)
    if let Ok(b) = x.serialize() {
        assert!(b.len() == 11);
    }
    roundtrip!(x, PublicKeyPackage<Toy251>);
}

// @harness name=codec_rt_public_key_package_small props=C12,C13 kind=bounded bound="0 and 1 entries (key 1); min_signers = Some(any) and None" tier=quick backs="PublicKeyPackage postcard round trip, small maps" expect=pass
#[kani::proof]
#[kani::unwind(8)]
fn codec_rt_public_key_package_small() {
    roundtrip!(pkp(0, Some(kani::any())), PublicKeyPackage<Toy251>);
    roundtrip!(pkp(1, Some(kani::any())), PublicKeyPackage<Toy251>);
    roundtrip!(pkp(0, None), PublicKeyPackage<Toy251>);
    roundtrip!(pkp(1, None), PublicKeyPackage<Toy251>);
}

fn signing_package(entries: usize, msg_len: usize) -> SigningPackage<Toy251> {
    let mut m = BTreeMap::new();
    if entries >= 1 {
        m.insert(id(1), any_signing_commitments());
    }
    if entries >= 2 {
        m.insert(id(2), any_signing_commitments());
    }
    let msg: [u8; 2] = kani::any();
    SigningPackage::<Toy251>::new(m, &msg[..msg_len])
}

// @harness name=codec_rt_signing_package props=C12 kind=bounded bound="2 entries (concrete keys 1, 2), message length 2, all commitment values and message bytes" tier=quick backs="SigningPackage postcard round trip" expect=pass
#[kani::proof]
#[kani::unwind(8)]
fn codec_rt_signing_package() {
    roundtrip!(signing_package(2, 2), SigningPackage<Toy251>);
}

// @harness name=codec_rt_signing_package_small props=C12 kind=bounded bound="(entries, message length) in {(0,0), (1,1), (1,0)}" tier=quick backs="SigningPackage postcard round trip, small shapes" expect=pass
#[kani::proof]
#[kani::unwind(8)]
fn codec_rt_signing_package_small() {
    roundtrip!(signing_package(0, 0), SigningPackage<Toy251>);
    roundtrip!(signing_package(1, 1), SigningPackage<Toy251>);
    roundtrip!(signing_package(1, 0), SigningPackage<Toy251>);
}

// @harness name=codec_rt_dkg_round1_package props=C12 kind=bounded bound="commitment length in {1,2}" tier=quick backs="keys::dkg::round1::Package postcard round trip (commitment + proof of knowledge Signature), all non-identity commitments, R != identity, all z" expect=pass
#[kani::proof]
#[kani::unwind(8)]
#[kani::stub(std::fmt::format, stub_format)]
fn codec_rt_dkg_round1_package() {
    let mut len = 1;
    while len <= 2 {
        let x = dkg::round1::Package::<Toy251>::new(
            any_commitment_nz(len),
            Signature::<Toy251>::new(any_e_nz(), any_s()),
        );
        roundtrip!(x, dkg::round1::Package<Toy251>);
        len += 1;
    }
}

// @harness name=codec_rt_dkg_round1_secret_package props=C12,C13 kind=bounded bound="coefficients length 2 and commitment length 2; and (1,1); all scalar/element values, min/max: u16" tier=quick backs="keys::dkg::round1::SecretPackage postcard round trip (state stored between DKG rounds)" expect=pass
#[kani::proof]
#[kani::unwind(8)]
#[kani::stub(zeroize::barrier::optimization_barrier, noop_barrier)]
fn codec_rt_dkg_round1_secret_package() {
    let x = dkg::round1::SecretPackage::<Toy251>::new(
        any_id(),
        vec![any_s(), any_s()],
        any_commitment_nz(2),
        kani::any(),
        kani::any(),
    );
    roundtrip!(x, dkg::round1::SecretPackage<Toy251>);
    let x = dkg::round1::SecretPackage::<Toy251>::new(
        any_id(),
        vec![any_s()],
        any_commitment_nz(1),
        kani::any(),
        kani::any(),
    );
    roundtrip!(x, dkg::round1::SecretPackage<Toy251>);
}

// The refresh variant stores a commitment WITHOUT the constant-term entry (identity stripped): shapes with
// |commitment| == |coefficients| - 1.
// @harness name=codec_rt_dkg_round1_secret_package_refresh props=C13 kind=bounded bound="(coefficients, commitment) lengths (2,1) and (3,2)" tier=quick backs="refresh_dkg_part1 state: dkg::round1::SecretPackage whose commitment lacks the identity entry round-trips" expect=pass
#[kani::proof]
#[kani::unwind(8)]
#[kani::stub(zeroize::barrier::optimization_barrier, noop_barrier)]
fn codec_rt_dkg_round1_secret_package_refresh() {
    let x = dkg::round1::SecretPackage::<Toy251>::new(
        any_id(),
        vec![S(0), any_s()],
        any_commitment_nz(1),
        kani::any(),
        kani::any(),
    );
    roundtrip!(x, dkg::round1::SecretPackage<Toy251>);
    let x = dkg::round1::SecretPackage::<Toy251>::new(
        any_id(),
        vec![S(0), any_s(), any_s()],
        any_commitment_nz(2),
        kani::any(),
        kani::any(),
    );
    roundtrip!(x, dkg::round1::SecretPackage<Toy251>);
}

// @harness name=codec_rt_dkg_round2_secret_package props=C12,C13 kind=bounded bound="commitment length in {1,2}" tier=quick backs="keys::dkg::round2::SecretPackage postcard round trip (state stored between DKG rounds)" expect=pass
#[kani::proof]
#[kani::unwind(8)]
#[kani::stub(zeroize::barrier::optimization_barrier, noop_barrier)]
fn codec_rt_dkg_round2_secret_package() {
    let mut len = 1;
    while len <= 2 {
        let x = dkg::round2::SecretPackage::<Toy251>::new(
            any_id(),
            any_commitment_nz(len),
            any_s(),
            kani::any(),
            kani::any(),
        );
        roundtrip!(x, dkg::round2::SecretPackage<Toy251>);
        len += 1;
    }
}

// ---------------------------------------------------------------------------------------------
// header
// ---------------------------------------------------------------------------------------------

// For ALL version bytes and ALL 4 ciphersuite-id bytes: decoding a KeyPackage succeeds iff version == 0 and
// id == CRC32("TOY251") big-endian; and the encoder emits exactly that header.
// @harness name=codec_header_keypackage props=C12 kind=complete bound="-" tier=quick backs="Header: version_deserialize / ciphersuite_deserialize accept exactly (0, CRC32(ID) BE); all 2^40 header values, body = a valid KeyPackage body" expect=pass
#[kani::proof]
#[kani::unwind(8)]
#[kani::stub(zeroize::barrier::optimization_barrier, noop_barrier)]
fn codec_header_keypackage() {
    let x = KeyPackage::<Toy251>::new(id(3), share(S(5)), vshare(E(7)), vkey(E(9)), 2);
    let mut bytes = match x.serialize() {
        Ok(b) => b,
        Err(_) => {
            assert!(false, "serialize failed");
            return;
        }
    };
    // header(5) id(1) share(1) vshare(1) vkey(1) min_signers(1)
    assert!(bytes.len() == 10);
    assert!(bytes[0] == 0);
    assert!(bytes[1] == TOY251_SHORT_ID[0] && bytes[2] == TOY251_SHORT_ID[1]);
    assert!(bytes[3] == TOY251_SHORT_ID[2] && bytes[4] == TOY251_SHORT_ID[3]);
    let hdr: [u8; 5] = kani::any();
    bytes[0] = hdr[0];
    bytes[1] = hdr[1];
    bytes[2] = hdr[2];
    bytes[3] = hdr[3];
    bytes[4] = hdr[4];
    let good = hdr[0] == 0
        && hdr[1] == TOY251_SHORT_ID[0]
        && hdr[2] == TOY251_SHORT_ID[1]
        && hdr[3] == TOY251_SHORT_ID[2]
        && hdr[4] == TOY251_SHORT_ID[3];
    match KeyPackage::<Toy251>::deserialize(&bytes) {
        Ok(y) => {
            assert!(good);
            assert!(y == x);
        }
        Err(e) => {
            assert!(!good);
            assert!(matches!(e, Error::DeserializationError));
        }
    }
}

// Negative control: claims any version byte is accepted -> must FAIL.
// @harness name=codec_header_negctl props=C12 kind=complete bound="-" tier=quick backs="vacuity guard for codec_header_keypackage" expect=fail
#[kani::proof]
#[kani::unwind(8)]
#[kani::stub(zeroize::barrier::optimization_barrier, noop_barrier)]
fn codec_header_negctl() {
    let x = KeyPackage::<Toy251>::new(id(3), share(S(5)), vshare(E(7)), vkey(E(9)), 2);
    if let Ok(mut bytes) = x.serialize() {
        bytes[0] = kani::any();
        assert!(KeyPackage::<Toy251>::deserialize(&bytes).is_ok(), "negctl");
    }
}

// What the custom PublicKeyPackage decoder does with the bytes after the verifying key (the optional
// threshold): it NEVER fails on them.  tail == [] or tail[0] == 0 -> None; tail == [1, v<128, ..] -> Some(v);
// an invalid option tag (>= 2) or a truncated varint is swallowed into None (serialization.rs:390-393),
// and postcard ignores trailing bytes.  So the variable-size encoding is not canonical (C12 restricts
// canonicity to fixed-size encodings; stated here so that it is not mistaken for a gap).
// @harness name=codec_pkp_threshold_tail_lenient props=C12 kind=bounded bound="1 map entry; tail of 0..=2 arbitrary bytes after the verifying key" tier=quick backs="PublicKeyPackage::deserialize: decode error of the optional threshold is swallowed into min_signers == None; never Err" expect=pass
#[kani::proof]
#[kani::unwind(8)]
fn codec_pkp_threshold_tail_lenient() {
    let x = pkp(1, None);
    let base = match x.serialize() {
        Ok(b) => b,
        Err(_) => {
            assert!(false, "serialize failed");
            return;
        }
    };
    assert!(base.len() == 9);
    let t: [u8; 2] = kani::any();
    let mut tl = 0;
    while tl <= 2 {
        let mut bytes = base.clone();
        let mut i = 0;
        while i < tl {
            bytes.push(t[i]);
            i += 1;
        }
        match PublicKeyPackage::<Toy251>::deserialize(&bytes) {
            Err(_) => {
                assert!(false, "tail made the decoder fail");
            }
            Ok(y) => {
                assert!(y.verifying_key() == x.verifying_key());
                assert!(y.verifying_shares() == x.verifying_shares());
                if tl == 0 || t[0] != 1 {
                    assert!(y.min_signers().is_none());
                } else if tl == 2 && t[1] < 128 {
                    assert!(y.min_signers() == Some(t[1] as u16));
                } else if tl == 1 {
                    // tag Some, varint missing -> swallowed
                    assert!(y.min_signers().is_none());
                } else {
                    // tl == 2, t[1] >= 128: varint continues past the end -> swallowed
                    assert!(y.min_signers().is_none());
                }
            }
        }
        tl += 1;
    }
}

// ---------------------------------------------------------------------------------------------
// primitive canonicity (complete on Toy251: every byte string of every relevant length)
// ---------------------------------------------------------------------------------------------

// @harness name=codec_prim_scalar props=C12 kind=complete bound="-" tier=quick backs="SerializableScalar::deserialize (serialization.rs:42-47): lengths 0 and 2 -> Err(FieldError(MalformedScalar)); length 1: Ok(s) iff b < 251, and then s.serialize() == b (canonical); round trip for all scalars" expect=pass
#[kani::proof]
#[kani::unwind(4)]
fn codec_prim_scalar() {
    let b: [u8; 2] = kani::any();
    assert!(matches!(
        SerializableScalar::<Toy251>::deserialize(&b[..0]),
        Err(Error::FieldError(FieldError::MalformedScalar))
    ));
    assert!(matches!(
        SerializableScalar::<Toy251>::deserialize(&b[..2]),
        Err(Error::FieldError(FieldError::MalformedScalar))
    ));
    match SerializableScalar::<Toy251>::deserialize(&b[..1]) {
        Ok(s) => {
            assert!((b[0] as u16) < Q);
            let back = s.serialize();
            assert!(back.len() == 1 && back[0] == b[0]);
        }
        Err(e) => {
            assert!((b[0] as u16) >= Q);
            assert!(matches!(e, Error::FieldError(FieldError::MalformedScalar)));
        }
    }
    // round trip from the value side
    let s = any_s();
    let enc = SerializableScalar::<Toy251>(s).serialize();
    assert!(matches!(SerializableScalar::<Toy251>::deserialize(&enc), Ok(t) if t.0 == s));
}

// NOTE (what the code does): a wrong-LENGTH element encoding is reported as
// FieldError(MalformedScalar), not as a GroupError (serialization.rs:110).
// @harness name=codec_prim_element props=C12 kind=complete bound="-" tier=quick backs="SerializableElement::deserialize (serialization.rs:108-113) via VerifyingKey/VerifyingShare/CoefficientCommitment/NonceCommitment::deserialize: wrong length -> Err(FieldError(MalformedScalar)) [sic]; 0 -> GroupError(InvalidIdentityElement); >= 251 -> GroupError(MalformedElement); else Ok(e) with e.serialize() == b" expect=pass
#[kani::proof]
#[kani::unwind(4)]
fn codec_prim_element() {
    let b: [u8; 2] = kani::any();
    assert!(matches!(
        __verif::element_deserialize::<Toy251>(&b[..0]),
        Err(Error::FieldError(FieldError::MalformedScalar))
    ));
    assert!(matches!(
        __verif::element_deserialize::<Toy251>(&b[..2]),
        Err(Error::FieldError(FieldError::MalformedScalar))
    ));
    let r = __verif::element_deserialize::<Toy251>(&b[..1]);
    if b[0] == 0 {
        assert!(matches!(r, Err(Error::GroupError(GroupError::InvalidIdentityElement))));
    } else if (b[0] as u16) >= Q {
        assert!(matches!(r, Err(Error::GroupError(GroupError::MalformedElement))));
    } else {
        match r {
            Ok(e) => {
                assert!(e.0 == b[0]);
                match __verif::element_serialize::<Toy251>(&e) {
                    Ok(back) => {
                        assert!(back.len() == 1 && back[0] == b[0]);
                    }
                    Err(_) => {
                        assert!(false, "serialize of a decoded element failed");
                    }
                }
            }
            Err(_) => {
                assert!(false, "valid element encoding rejected");
            }
        }
    }
    // the four public wrappers agree with it
    let vk = VerifyingKey::<Toy251>::deserialize(&b[..1]);
    let vs = VerifyingShare::<Toy251>::deserialize(&b[..1]);
    let nc = NonceCommitment::<Toy251>::deserialize(&b[..1]);
    let cc = frost_core::keys::CoefficientCommitment::<Toy251>::deserialize(&b[..1]);
    let ok = b[0] != 0 && (b[0] as u16) < Q;
    assert!(vk.is_ok() == ok && vs.is_ok() == ok && nc.is_ok() == ok && cc.is_ok() == ok);
    if let Ok(v) = vk {
        assert!(v.to_element().0 == b[0]);
        assert!(matches!(v.serialize(), Ok(w) if w.len() == 1 && w[0] == b[0]));
    }
    if let Ok(v) = vs {
        assert!(v.to_element().0 == b[0]);
    }
    if let Ok(v) = nc {
        assert!(v.value().0 == b[0]);
    }
    if let Ok(v) = cc {
        assert!(v.value().0 == b[0]);
    }
    // the identity cannot be encoded
    assert!(matches!(
        __verif::element_serialize::<Toy251>(&E(0)),
        Err(Error::GroupError(GroupError::InvalidIdentityElement))
    ));
}

// @harness name=codec_prim_identifier props=C12 kind=complete bound="-" tier=quick backs="Identifier::deserialize: zero -> Err(FieldError(InvalidZeroScalar)); >= 251 -> Err(FieldError(MalformedScalar)); wrong length -> Err; else Ok(id) with id.serialize() == b" expect=pass
#[kani::proof]
#[kani::unwind(4)]
fn codec_prim_identifier() {
    let b: [u8; 2] = kani::any();
    assert!(Identifier::<Toy251>::deserialize(&b[..0]).is_err());
    assert!(Identifier::<Toy251>::deserialize(&b[..2]).is_err());
    let r = Identifier::<Toy251>::deserialize(&b[..1]);
    if b[0] == 0 {
        assert!(matches!(r, Err(Error::FieldError(FieldError::InvalidZeroScalar))));
    } else if (b[0] as u16) >= Q {
        assert!(matches!(r, Err(Error::FieldError(FieldError::MalformedScalar))));
    } else {
        match r {
            Ok(i) => {
                assert!(i.to_scalar().0 == b[0]);
                let back = i.serialize();
                assert!(back.len() == 1 && back[0] == b[0]);
            }
            Err(_) => {
                assert!(false, "valid identifier encoding rejected");
            }
        }
    }
}

// @harness name=codec_prim_signing_key props=C12 kind=complete bound="-" tier=quick backs="SigningKey::deserialize / from_scalar: zero -> Err(MalformedSigningKey); >= 251 -> Err(FieldError(MalformedScalar)); wrong length -> Err; else Ok(k) with k.serialize() == b" expect=pass
#[kani::proof]
#[kani::unwind(4)]
fn codec_prim_signing_key() {
    let b: [u8; 2] = kani::any();
    assert!(SigningKey::<Toy251>::deserialize(&b[..0]).is_err());
    assert!(SigningKey::<Toy251>::deserialize(&b[..2]).is_err());
    let r = SigningKey::<Toy251>::deserialize(&b[..1]);
    if b[0] == 0 {
        assert!(matches!(r, Err(Error::MalformedSigningKey)));
    } else if (b[0] as u16) >= Q {
        assert!(matches!(r, Err(Error::FieldError(FieldError::MalformedScalar))));
    } else {
        match r {
            Ok(k) => {
                let back = k.serialize();
                assert!(back.len() == 1 && back[0] == b[0]);
                assert!(k.to_scalar().0 == b[0]);
            }
            Err(_) => {
                assert!(false, "valid signing key encoding rejected");
            }
        }
    }
}

// @harness name=codec_prim_signature props=C12,C14 kind=complete bound="-" tier=quick backs="Signature::default_deserialize (signature.rs:35-70): every length 0..=4 other than NE+NS == 2 -> Err(MalformedSignature); length 2, all 65536 byte pairs: Ok(sig) iff R byte in 1..=250 and z byte < 251, then serialize(sig) == b; R checked before z" expect=pass
#[kani::proof]
#[kani::unwind(6)]
#[kani::stub(std::fmt::format, stub_format)]
fn codec_prim_signature() {
    let b: [u8; 4] = kani::any();
    let len: usize = kani::any();
    kani::assume(len <= 4);
    let r = Signature::<Toy251>::deserialize(&b[..len]);
    if len != 2 {
        assert!(matches!(r, Err(Error::MalformedSignature)));
    } else if b[0] == 0 {
        assert!(matches!(r, Err(Error::GroupError(GroupError::InvalidIdentityElement))));
    } else if (b[0] as u16) >= Q {
        assert!(matches!(r, Err(Error::GroupError(GroupError::MalformedElement))));
    } else if (b[1] as u16) >= Q {
        assert!(matches!(r, Err(Error::FieldError(FieldError::MalformedScalar))));
    } else {
        match r {
            Ok(sig) => {
                assert!(sig.R().0 == b[0] && sig.z().0 == b[1]);
                match sig.serialize() {
                    Ok(back) => {
                        assert!(back.len() == 2 && back[0] == b[0] && back[1] == b[1]);
                    }
                    Err(_) => {
                        assert!(false, "serialize of a decoded signature failed");
                    }
                }
            }
            Err(_) => {
                assert!(false, "valid signature encoding rejected");
            }
        }
    }
}

// Negative control: claims the identity element byte is accepted -> must FAIL.
// @harness name=codec_prim_negctl props=C12 kind=complete bound="-" tier=quick backs="vacuity guard for the codec_prim_* harnesses" expect=fail
#[kani::proof]
#[kani::unwind(4)]
fn codec_prim_negctl() {
    let b: [u8; 1] = kani::any();
    kani::assume((b[0] as u16) < Q);
    assert!(VerifyingKey::<Toy251>::deserialize(&b).is_ok(), "negctl");
}
