//! Group `codec` (C12, C13): postcard round trips of every wire / stored type, the header check, and
//! canonicity of the primitive (fixed-size) encodings — all on the real frost-core at `Toy251`.
//!
//! Encodable values only: `Group::serialize` rejects the identity, so every element put into a value is
//! assumed non-identity (and the harnesses assert that `serialize()` then succeeds).
use crate::common::*;
use crate::toy::*;
use frost_core::keys::dkg;
use frost_core::keys::{KeyPackage, PublicKeyPackage, SecretShare, SigningShare, VerifyingShare};
use frost_core::round1::{Nonce, NonceCommitment, SigningCommitments, SigningNonces};
use frost_core::round2::SignatureShare;
use frost_core::serialization::SerializableScalar;
use frost_core::{
    Error, FieldError, GroupError, Identifier, Signature, SigningKey, SigningPackage, VerifyingKey, __verif,
};
use std::collections::BTreeMap;

/// CRC-32 (IEEE, zlib.crc32) of b"TOY251", big endian — computed outside Rust (python zlib), so the header
/// harness has an oracle independent of const-crc32.
pub const TOY251_SHORT_ID: [u8; 4] = [0x9e, 0x7b, 0x97, 0x80];

macro_rules! roundtrip {
    ($x:expr, $ty:ty) => {{
        let x = $x;
        match x.serialize() {
            Err(_) => {
                assert!(false, "serialize failed on an encodable value");
            }
            Ok(bytes) => match <$ty>::deserialize(&bytes) {
                Err(_) => {
                    assert!(false, "deserialize(serialize(x)) failed");
                }
                Ok(y) => {
                    assert!(y == x, "deserialize(serialize(x)) != x");
                }
            },
        }
    }};
}

fn any_keypackage() -> KeyPackage<Toy251> {
    KeyPackage::<Toy251>::new(
        any_id(),
        share(any_s()),
        vshare(any_e_nz()),
        vkey(any_e_nz()),
        kani::any(),
    )
}

// ---------------------------------------------------------------------------------------------
// fixed-size types: loop bounds are fixed by the encoding widths -> complete for Toy251
// ---------------------------------------------------------------------------------------------

// @harness name=codec_rt_keypackage props=C12,C13 kind=complete bound="-" tier=quick backs="KeyPackage postcard round trip: deserialize(serialize(x)) == Ok(x), all field values (all ids, shares, non-identity elements, min_signers: u16)" expect=pass
#[kani::proof]
#[kani::unwind(8)]
#[kani::stub(zeroize::barrier::optimization_barrier, noop_barrier)]
fn codec_rt_keypackage() {
    roundtrip!(any_keypackage(), KeyPackage<Toy251>);
}

// Negative control: claims the round trip changes nothing even if we then compare against a value with a
// different min_signers -> must FAIL.
// @harness name=codec_rt_negctl props=C12,C13 kind=complete bound="-" tier=quick backs="vacuity guard for the codec_rt_* harnesses" expect=fail
#[kani::proof]
#[kani::unwind(8)]
#[kani::stub(zeroize::barrier::optimization_barrier, noop_barrier)]
fn codec_rt_negctl() {
    let x = any_keypackage();
    if let Ok(bytes) = x.serialize() {
        if let Ok(y) = KeyPackage::<Toy251>::deserialize(&bytes) {
            assert!(*y.min_signers() == 7, "negctl");
        }
    }
}

// @harness name=codec_rt_signing_nonces props=C12,C13 kind=complete bound="-" tier=quick backs="round1::SigningNonces postcard round trip, all non-zero nonce pairs (commitments derived by from_nonces)" expect=pass
#[kani::proof]
#[kani::unwind(8)]
#[kani::stub(zeroize::barrier::optimization_barrier, noop_barrier)]
fn codec_rt_signing_nonces() {
    let x = SigningNonces::<Toy251>::from_nonces(
        Nonce::<Toy251>::from_scalar(any_s_nz()),
        Nonce::<Toy251>::from_scalar(any_s_nz()),
    );
    roundtrip!(x, SigningNonces<Toy251>);
}

fn any_signing_commitments() -> SigningCommitments<Toy251> {
    SigningCommitments::<Toy251>::new(
        NonceCommitment::<Toy251>::new(any_e_nz()),
        NonceCommitment::<Toy251>::new(any_e_nz()),
    )
}

// @harness name=codec_rt_signing_commitments props=C12 kind=complete bound="-" tier=quick backs="round1::SigningCommitments postcard round trip, all non-identity pairs" expect=pass
#[kani::proof]
#[kani::unwind(8)]
fn codec_rt_signing_commitments() {
    roundtrip!(any_signing_commitments(), SigningCommitments<Toy251>);
}

// round2::SignatureShare: the public API is the raw scalar encoding (serialize() -> Vec<u8>, infallible);
// the serde derive (used when the type is embedded / sent through postcard by applications) is exercised
// through postcard directly.
// @harness name=codec_rt_signature_share props=C12 kind=complete bound="-" tier=quick backs="round2::SignatureShare: raw round trip deserialize(serialize(x)) == Ok(x) and postcard (serde derive) round trip, all scalars" expect=pass
#[kani::proof]
#[kani::unwind(8)]
fn codec_rt_signature_share() {
    let s = any_s();
    let x = __verif::signature_share_new::<Toy251>(s);
    let raw = x.serialize();
    assert!(raw.len() == 1 && raw[0] == s.0);
    match SignatureShare::<Toy251>::deserialize(&raw) {
        Ok(y) => {
            assert!(y == x);
        }
        Err(_) => {
            assert!(false, "raw deserialize failed");
        }
    }
    match postcard::to_allocvec(&x) {
        Err(_) => {
            assert!(false, "postcard serialize failed");
        }
        Ok(bytes) => match postcard::from_bytes::<SignatureShare<Toy251>>(&bytes) {
            Ok(y) => {
                assert!(y == x);
            }
            Err(_) => {
                assert!(false, "postcard deserialize failed");
            }
        },
    }
}

// @harness name=codec_rt_dkg_round2_package props=C12 kind=complete bound="-" tier=quick backs="keys::dkg::round2::Package postcard round trip, all signing shares" expect=pass
#[kani::proof]
#[kani::unwind(8)]
#[kani::stub(zeroize::barrier::optimization_barrier, noop_barrier)]
fn codec_rt_dkg_round2_package() {
    roundtrip!(dkg::round2::Package::<Toy251>::new(share(any_s())), dkg::round2::Package<Toy251>);
}

// Signature: Ciphersuite::serialize_signature / deserialize_signature defaults (R || z).
// @harness name=codec_rt_signature props=C12 kind=complete bound="-" tier=quick backs="Signature::default_serialize/default_deserialize: round trip for all (R != identity, z); serialize fails with GroupError(InvalidIdentityElement) iff R is the identity; encoding is enc(R) || enc(z)" expect=pass
#[kani::proof]
#[kani::unwind(8)]
#[kani::stub(std::fmt::format, stub_format)]
fn codec_rt_signature() {
    let (r, z) = (any_e(), any_s());
    let x = Signature::<Toy251>::new(r, z);
    match x.serialize() {
        Err(e) => {
            assert!(r.0 == 0);
            let _ = &e; // the property fixes "is rejected", not the error value
        }
        Ok(bytes) => {
            assert!(r.0 != 0);
            assert!(bytes.len() == 2 && bytes[0] == r.0 && bytes[1] == z.0);
            match Signature::<Toy251>::deserialize(&bytes) {
                Ok(y) => {
                    assert!(y == x);
                }
                Err(_) => {
                    assert!(false, "deserialize(serialize(sig)) failed");
                }
            }
        }
    }
}

// ---------------------------------------------------------------------------------------------
// variable-size types: bounded in the container lengths
//
// The direct form `deserialize(&x.serialize()?)` is intractable here: the encoder's heap buffer (Vec growth
// = realloc) defeats CBMC's constant propagation, so the decoder sees "symbolic" length prefixes and map
// keys (symbolic Vec capacities, symbolic BTreeMap keys: time-outs at 30 min / out of memory).  The round trip
// is therefore proved as two lemmas over an explicit wire-format function enc(x) (a stack array built by the
// harness, structure bytes concrete, field bytes symbolic):
//     (A)  x.serialize() == Ok(enc(x))            -- byte-exact wire format
//     (B)  T::deserialize(enc(x)) == Ok(x)
// which together give deserialize(serialize(x)) == Ok(x).  These harnesses run with unwind 5 (the B-tree and
// Vec loops whose bounds CBMC cannot resolve are unwound blindly up to the bound, cost ~ bound^3 per BTreeMap
// drop site) and therefore stub the private run-time CRC-32 `serialization::short_id` by its value (see
// common::stub_short_id; the real function is covered by codec_header_keypackage).  u16 thresholds are restricted to < 128 (one varint
// byte) in these harnesses; the full u16 varint range is covered by the complete KeyPackage harness and by
// the direct-form harnesses of the thorough tier.
// ---------------------------------------------------------------------------------------------

const H: [u8; 5] = [0, TOY251_SHORT_ID[0], TOY251_SHORT_ID[1], TOY251_SHORT_ID[2], TOY251_SHORT_ID[3]];

/// v == exp, without a loop: the length, and the byte at an ARBITRARY (symbolic) index.
fn bytes_eq<const K: usize>(v: &[u8], exp: &[u8; K]) -> bool {
    if v.len() != K {
        return false;
    }
    if K == 0 {
        return true;
    }
    let i: usize = kani::any();
    kani::assume(i < K);
    v[i] == exp[i]
}

/// (A) x.serialize() == Ok(enc(x))
macro_rules! enc_is {
    ($x:expr, $exp:expr) => {{
        match $x.serialize() {
            Err(_) => {
                assert!(false, "serialize failed on an encodable value");
            }
            Ok(bytes) => {
                assert!(bytes_eq(&bytes, &$exp), "serialize(x) != enc(x)");
            }
        }
    }};
}
/// (B) T::deserialize(enc(x)) == Ok(x).  The decoded value is forgotten, not dropped: dropping a BTreeMap
/// costs CBMC minutes (the dying-tree navigation loops are unwound blindly) and is irrelevant here.
macro_rules! dec_is {
    ($x:expr, $ty:ty, $exp:expr) => {{
        match <$ty>::deserialize(&$exp) {
            Err(_) => {
                assert!(false, "deserialize(enc(x)) failed");
            }
            Ok(y) => {
                assert!(y == $x, "deserialize(enc(x)) != x");
                core::mem::forget(y);
            }
        }
    }};
}
macro_rules! enc_dec {
    ($x:expr, $ty:ty, $exp:expr) => {{
        let x = $x;
        let exp = $exp;
        enc_is!(x, exp);
        dec_is!(x, $ty, exp);
        core::mem::forget(x);
    }};
}

fn any_small_u16() -> u16 {
    let v: u16 = kani::any();
    kani::assume(v < 128);
    v
}
fn cc(e: E) -> frost_core::keys::CoefficientCommitment<Toy251> {
    frost_core::keys::CoefficientCommitment::<Toy251>::new(e)
}
fn vss(v: Vec<E>) -> frost_core::keys::VerifiableSecretSharingCommitment<Toy251> {
    frost_core::keys::VerifiableSecretSharingCommitment::<Toy251>::new(v.into_iter().map(cc).collect())
}

// @harness name=codec_ab_secret_share_len2 props=C12 kind=bounded bound="commitment length 2" tier=quick backs="SecretShare: serialize(x) == enc(x) = hdr|id|share|len|c0|c1 and deserialize(enc(x)) == Ok(x), all ids / shares / non-identity commitments" expect=pass
#[kani::proof]
#[kani::unwind(5)]
#[kani::stub(frost_core::serialization::short_id, stub_short_id)]
#[kani::stub(zeroize::barrier::optimization_barrier, noop_barrier)]
fn codec_ab_secret_share_len2() {
    let (i, s, c0, c1) = (any_s_nz(), any_s(), any_e_nz(), any_e_nz());
    let x = SecretShare::<Toy251>::new(id_of(i), share(s), vss(vec![c0, c1]));
    enc_dec!(x, SecretShare<Toy251>, [H[0], H[1], H[2], H[3], H[4], i.0, s.0, 2, c0.0, c1.0]);
}

// @harness name=codec_ab_secret_share_len01 props=C12 kind=bounded bound="commitment lengths 0 and 1" tier=thorough backs="SecretShare wire format + decode, as codec_ab_secret_share_len2" expect=pass
#[kani::proof]
#[kani::unwind(5)]
#[kani::stub(frost_core::serialization::short_id, stub_short_id)]
#[kani::stub(zeroize::barrier::optimization_barrier, noop_barrier)]
fn codec_ab_secret_share_len01() {
    let (i, s, c0) = (any_s_nz(), any_s(), any_e_nz());
    let x = SecretShare::<Toy251>::new(id_of(i), share(s), vss(vec![]));
    enc_dec!(x, SecretShare<Toy251>, [H[0], H[1], H[2], H[3], H[4], i.0, s.0, 0]);
    let x = SecretShare::<Toy251>::new(id_of(i), share(s), vss(vec![c0]));
    enc_dec!(x, SecretShare<Toy251>, [H[0], H[1], H[2], H[3], H[4], i.0, s.0, 1, c0.0]);
}

fn pkp2(a: E, b: E, k: E, min_signers: Option<u16>) -> PublicKeyPackage<Toy251> {
    let mut m = BTreeMap::new();
    m.insert(id(1), vshare(a));
    m.insert(id(2), vshare(b));
    PublicKeyPackage::<Toy251>::new(m, vkey(k), min_signers)
}
fn pkp1(a: E, k: E, min_signers: Option<u16>) -> PublicKeyPackage<Toy251> {
    let mut m = BTreeMap::new();
    m.insert(id(1), vshare(a));
    PublicKeyPackage::<Toy251>::new(m, vkey(k), min_signers)
}

// BTreeMap-carrying types: (A) and (B) are separate harnesses, because decoding into a BTreeMap costs CBMC
// ~200 s even for one entry with a concrete key (B-tree code is pointer-heavy; the error paths drop a
// partially built map).  (A) is quick tier, (B) thorough tier.  The byte arrays are written once, in `*_enc`.

fn pkp2_enc_some(a: E, b: E, k: E, t: u16) -> [u8; 13] {
    [H[0], H[1], H[2], H[3], H[4], 2, 1, a.0, 2, b.0, k.0, 1, t as u8]
}
fn pkp2_enc_none(a: E, b: E, k: E) -> [u8; 11] {
    [H[0], H[1], H[2], H[3], H[4], 2, 1, a.0, 2, b.0, k.0]
}

// @harness name=codec_enc_public_key_package props=C12,C13 kind=bounded bound="2 entries with the concrete keys 1, 2; min_signers = Some(t), t < 128, and None" tier=quick backs="PublicKeyPackage lemma (A): serialize(x) == hdr|n|(id,vs)*|vk|1|t; None is encoded by OMITTING the field (pre-3.0 format)" expect=pass
#[kani::proof]
#[kani::unwind(5)]
#[kani::stub(frost_core::serialization::short_id, stub_short_id)]
fn codec_enc_public_key_package() {
    let (a, b, k, t) = (any_e_nz(), any_e_nz(), any_e_nz(), any_small_u16());
    let x = pkp2(a, b, k, Some(t));
    enc_is!(x, pkp2_enc_some(a, b, k, t));
    core::mem::forget(x);
    let x = pkp2(a, b, k, None);
    enc_is!(x, pkp2_enc_none(a, b, k));
    core::mem::forget(x);
}

// @harness name=codec_dec_public_key_package_some props=C12,C13 kind=bounded bound="2 entries with the concrete keys 1, 2; min_signers = Some(t), t < 128" tier=thorough backs="PublicKeyPackage lemma (B) (custom Deserialize, serialization.rs:259-490): deserialize(enc(x)) == Ok(x)" expect=pass
#[kani::proof]
#[kani::unwind(5)]
#[kani::stub(frost_core::serialization::short_id, stub_short_id)]
fn codec_dec_public_key_package_some() {
    let (a, b, k, t) = (any_e_nz(), any_e_nz(), any_e_nz(), any_small_u16());
    let x = pkp2(a, b, k, Some(t));
    dec_is!(x, PublicKeyPackage<Toy251>, pkp2_enc_some(a, b, k, t));
    core::mem::forget(x);
}

// @harness name=codec_dec_public_key_package_none props=C12,C13 kind=bounded bound="2 entries with the concrete keys 1, 2; threshold absent" tier=thorough backs="PublicKeyPackage lemma (B), legacy format: an encoding without threshold decodes to the value with min_signers == None" expect=pass
#[kani::proof]
#[kani::unwind(5)]
#[kani::stub(frost_core::serialization::short_id, stub_short_id)]
fn codec_dec_public_key_package_none() {
    let (a, b, k) = (any_e_nz(), any_e_nz(), any_e_nz());
    let x = pkp2(a, b, k, None);
    dec_is!(x, PublicKeyPackage<Toy251>, pkp2_enc_none(a, b, k));
    core::mem::forget(x);
}

// @harness name=codec_enc_public_key_package_small props=C12,C13 kind=bounded bound="0 and 1 entries (key 1); min_signers = Some(t < 128) and None" tier=quick backs="PublicKeyPackage lemma (A), small maps" expect=pass
#[kani::proof]
#[kani::unwind(5)]
#[kani::stub(frost_core::serialization::short_id, stub_short_id)]
fn codec_enc_public_key_package_small() {
    let (a, k, t) = (any_e_nz(), any_e_nz(), any_small_u16());
    let x = pkp1(a, k, Some(t));
    enc_is!(x, [H[0], H[1], H[2], H[3], H[4], 1, 1, a.0, k.0, 1, t as u8]);
    core::mem::forget(x);
    let x = pkp1(a, k, None);
    enc_is!(x, [H[0], H[1], H[2], H[3], H[4], 1, 1, a.0, k.0]);
    core::mem::forget(x);
    let x = PublicKeyPackage::<Toy251>::new(BTreeMap::new(), vkey(k), Some(t));
    enc_is!(x, [H[0], H[1], H[2], H[3], H[4], 0, k.0, 1, t as u8]);
    core::mem::forget(x);
}

// @harness name=codec_dec_public_key_package_small props=C12,C13 kind=bounded bound="0 entries with Some(t < 128); 1 entry (key 1) with None" tier=thorough backs="PublicKeyPackage lemma (B), small maps" expect=pass
#[kani::proof]
#[kani::unwind(5)]
#[kani::stub(frost_core::serialization::short_id, stub_short_id)]
fn codec_dec_public_key_package_small() {
    let (a, k, t) = (any_e_nz(), any_e_nz(), any_small_u16());
    let x = pkp1(a, k, None);
    dec_is!(x, PublicKeyPackage<Toy251>, [H[0], H[1], H[2], H[3], H[4], 1, 1, a.0, k.0]);
    core::mem::forget(x);
    let x = PublicKeyPackage::<Toy251>::new(BTreeMap::new(), vkey(k), Some(t));
    dec_is!(x, PublicKeyPackage<Toy251>, [H[0], H[1], H[2], H[3], H[4], 0, k.0, 1, t as u8]);
    core::mem::forget(x);
}

fn sc(h: E, b: E) -> SigningCommitments<Toy251> {
    SigningCommitments::<Toy251>::new(NonceCommitment::<Toy251>::new(h), NonceCommitment::<Toy251>::new(b))
}
fn sp2(d1: E, e1: E, d2: E, e2: E, msg: &[u8]) -> SigningPackage<Toy251> {
    let mut m = BTreeMap::new();
    m.insert(id(1), sc(d1, e1));
    m.insert(id(2), sc(d2, e2));
    SigningPackage::<Toy251>::new(m, msg)
}
fn sp2_enc(d1: E, e1: E, d2: E, e2: E, msg: [u8; 2]) -> [u8; 25] {
    [
        H[0], H[1], H[2], H[3], H[4], 2, //
        1, H[0], H[1], H[2], H[3], H[4], d1.0, e1.0, //
        2, H[0], H[1], H[2], H[3], H[4], d2.0, e2.0, //
        2, msg[0], msg[1],
    ]
}
fn sp1(d1: E, e1: E, msg: &[u8]) -> SigningPackage<Toy251> {
    let mut m = BTreeMap::new();
    m.insert(id(1), sc(d1, e1));
    SigningPackage::<Toy251>::new(m, msg)
}
fn sp1_enc(d1: E, e1: E, msg: [u8; 1]) -> [u8; 16] {
    [H[0], H[1], H[2], H[3], H[4], 1, 1, H[0], H[1], H[2], H[3], H[4], d1.0, e1.0, 1, msg[0]]
}

// @harness name=codec_enc_signing_package props=C12 kind=bounded bound="2 entries (concrete keys 1, 2), message length 2" tier=thorough backs="SigningPackage lemma (A): serialize(x) == hdr|n|(id|hdr|D|E)*|mlen|msg, all commitment values and message bytes" expect=pass
#[kani::proof]
#[kani::unwind(5)]
#[kani::stub(frost_core::serialization::short_id, stub_short_id)]
fn codec_enc_signing_package() {
    let (d1, e1, d2, e2) = (any_e_nz(), any_e_nz(), any_e_nz(), any_e_nz());
    let msg: [u8; 2] = kani::any();
    let x = sp2(d1, e1, d2, e2, &msg);
    enc_is!(x, sp2_enc(d1, e1, d2, e2, msg));
    core::mem::forget(x);
}

// @harness name=codec_dec_signing_package props=C12 kind=bounded bound="2 entries (concrete keys 1, 2), message length 2" tier=thorough backs="SigningPackage lemma (B): deserialize(enc(x)) == Ok(x)" expect=pass
#[kani::proof]
#[kani::unwind(5)]
#[kani::stub(frost_core::serialization::short_id, stub_short_id)]
fn codec_dec_signing_package() {
    let (d1, e1, d2, e2) = (any_e_nz(), any_e_nz(), any_e_nz(), any_e_nz());
    let msg: [u8; 2] = kani::any();
    let x = sp2(d1, e1, d2, e2, &msg);
    dec_is!(x, SigningPackage<Toy251>, sp2_enc(d1, e1, d2, e2, msg));
    core::mem::forget(x);
}

// @harness name=codec_enc_signing_package_small props=C12 kind=bounded bound="(entries, message length) in {(0,0), (1,1)}" tier=quick backs="SigningPackage lemma (A), small shapes" expect=pass
#[kani::proof]
#[kani::unwind(5)]
#[kani::stub(frost_core::serialization::short_id, stub_short_id)]
fn codec_enc_signing_package_small() {
    let (d1, e1) = (any_e_nz(), any_e_nz());
    let msg: [u8; 1] = kani::any();
    let x = SigningPackage::<Toy251>::new(BTreeMap::new(), &[]);
    enc_is!(x, [H[0], H[1], H[2], H[3], H[4], 0, 0]);
    core::mem::forget(x);
    let x = sp1(d1, e1, &msg);
    enc_is!(x, sp1_enc(d1, e1, msg));
    core::mem::forget(x);
}

// @harness name=codec_dec_signing_package_small props=C12 kind=bounded bound="(entries, message length) = (1,1)" tier=thorough backs="SigningPackage lemma (B), small shape" expect=pass
#[kani::proof]
#[kani::unwind(5)]
#[kani::stub(frost_core::serialization::short_id, stub_short_id)]
fn codec_dec_signing_package_small() {
    let (d1, e1) = (any_e_nz(), any_e_nz());
    let msg: [u8; 1] = kani::any();
    let x = sp1(d1, e1, &msg);
    dec_is!(x, SigningPackage<Toy251>, sp1_enc(d1, e1, msg));
    core::mem::forget(x);
}

fn r1pkg_enc(c0: E, c1: E, r: E, z: S) -> [u8; 11] {
    [H[0], H[1], H[2], H[3], H[4], 2, c0.0, c1.0, 2, r.0, z.0]
}

// @harness name=codec_enc_dkg_round1_package props=C12 kind=bounded bound="commitment length 2" tier=quick backs="keys::dkg::round1::Package lemma (A): serialize(x) == hdr|len|c*|2|R|z (proof of knowledge as length-prefixed Signature bytes)" expect=pass
#[kani::proof]
#[kani::unwind(5)]
#[kani::stub(frost_core::serialization::short_id, stub_short_id)]
#[kani::stub(std::fmt::format, stub_format)]
fn codec_enc_dkg_round1_package() {
    let (c0, c1, r, z) = (any_e_nz(), any_e_nz(), any_e_nz(), any_s());
    let x = dkg::round1::Package::<Toy251>::new(vss(vec![c0, c1]), Signature::<Toy251>::new(r, z));
    enc_is!(x, r1pkg_enc(c0, c1, r, z));
}

// @harness name=codec_dec_dkg_round1_package props=C12 kind=bounded bound="commitment length 2" tier=quick backs="keys::dkg::round1::Package lemma (B): deserialize(enc(x)) == Ok(x)" expect=pass
#[kani::proof]
#[kani::unwind(5)]
#[kani::stub(frost_core::serialization::short_id, stub_short_id)]
#[kani::stub(std::fmt::format, stub_format)]
fn codec_dec_dkg_round1_package() {
    let (c0, c1, r, z) = (any_e_nz(), any_e_nz(), any_e_nz(), any_s());
    let x = dkg::round1::Package::<Toy251>::new(vss(vec![c0, c1]), Signature::<Toy251>::new(r, z));
    dec_is!(x, dkg::round1::Package<Toy251>, r1pkg_enc(c0, c1, r, z));
}

// @harness name=codec_ab_dkg_round1_package_len1 props=C12 kind=bounded bound="commitment length 1" tier=thorough backs="keys::dkg::round1::Package lemmas (A)+(B), commitment length 1" expect=pass
#[kani::proof]
#[kani::unwind(5)]
#[kani::stub(frost_core::serialization::short_id, stub_short_id)]
#[kani::stub(std::fmt::format, stub_format)]
fn codec_ab_dkg_round1_package_len1() {
    let (c0, r, z) = (any_e_nz(), any_e_nz(), any_s());
    let x = dkg::round1::Package::<Toy251>::new(vss(vec![c0]), Signature::<Toy251>::new(r, z));
    enc_dec!(x, dkg::round1::Package<Toy251>, [H[0], H[1], H[2], H[3], H[4], 1, c0.0, 2, r.0, z.0]);
}

fn r1sec(i: S, a: Vec<S>, c: Vec<E>, mn: u16, mx: u16) -> dkg::round1::SecretPackage<Toy251> {
    dkg::round1::SecretPackage::<Toy251>::new(id_of(i), a, vss(c), mn, mx)
}

// @harness name=codec_enc_dkg_round1_secret_package props=C12,C13 kind=bounded bound="coefficients length 2, commitment length 2; min_signers, max_signers < 128" tier=quick backs="keys::dkg::round1::SecretPackage (state kept between DKG rounds; NO header on the wire) lemma (A): serialize(x) == id|n|coef*|m|comm*|min|max" expect=pass
#[kani::proof]
#[kani::unwind(5)]
#[kani::stub(zeroize::barrier::optimization_barrier, noop_barrier)]
fn codec_enc_dkg_round1_secret_package() {
    let (i, a0, a1, c0, c1) = (any_s_nz(), any_s(), any_s(), any_e_nz(), any_e_nz());
    let (mn, mx) = (any_small_u16(), any_small_u16());
    let x = r1sec(i, vec![a0, a1], vec![c0, c1], mn, mx);
    enc_is!(x, [i.0, 2, a0.0, a1.0, 2, c0.0, c1.0, mn as u8, mx as u8]);
}

// @harness name=codec_dec_dkg_round1_secret_package props=C12,C13 kind=bounded bound="coefficients length 2, commitment length 2; min_signers, max_signers < 128" tier=quick backs="keys::dkg::round1::SecretPackage lemma (B): deserialize(enc(x)) == Ok(x)" expect=pass
#[kani::proof]
#[kani::unwind(5)]
#[kani::stub(zeroize::barrier::optimization_barrier, noop_barrier)]
fn codec_dec_dkg_round1_secret_package() {
    let (i, a0, a1, c0, c1) = (any_s_nz(), any_s(), any_s(), any_e_nz(), any_e_nz());
    let (mn, mx) = (any_small_u16(), any_small_u16());
    let x = r1sec(i, vec![a0, a1], vec![c0, c1], mn, mx);
    dec_is!(x, dkg::round1::SecretPackage<Toy251>, [i.0, 2, a0.0, a1.0, 2, c0.0, c1.0, mn as u8, mx as u8]);
}

// The refresh variant stores a commitment WITHOUT the constant-term entry (identity stripped):
// |commitment| == |coefficients| - 1.
// @harness name=codec_ab_dkg_round1_secret_package_refresh_21 props=C13 kind=bounded bound="(coefficients, commitment) lengths (2,1); min_signers, max_signers < 128" tier=quick backs="refresh_dkg_part1 state: dkg::round1::SecretPackage whose commitment lacks the identity entry: lemmas (A)+(B)" expect=pass
#[kani::proof]
#[kani::unwind(5)]
#[kani::stub(zeroize::barrier::optimization_barrier, noop_barrier)]
fn codec_ab_dkg_round1_secret_package_refresh_21() {
    let (i, a1, c1) = (any_s_nz(), any_s(), any_e_nz());
    let (mn, mx) = (any_small_u16(), any_small_u16());
    let x = r1sec(i, vec![S(0), a1], vec![c1], mn, mx);
    enc_dec!(x, dkg::round1::SecretPackage<Toy251>, [i.0, 2, 0, a1.0, 1, c1.0, mn as u8, mx as u8]);
}

// @harness name=codec_ab_dkg_round1_secret_package_refresh_32 props=C13 kind=bounded bound="(coefficients, commitment) lengths (3,2); min_signers, max_signers < 128" tier=thorough backs="refresh_dkg_part1 state, t = 3: lemmas (A)+(B)" expect=pass
#[kani::proof]
#[kani::unwind(5)]
#[kani::stub(zeroize::barrier::optimization_barrier, noop_barrier)]
fn codec_ab_dkg_round1_secret_package_refresh_32() {
    let (i, a1, a2, c1, c2) = (any_s_nz(), any_s(), any_s(), any_e_nz(), any_e_nz());
    let (mn, mx) = (any_small_u16(), any_small_u16());
    let x = r1sec(i, vec![S(0), a1, a2], vec![c1, c2], mn, mx);
    enc_dec!(
        x,
        dkg::round1::SecretPackage<Toy251>,
        [i.0, 3, 0, a1.0, a2.0, 2, c1.0, c2.0, mn as u8, mx as u8]
    );
}

// @harness name=codec_ab_dkg_round2_secret_package props=C12,C13 kind=bounded bound="commitment length 2; min_signers, max_signers < 128" tier=quick backs="keys::dkg::round2::SecretPackage (state kept between DKG rounds; no header): serialize(x) == id|m|comm*|share|min|max and deserialize(enc(x)) == Ok(x)" expect=pass
#[kani::proof]
#[kani::unwind(5)]
#[kani::stub(frost_core::serialization::short_id, stub_short_id)]
#[kani::stub(zeroize::barrier::optimization_barrier, noop_barrier)]
fn codec_ab_dkg_round2_secret_package() {
    let (i, c0, c1, s) = (any_s_nz(), any_e_nz(), any_e_nz(), any_s());
    let (mn, mx) = (any_small_u16(), any_small_u16());
    let x = dkg::round2::SecretPackage::<Toy251>::new(id_of(i), vss(vec![c0, c1]), s, mn, mx);
    enc_dec!(x, dkg::round2::SecretPackage<Toy251>, [i.0, 2, c0.0, c1.0, s.0, mn as u8, mx as u8]);
}

// Direct-form round trips (no wire-format function), full u16 thresholds: thorough tier only.
// @harness name=codec_rt_secret_share props=C12 kind=bounded bound="commitment length in {0,1,2}" tier=thorough backs="SecretShare direct postcard round trip deserialize(serialize(x)) == Ok(x)" expect=pass
#[kani::proof]
#[kani::unwind(8)]
#[kani::stub(zeroize::barrier::optimization_barrier, noop_barrier)]
fn codec_rt_secret_share() {
    let mut len = 0;
    while len <= 2 {
        let x = SecretShare::<Toy251>::new(any_id(), share(any_s()), any_commitment_nz(len));
        roundtrip!(x, SecretShare<Toy251>);
        len += 1;
    }
}

// @harness name=codec_rt_dkg_round2_secret_package props=C12,C13 kind=bounded bound="commitment length 1; min_signers, max_signers: all u16" tier=thorough backs="keys::dkg::round2::SecretPackage direct postcard round trip incl. multi-byte varints for both thresholds" expect=pass
#[kani::proof]
#[kani::unwind(8)]
#[kani::stub(zeroize::barrier::optimization_barrier, noop_barrier)]
fn codec_rt_dkg_round2_secret_package() {
    let x = dkg::round2::SecretPackage::<Toy251>::new(
        any_id(),
        any_commitment_nz(1),
        any_s(),
        kani::any(),
        kani::any(),
    );
    roundtrip!(x, dkg::round2::SecretPackage<Toy251>);
}

// JSON (serde_json) round trips were attempted (KeyPackage, from_str(to_string(x)) == x, unwind 40) and did not
// finish in 25 min; no JSON harness is kept.  See README, "What could not be done".

// ---------------------------------------------------------------------------------------------
// header
// ---------------------------------------------------------------------------------------------

// For ALL version bytes and ALL 4 ciphersuite-id bytes: decoding a KeyPackage succeeds iff version == 0 and
// id == CRC32("TOY251") big-endian; and the encoder emits exactly that header.
// @harness name=codec_header_keypackage props=C12 kind=complete bound="-" tier=quick backs="Header: version_deserialize / ciphersuite_deserialize accept exactly (0, CRC32(ID) BE); all 2^40 header values, body = a valid KeyPackage body" expect=pass
#[kani::proof]
#[kani::unwind(8)]
#[kani::stub(zeroize::barrier::optimization_barrier, noop_barrier)]
fn codec_header_keypackage() {
    let x = KeyPackage::<Toy251>::new(id(3), share(S(5)), vshare(E(7)), vkey(E(9)), 2);
    let mut bytes = match x.serialize() {
        Ok(b) => b,
        Err(_) => {
            assert!(false, "serialize failed");
            return;
        }
    };
    // header(5) id(1) share(1) vshare(1) vkey(1) min_signers(1)
    assert!(bytes.len() == 10);
    assert!(bytes[0] == 0);
    assert!(bytes[1] == TOY251_SHORT_ID[0] && bytes[2] == TOY251_SHORT_ID[1]);
    assert!(bytes[3] == TOY251_SHORT_ID[2] && bytes[4] == TOY251_SHORT_ID[3]);
    let hdr: [u8; 5] = kani::any();
    bytes[0] = hdr[0];
    bytes[1] = hdr[1];
    bytes[2] = hdr[2];
    bytes[3] = hdr[3];
    bytes[4] = hdr[4];
    let good = hdr[0] == 0
        && hdr[1] == TOY251_SHORT_ID[0]
        && hdr[2] == TOY251_SHORT_ID[1]
        && hdr[3] == TOY251_SHORT_ID[2]
        && hdr[4] == TOY251_SHORT_ID[3];
    match KeyPackage::<Toy251>::deserialize(&bytes) {
        Ok(y) => {
            assert!(good);
            assert!(y == x);
        }
        Err(e) => {
            assert!(!good);
            let _ = &e; // the property fixes "is rejected", not the error value
        }
    }
}

// Negative control: claims any version byte is accepted -> must FAIL.
// @harness name=codec_header_negctl props=C12 kind=complete bound="-" tier=quick backs="vacuity guard for codec_header_keypackage" expect=fail
#[kani::proof]
#[kani::unwind(8)]
#[kani::stub(zeroize::barrier::optimization_barrier, noop_barrier)]
fn codec_header_negctl() {
    let x = KeyPackage::<Toy251>::new(id(3), share(S(5)), vshare(E(7)), vkey(E(9)), 2);
    if let Ok(mut bytes) = x.serialize() {
        bytes[0] = kani::any();
        assert!(KeyPackage::<Toy251>::deserialize(&bytes).is_ok(), "negctl");
    }
}

// What the custom PublicKeyPackage decoder does with the bytes after the verifying key (the optional
// threshold): it NEVER fails on them.  tail == [] or tail[0] == 0 -> None; tail == [1, v<128, ..] -> Some(v);
// an invalid option tag (>= 2) or a truncated varint is swallowed into None (serialization.rs:390-393),
// and postcard ignores trailing bytes.  So the variable-size encoding is not canonical (C12 restricts
// canonicity to fixed-size encodings; stated here so that it is not mistaken for a gap).
// @harness name=codec_pkp_threshold_tail_lenient props=C12 kind=bounded bound="1 map entry (key 1); tail of 0..=2 arbitrary bytes after the verifying key" tier=thorough backs="PublicKeyPackage::deserialize: a decode error of the optional threshold is swallowed into min_signers == None; never Err" expect=pass
#[kani::proof]
#[kani::unwind(5)]
#[kani::stub(frost_core::serialization::short_id, stub_short_id)]
fn codec_pkp_threshold_tail_lenient() {
    let (a, k) = (any_e_nz(), any_e_nz());
    let t: [u8; 2] = kani::any();
    let buf = [H[0], H[1], H[2], H[3], H[4], 1, 1, a.0, k.0, t[0], t[1]];
    let mut tl = 0;
    while tl <= 2 {
        match PublicKeyPackage::<Toy251>::deserialize(&buf[..9 + tl]) {
            Err(_) => {
                assert!(false, "tail made the decoder fail");
            }
            Ok(y) => {
                assert!(y.verifying_key().to_element() == k);
                assert!(y.verifying_shares().len() == 1);
                if tl == 0 || t[0] != 1 {
                    // no tail, tag None (0), or INVALID option tag (>= 2): None
                    assert!(y.min_signers().is_none());
                } else if tl == 2 && t[1] < 128 {
                    assert!(y.min_signers() == Some(t[1] as u16));
                } else {
                    // tag Some but the varint is missing (tl == 1) or runs past the end (t[1] >= 128): swallowed
                    assert!(y.min_signers().is_none());
                }
                core::mem::forget(y);
            }
        }
        tl += 1;
    }
}

// ---------------------------------------------------------------------------------------------
// primitive canonicity (complete on Toy251: every byte string of every relevant length)
// ---------------------------------------------------------------------------------------------

// @harness name=codec_prim_scalar props=C12 kind=complete bound="-" tier=quick backs="SerializableScalar::deserialize (serialization.rs:42-47): lengths 0 and 2 -> Err(FieldError(MalformedScalar)); length 1: Ok(s) iff b < 251, and then s.serialize() == b (canonical); round trip for all scalars" expect=pass
#[kani::proof]
#[kani::unwind(4)]
fn codec_prim_scalar() {
    let b: [u8; 2] = kani::any();
    assert!((SerializableScalar::<Toy251>::deserialize(&b[..0])).is_err());
    assert!((SerializableScalar::<Toy251>::deserialize(&b[..2])).is_err());
    match SerializableScalar::<Toy251>::deserialize(&b[..1]) {
        Ok(s) => {
            assert!((b[0] as u16) < Q);
            let back = s.serialize();
            assert!(back.len() == 1 && back[0] == b[0]);
        }
        Err(e) => {
            assert!((b[0] as u16) >= Q);
            let _ = &e; // the property fixes "is rejected", not the error value
        }
    }
    // round trip from the value side
    let s = any_s();
    let enc = SerializableScalar::<Toy251>(s).serialize();
    assert!(matches!(SerializableScalar::<Toy251>::deserialize(&enc), Ok(t) if t.0 == s));
}

// NOTE (what the code does): a wrong-LENGTH element encoding is reported as
// FieldError(MalformedScalar), not as a GroupError (serialization.rs:110).
// @harness name=codec_prim_element props=C12 kind=complete bound="-" tier=quick backs="SerializableElement::deserialize (serialization.rs:108-113) via VerifyingKey/VerifyingShare/CoefficientCommitment/NonceCommitment::deserialize: wrong length -> Err(FieldError(MalformedScalar)) [sic]; 0 -> GroupError(InvalidIdentityElement); >= 251 -> GroupError(MalformedElement); else Ok(e) with e.serialize() == b" expect=pass
#[kani::proof]
#[kani::unwind(4)]
fn codec_prim_element() {
    let b: [u8; 2] = kani::any();
    assert!((__verif::element_deserialize::<Toy251>(&b[..0])).is_err());
    assert!((__verif::element_deserialize::<Toy251>(&b[..2])).is_err());
    let r = __verif::element_deserialize::<Toy251>(&b[..1]);
    if b[0] == 0 {
        assert!((r).is_err());
    } else if (b[0] as u16) >= Q {
        assert!((r).is_err());
    } else {
        match r {
            Ok(e) => {
                assert!(e.0 == b[0]);
                match __verif::element_serialize::<Toy251>(&e) {
                    Ok(back) => {
                        assert!(back.len() == 1 && back[0] == b[0]);
                    }
                    Err(_) => {
                        assert!(false, "serialize of a decoded element failed");
                    }
                }
            }
            Err(_) => {
                assert!(false, "valid element encoding rejected");
            }
        }
    }
    // the four public wrappers agree with it
    let vk = VerifyingKey::<Toy251>::deserialize(&b[..1]);
    let vs = VerifyingShare::<Toy251>::deserialize(&b[..1]);
    let nc = NonceCommitment::<Toy251>::deserialize(&b[..1]);
    let cc = frost_core::keys::CoefficientCommitment::<Toy251>::deserialize(&b[..1]);
    let ok = b[0] != 0 && (b[0] as u16) < Q;
    assert!(vk.is_ok() == ok && vs.is_ok() == ok && nc.is_ok() == ok && cc.is_ok() == ok);
    if let Ok(v) = vk {
        assert!(v.to_element().0 == b[0]);
        assert!(matches!(v.serialize(), Ok(w) if w.len() == 1 && w[0] == b[0]));
    }
    if let Ok(v) = vs {
        assert!(v.to_element().0 == b[0]);
    }
    if let Ok(v) = nc {
        assert!(v.value().0 == b[0]);
    }
    if let Ok(v) = cc {
        assert!(v.value().0 == b[0]);
    }
    // the identity cannot be encoded
    assert!((__verif::element_serialize::<Toy251>(&E(0))).is_err());
}

// @harness name=codec_prim_identifier props=C12 kind=complete bound="-" tier=quick backs="Identifier::deserialize: zero -> Err(FieldError(InvalidZeroScalar)); >= 251 -> Err(FieldError(MalformedScalar)); wrong length -> Err; else Ok(id) with id.serialize() == b" expect=pass
#[kani::proof]
#[kani::unwind(4)]
fn codec_prim_identifier() {
    let b: [u8; 2] = kani::any();
    assert!(Identifier::<Toy251>::deserialize(&b[..0]).is_err());
    assert!(Identifier::<Toy251>::deserialize(&b[..2]).is_err());
    let r = Identifier::<Toy251>::deserialize(&b[..1]);
    if b[0] == 0 {
        assert!((r).is_err());
    } else if (b[0] as u16) >= Q {
        assert!((r).is_err());
    } else {
        match r {
            Ok(i) => {
                assert!(i.to_scalar().0 == b[0]);
                let back = i.serialize();
                assert!(back.len() == 1 && back[0] == b[0]);
            }
            Err(_) => {
                assert!(false, "valid identifier encoding rejected");
            }
        }
    }
}

// @harness name=codec_prim_signing_key props=C12 kind=complete bound="-" tier=quick backs="SigningKey::deserialize / from_scalar: zero -> Err(MalformedSigningKey); >= 251 -> Err(FieldError(MalformedScalar)); wrong length -> Err; else Ok(k) with k.serialize() == b" expect=pass
#[kani::proof]
#[kani::unwind(4)]
fn codec_prim_signing_key() {
    let b: [u8; 2] = kani::any();
    assert!(SigningKey::<Toy251>::deserialize(&b[..0]).is_err());
    assert!(SigningKey::<Toy251>::deserialize(&b[..2]).is_err());
    let r = SigningKey::<Toy251>::deserialize(&b[..1]);
    if b[0] == 0 {
        assert!((r).is_err());
    } else if (b[0] as u16) >= Q {
        assert!((r).is_err());
    } else {
        match r {
            Ok(k) => {
                let back = k.serialize();
                assert!(back.len() == 1 && back[0] == b[0]);
                assert!(k.to_scalar().0 == b[0]);
            }
            Err(_) => {
                assert!(false, "valid signing key encoding rejected");
            }
        }
    }
}

// @harness name=codec_prim_signature props=C12,C14 kind=complete bound="-" tier=quick backs="Signature::default_deserialize (signature.rs:35-70): every length 0..=4 other than NE+NS == 2 -> Err(MalformedSignature); length 2, all 65536 byte pairs: Ok(sig) iff R byte in 1..=250 and z byte < 251, then serialize(sig) == b; R checked before z" expect=pass
#[kani::proof]
#[kani::unwind(6)]
#[kani::stub(std::fmt::format, stub_format)]
fn codec_prim_signature() {
    let b: [u8; 4] = kani::any();
    let len: usize = kani::any();
    kani::assume(len <= 4);
    let r = Signature::<Toy251>::deserialize(&b[..len]);
    if len != 2 {
        assert!((r).is_err());
    } else if b[0] == 0 {
        assert!((r).is_err());
    } else if (b[0] as u16) >= Q {
        assert!((r).is_err());
    } else if (b[1] as u16) >= Q {
        assert!((r).is_err());
    } else {
        match r {
            Ok(sig) => {
                assert!(sig.R().0 == b[0] && sig.z().0 == b[1]);
                match sig.serialize() {
                    Ok(back) => {
                        assert!(back.len() == 2 && back[0] == b[0] && back[1] == b[1]);
                    }
                    Err(_) => {
                        assert!(false, "serialize of a decoded signature failed");
                    }
                }
            }
            Err(_) => {
                assert!(false, "valid signature encoding rejected");
            }
        }
    }
}

// Negative control: claims the identity element byte is accepted -> must FAIL.
// @harness name=codec_prim_negctl props=C12 kind=complete bound="-" tier=quick backs="vacuity guard for the codec_prim_* harnesses" expect=fail
#[kani::proof]
#[kani::unwind(4)]
fn codec_prim_negctl() {
    let b: [u8; 1] = kani::any();
    kani::assume((b[0] as u16) < Q);
    assert!(VerifyingKey::<Toy251>::deserialize(&b).is_ok(), "negctl");
}
