//! temporary probes
use crate::common::*;
use crate::toy::*;
use crate::codec::TOY251_SHORT_ID;
use frost_core::keys::{PublicKeyPackage};
use std::collections::BTreeMap;
const H: [u8; 5] = [0, TOY251_SHORT_ID[0], TOY251_SHORT_ID[1], TOY251_SHORT_ID[2], TOY251_SHORT_ID[3]];

// @harness name=probe_pkp_build props=CXX kind=bounded bound="probe" tier=thorough backs="probe" expect=pass
#[kani::proof]
#[kani::unwind(16)]
fn probe_pkp_build() {
    let (a, k) = (any_e_nz(), any_e_nz());
    let mut m = BTreeMap::new();
    m.insert(id(1), vshare(a));
    let x = PublicKeyPackage::<Toy251>::new(m, vkey(k), None);
    assert!(x.verifying_shares().len() == 1);
    core::mem::forget(x);
}
// @harness name=probe_pkp_ser props=CXX kind=bounded bound="probe" tier=thorough backs="probe" expect=pass
#[kani::proof]
#[kani::unwind(16)]
fn probe_pkp_ser() {
    let (a, k) = (any_e_nz(), any_e_nz());
    let mut m = BTreeMap::new();
    m.insert(id(1), vshare(a));
    let x = PublicKeyPackage::<Toy251>::new(m, vkey(k), None);
    let b = x.serialize().unwrap();
    assert!(b.len() == 9);
    assert!(b[7] == a.0);
    core::mem::forget(x);
}
// @harness name=probe_pkp_de props=CXX kind=bounded bound="probe" tier=thorough backs="probe" expect=pass
#[kani::proof]
#[kani::unwind(7)]
fn probe_pkp_de() {
    let (a, k) = (any_e_nz(), any_e_nz());
    let buf = [H[0], H[1], H[2], H[3], H[4], 1, 1, a.0, k.0];
    match PublicKeyPackage::<Toy251>::deserialize(&buf) {
        Ok(y) => { assert!(y.verifying_key().to_element() == k); core::mem::forget(y); }
        Err(_) => { assert!(false, "de failed"); }
    }
}

// @harness name=probe_pkp_de2 props=CXX kind=bounded bound="probe" tier=thorough backs="probe" expect=pass
#[kani::proof]
#[kani::unwind(7)]
fn probe_pkp_de2() {
    let (a, b, k) = (any_e_nz(), any_e_nz(), any_e_nz());
    let buf = [H[0], H[1], H[2], H[3], H[4], 2, 1, a.0, 2, b.0, k.0];
    match PublicKeyPackage::<Toy251>::deserialize(&buf) {
        Ok(y) => { assert!(y.verifying_key().to_element() == k); assert!(y.verifying_shares().len() == 2); core::mem::forget(y); }
        Err(_) => { assert!(false, "de failed"); }
    }
}

pub fn noop_map_drop<K, V, A: std::alloc::Allocator + Clone>(_m: &mut BTreeMap<K, V, A>) {}

// @harness name=probe_pkp_de3 props=CXX kind=bounded bound="probe" tier=thorough backs="probe" expect=pass
#[kani::proof]
#[kani::unwind(16)]
#[kani::stub(<std::collections::BTreeMap<K, V, A> as Drop>::drop, noop_map_drop)]
fn probe_pkp_de3() {
    let (a, b, k) = (any_e_nz(), any_e_nz(), any_e_nz());
    let buf = [H[0], H[1], H[2], H[3], H[4], 2, 1, a.0, 2, b.0, k.0];
    match PublicKeyPackage::<Toy251>::deserialize(&buf) {
        Ok(y) => { assert!(y.verifying_key().to_element() == k); assert!(y.verifying_shares().len() == 2); }
        Err(_) => { assert!(false, "de failed"); }
    }
}
