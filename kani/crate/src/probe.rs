//! temporary probes
use crate::common::*;
use crate::toy::*;
use crate::codec::TOY251_SHORT_ID;
use frost_core::keys::{PublicKeyPackage};
use std::collections::BTreeMap;
const H: [u8; 5] = [0, TOY251_SHORT_ID[0], TOY251_SHORT_ID[1], TOY251_SHORT_ID[2], TOY251_SHORT_ID[3]];

pub fn stub_short_id<C: frost_core::Ciphersuite>() -> [u8; 4] { TOY251_SHORT_ID }

// @harness name=probe_pkp_de5 props=CXX kind=bounded bound="probe" tier=thorough backs="probe" expect=pass
#[kani::proof]
#[kani::unwind(5)]
#[kani::stub(frost_core::serialization::short_id, stub_short_id)]
fn probe_pkp_de5() {
    let (a, k) = (any_e_nz(), any_e_nz());
    let buf = [H[0], H[1], H[2], H[3], H[4], 1, 1, a.0, k.0];
    match PublicKeyPackage::<Toy251>::deserialize(&buf) {
        Ok(y) => { assert!(y.verifying_key().to_element() == k); core::mem::forget(y); }
        Err(_) => { assert!(false, "de failed"); }
    }
}
// concrete map entry, symbolic key and threshold
// @harness name=probe_pkp_de6 props=CXX kind=bounded bound="probe" tier=thorough backs="probe" expect=pass
#[kani::proof]
#[kani::unwind(8)]
fn probe_pkp_de6() {
    let k = any_e_nz();
    let buf = [H[0], H[1], H[2], H[3], H[4], 1, 1, 77, k.0];
    match PublicKeyPackage::<Toy251>::deserialize(&buf) {
        Ok(y) => { assert!(y.verifying_key().to_element() == k); core::mem::forget(y); }
        Err(_) => { assert!(false, "de failed"); }
    }
}
