//! Group `nopanic`, part 1 (C14, C01): `scalar_mul.rs` — the NAF recoder (lint-exempt indexing) and the
//! variable-time multiscalar multiplication whose contract Verus only ASSUMES (== sum s_i * E_i).
//! Reached through the `__verif` shim of the scratch copy (module `scalar_mul` is private).
use crate::common::*;
use crate::toy::*;
use frost_core::__verif;

// ---------------------------------------------------------------------------------------------
// NAF: memory safety (every index / slice / shift in non_adjacent_form), all scalars of a width
// ---------------------------------------------------------------------------------------------

// @harness name=naf_safe_wide8 props=C14,C01 kind=complete bound="-" tier=quick backs="non_adjacent_form (scalar_mul.rs:33-116): no out-of-bounds index/slice, no overflow, no shift overflow, result length 8*8+1, for ALL 8-byte scalars at w = 5; loop bound fixed by the width" expect=pass
#[kani::proof]
#[kani::unwind(68)]
fn naf_safe_wide8() {
    let b: [u8; 8] = kani::any();
    let naf = __verif::non_adjacent_form::<Wide8>(&W(b), 5);
    assert!(naf.len() == 65);
}

// @harness name=naf_safe_wide32 props=C14,C01 kind=complete bound="-" tier=thorough backs="non_adjacent_form memory safety for ALL 32-byte scalars (the width of five of the six real suites) at w = 5; result length 257" expect=pass
#[kani::proof]
#[kani::unwind(260)]
fn naf_safe_wide32() {
    let b: [u8; 32] = kani::any();
    let naf = __verif::non_adjacent_form::<Wide32>(&W(b), 5);
    assert!(naf.len() == 257);
}

// 57 bytes = Ed448 scalars: 457 digits, 8 limbs (the doc comment "MUST fit in 256 bits" notwithstanding,
// frost-ed448 calls this code with 57-byte scalars).
// @harness name=naf_safe_wide57 props=C14,C01 kind=complete bound="-" tier=thorough backs="non_adjacent_form memory safety for ALL 57-byte scalars (Ed448) at w = 5; result length 457" expect=pass
#[kani::proof]
#[kani::unwind(460)]
fn naf_safe_wide57() {
    let b: [u8; 57] = kani::any();
    let naf = __verif::non_adjacent_form::<Wide57>(&W(b), 5);
    assert!(naf.len() == 457);
}

// Negative control: claims the top digit is always zero -> must FAIL (a carry out of the top window
// makes naf[64] == 1, e.g. for 0xFFFF_FFFF_FFFF_FFFF).
// @harness name=naf_negctl_top_digit_zero props=C14,C01 kind=complete bound="-" tier=quick backs="vacuity guard for naf_safe_* / naf_value_*" expect=fail
#[kani::proof]
#[kani::unwind(68)]
fn naf_negctl_top_digit_zero() {
    let b: [u8; 8] = kani::any();
    let naf = __verif::non_adjacent_form::<Wide8>(&W(b), 5);
    assert!(naf[64] == 0, "negctl");
}

// ---------------------------------------------------------------------------------------------
// NAF: value correctness  sum_i d_i 2^i == value  and digit shape, bounded windows
// ---------------------------------------------------------------------------------------------

/// sum_i naf[i] * 2^i == little-endian value of `bytes`, computed by Horner from the top digit in L 64-bit
/// limbs of two's-complement arithmetic (L*64 must exceed 8*N + 2 bits).
fn naf_value_ok<const N: usize, const L: usize>(naf: &[i8], bytes: &[u8; N]) -> bool {
    let mut acc = [0u64; L];
    let mut i = naf.len();
    while i > 0 {
        i -= 1;
        // acc <<= 1
        let mut carry = 0u64;
        let mut l = 0;
        while l < L {
            let nv = (acc[l] << 1) | carry;
            carry = acc[l] >> 63;
            acc[l] = nv;
            l += 1;
        }
        // acc += sign-extended digit
        let d = naf[i] as i64;
        let ext: u64 = if d < 0 { u64::MAX } else { 0 };
        let (s0, mut c) = acc[0].overflowing_add(d as u64);
        acc[0] = s0;
        let mut l = 1;
        while l < L {
            let (s1, c1) = acc[l].overflowing_add(ext);
            let (s2, c2) = s1.overflowing_add(c as u64);
            acc[l] = s2;
            c = c1 || c2;
            l += 1;
        }
    }
    // expected limbs
    let mut ok = true;
    let mut l = 0;
    while l < L {
        let mut limb = 0u64;
        let mut k = 0;
        while k < 8 {
            let idx = l * 8 + k;
            if idx < N {
                limb |= (bytes[idx] as u64) << (8 * k);
            }
            k += 1;
        }
        if acc[l] != limb {
            ok = false;
        }
        l += 1;
    }
    ok
}

/// Digit shape of a width-5 NAF: every non-zero digit is odd with |d| <= 15, and two non-zero digits are at
/// least 5 positions apart.
fn naf_shape_ok(naf: &[i8]) -> bool {
    let mut ok = true;
    let mut last_nz: usize = usize::MAX; // position of the previous non-zero digit
    let mut i = 0;
    while i < naf.len() {
        let d = naf[i];
        if d != 0 {
            if d & 1 == 0 || d > 15 || d < -15 {
                ok = false;
            }
            if last_nz != usize::MAX && i - last_nz < 5 {
                ok = false;
            }
            last_nz = i;
        }
        i += 1;
    }
    ok
}

fn any_pattern() -> u8 {
    let p: u8 = kani::any();
    kani::assume(p == 0x00 || p == 0xFF || p == 0xA5 || p == 0x10);
    p
}

/// 16 symbolic bits at bytes [lo, lo+1], every other byte = one of the four background patterns.
fn naf_window<const N: usize, const L: usize>(lo: usize) {
    let pat = any_pattern();
    let hi: [u8; 2] = kani::any();
    let mut b = [pat; N];
    b[lo] = hi[0];
    b[lo + 1] = hi[1];
    let naf = __verif::non_adjacent_form::<Wide<N>>(&W(b), 5);
    assert!(naf.len() == 8 * N + 1);
    assert!(naf_value_ok::<N, L>(&naf, &b), "sum d_i 2^i != value");
    assert!(naf_shape_ok(&naf), "digit shape violated");
}

// @harness name=naf_value_wide8_top16 props=C01 kind=bounded bound="8-byte scalars: top 16 bits symbolic, low 48 bits = one of 4 patterns (0x00, 0xFF, 0xA5, 0x10 repeated)" tier=thorough backs="vartime_multiscalar_mul contract (assumed in V), recoder part: sum d_i 2^i == value, digits odd, |d| <= 15, non-adjacent (gap >= 5)" expect=pass
#[kani::proof]
#[kani::unwind(68)]
fn naf_value_wide8_top16() {
    naf_window::<8, 2>(6);
}

// @harness name=naf_value_wide8_low16 props=C01 kind=bounded bound="8-byte scalars: low 16 bits symbolic, upper 48 bits = one of 4 patterns" tier=thorough backs="recoder value/shape, as naf_value_wide8_top16 (carry chain into the constant part)" expect=pass
#[kani::proof]
#[kani::unwind(68)]
fn naf_value_wide8_low16() {
    naf_window::<8, 2>(0);
}

// 16-byte scalars have a real limb boundary (bit 64) with data on both sides: the two-limb window branch
// `(x[i] >> bit_idx) | (x[i+1] << (64 - bit_idx))` is exercised with symbolic bits on both sides.
// @harness name=naf_value_wide16_limb_boundary props=C01 kind=bounded bound="16-byte scalars: bits 56..71 (across the 64-bit limb boundary) symbolic, the rest = one of 4 patterns" tier=thorough backs="recoder value/shape across a limb boundary" expect=pass
#[kani::proof]
#[kani::unwind(132)]
fn naf_value_wide16_limb_boundary() {
    naf_window::<16, 3>(7);
}

// @harness name=naf_value_wide16_top16 props=C01 kind=bounded bound="16-byte scalars: top 16 bits symbolic, the rest = one of 4 patterns" tier=thorough backs="recoder value/shape at the top of a multi-limb scalar (carry into digit 128)" expect=pass
#[kani::proof]
#[kani::unwind(132)]
fn naf_value_wide16_top16() {
    naf_window::<16, 3>(14);
}

// ---------------------------------------------------------------------------------------------
// MSM on Toy251: full domain in scalars and points, bounded in the number of terms
// ---------------------------------------------------------------------------------------------

// @harness name=msm_toy251_terms_0_1 props=C01,C14 kind=bounded bound="0 and 1 terms; all scalars, all points (identity included)" tier=quick backs="vartime_multiscalar_mul.ensures (assumed in V): result == sum s_i * E_i; `expect` never fires for equal-length inputs (LookupTable5::from/select + double-and-add loop)" expect=pass
#[kani::proof]
#[kani::unwind(12)]
fn msm_toy251_terms_0_1() {
    let r0 = __verif::vartime_multiscalar_mul::<Toy251>(vec![], vec![]);
    assert!(r0 == E(0));
    let (s, e) = (any_s(), any_e());
    let r1 = __verif::vartime_multiscalar_mul::<Toy251>(vec![s], vec![e]);
    assert!(r1 == e * s);
}

// More than one term is NOT covered: two fully symbolic terms did not finish in 25 min (with `%`-based and with
// division-free toy arithmetic), nor did "one symbolic term + one term with a scalar from {0, 1, 173, 250}";
// three terms were not attempted after that.  See README, "What could not be done".

// optional_multiscalar_mul: None for a None element or for unequal lengths (this is what makes the
// `expect` in vartime_multiscalar_mul fire when the caller violates "equal lengths").
// @harness name=msm_toy251_optional_none props=C14 kind=bounded bound="lengths (1,1) with a None element, (2,1) and (1,2)" tier=thorough backs="optional_multiscalar_mul returns None iff an element is None or the lengths differ (so vartime_multiscalar_mul panics exactly on unequal lengths: requires equal lengths at both call sites)" expect=pass
#[kani::proof]
#[kani::unwind(12)]
fn msm_toy251_optional_none() {
    let (s1, s2, e1, e2) = (any_s(), any_s(), any_e(), any_e());
    assert!(__verif::optional_multiscalar_mul::<Toy251>(vec![s1], vec![None]).is_none());
    assert!(__verif::optional_multiscalar_mul::<Toy251>(vec![s1, s2], vec![Some(e1)]).is_none());
    assert!(__verif::optional_multiscalar_mul::<Toy251>(vec![s1], vec![Some(e1), Some(e2)]).is_none());
    assert!(__verif::optional_multiscalar_mul::<Toy251>(vec![s1], vec![Some(e1)]) == Some(e1 * s1));
}

// Negative control: unequal lengths through vartime_multiscalar_mul -> the `expect` panics -> must FAIL.
// @harness name=msm_negctl_unequal_lengths_panics props=C14 kind=bounded bound="lengths (2,1)" tier=quick backs="vacuity guard: the panic check is live (the expect in vartime_multiscalar_mul fires on unequal lengths)" failmsg="all elements should be Some" expect=fail
#[kani::proof]
#[kani::unwind(12)]
fn msm_negctl_unequal_lengths_panics() {
    let (s1, s2, e1) = (any_s(), any_s(), any_e());
    let _ = __verif::vartime_multiscalar_mul::<Toy251>(vec![s1, s2], vec![e1]);
}
