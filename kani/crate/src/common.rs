//! Shared helpers for the harness modules.
use crate::toy::*;
use frost_core::keys::{CoefficientCommitment, SigningShare, VerifiableSecretSharingCommitment, VerifyingShare};
use frost_core::{Identifier, VerifyingKey};

/// Stub for `zeroize::barrier::optimization_barrier` (inline asm, unsupported by Kani).  The barrier has no
/// semantic effect; it only stops the optimiser.  Recorded as an assumption of every harness that uses it.
pub fn noop_barrier<T: ?Sized>(_v: &T) {}

/// Stub for `alloc::fmt::format` (error paths build messages through core::fmt, expensive for CBMC).
pub fn stub_format(_args: core::fmt::Arguments<'_>) -> String {
    String::new()
}

/// Stub for the private `frost_core::serialization::short_id::<C>()` (run-time CRC-32 of `C::ID`, a 6 x 8
/// iteration loop that would force a higher unwind bound on every codec harness).  Justified by the complete
/// harness `codec_header_keypackage`, which runs the REAL `short_id` and proves that it emits and accepts
/// exactly this constant.  Only valid for Toy251.
pub fn stub_short_id<C: frost_core::Ciphersuite>() -> [u8; 4] {
    crate::codec::TOY251_SHORT_ID
}

/// Any Toy251 scalar (0..=250).
pub fn any_s() -> S {
    let v: u8 = kani::any();
    kani::assume((v as u16) < Q);
    S(v)
}
/// Any non-zero Toy251 scalar (1..=250).
pub fn any_s_nz() -> S {
    let v: u8 = kani::any();
    kani::assume(v != 0 && (v as u16) < Q);
    S(v)
}
/// Any Toy251 element including the identity.
pub fn any_e() -> E {
    let v: u8 = kani::any();
    kani::assume((v as u16) < Q);
    E(v)
}
/// Any non-identity Toy251 element (the encodable ones).
pub fn any_e_nz() -> E {
    let v: u8 = kani::any();
    kani::assume(v != 0 && (v as u16) < Q);
    E(v)
}
/// Any Toy251 identifier (non-zero scalar), built through the real constructor.
pub fn any_id() -> Identifier<Toy251> {
    match Identifier::<Toy251>::new(any_s_nz()) {
        Ok(i) => i,
        Err(_) => unreachable!(),
    }
}
/// Identifier from a (symbolic or concrete) non-zero scalar.
pub fn id_of(s: S) -> Identifier<Toy251> {
    match Identifier::<Toy251>::new(s) {
        Ok(i) => i,
        Err(_) => unreachable!(),
    }
}
/// Concrete identifier k (1..=250).
pub fn id(k: u8) -> Identifier<Toy251> {
    match Identifier::<Toy251>::new(S(k)) {
        Ok(i) => i,
        Err(_) => unreachable!(),
    }
}
/// A VSS commitment of `len` symbolic non-identity coefficient commitments.
pub fn any_commitment_nz(len: usize) -> VerifiableSecretSharingCommitment<Toy251> {
    let mut v = Vec::with_capacity(len);
    let mut i = 0;
    while i < len {
        v.push(CoefficientCommitment::<Toy251>::new(any_e_nz()));
        i += 1;
    }
    VerifiableSecretSharingCommitment::new(v)
}
/// A VSS commitment of `len` symbolic coefficient commitments (identity allowed).
pub fn any_commitment(len: usize) -> VerifiableSecretSharingCommitment<Toy251> {
    let mut v = Vec::with_capacity(len);
    let mut i = 0;
    while i < len {
        v.push(CoefficientCommitment::<Toy251>::new(any_e()));
        i += 1;
    }
    VerifiableSecretSharingCommitment::new(v)
}
pub fn share(s: S) -> SigningShare<Toy251> {
    SigningShare::<Toy251>::new(s)
}
pub fn vshare(e: E) -> VerifyingShare<Toy251> {
    VerifyingShare::<Toy251>::new(e)
}
pub fn vkey(e: E) -> VerifyingKey<Toy251> {
    VerifyingKey::<Toy251>::new(e)
}
