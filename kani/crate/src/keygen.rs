//! Groups `sumc` (C07: `keys::sum_commitments`) and `coeffs` (C16: `keys::generate_coefficients`).
use crate::common::*;
use crate::toy::*;
use core::convert::Infallible;
use frost_core::keys::{sum_commitments, CoefficientCommitment, VerifiableSecretSharingCommitment};
use frost_core::{Error, __verif};
use rand_core::{TryCryptoRng, TryRng};

const MAXN: usize = 3; // max number of commitments
const MAXL: usize = 3; // max length of one commitment

/// A commitment of (concrete) length `len <= MAXL` with symbolic (any, identity allowed) entries.
/// Returns the commitment and its entries as a fixed array (entries beyond `len` are unused).
fn sym_commitment(len: usize) -> (VerifiableSecretSharingCommitment<Toy251>, [E; MAXL]) {
    let mut vals: [E; MAXL] = [E(0); MAXL];
    let mut v = Vec::with_capacity(len);
    let mut j = 0;
    while j < MAXL {
        if j < len {
            vals[j] = any_e();
            v.push(CoefficientCommitment::<Toy251>::new(vals[j]));
        }
        j += 1;
    }
    (VerifiableSecretSharingCommitment::new(v), vals)
}

/// What the code does (stated precisely; n = number of commitments, L_k = length of the k-th, L_0 of the first):
///   n == 0                         -> Err(IncorrectNumberOfCommitments)
///   some k with L_k < L_0          -> Err(IncorrectNumberOfCommitments)
///   otherwise                      -> Ok(out), |out| == L_0, out[i] == sum_k c_k[i] for i < L_0.
/// NOTE: a LONGER later commitment (L_k > L_0) is NOT an error; its tail is silently ignored.
fn sumc_check(n: usize, lens: [usize; MAXN]) {
    // only the first n commitments are built (the others are empty and never passed)
    let (c0, v0) = sym_commitment(if n > 0 { lens[0] } else { 0 });
    let (c1, v1) = sym_commitment(if n > 1 { lens[1] } else { 0 });
    let (c2, v2) = sym_commitment(if n > 2 { lens[2] } else { 0 });
    let all = [&c0, &c1, &c2];
    let vals = [v0, v1, v2];
    let r = sum_commitments::<Toy251>(&all[..n]);
    if n == 0 {
        assert!((r).is_err());
        return;
    }
    let l0 = lens[0];
    let mut shorter = false;
    let mut k = 0;
    while k < MAXN {
        if k < n && lens[k] < l0 {
            shorter = true;
        }
        k += 1;
    }
    if shorter {
        assert!((r).is_err());
        return;
    }
    // Commitments LONGER than the first: the code truncates them today, but the properties (C07/C09/C14) only fix the equal-length case
    // and "a value or an error, no panic" otherwise -- a defensive refusal there must not be reported.
    let mut longer = false;
    let mut k = 0;
    while k < MAXN {
        if k < n && lens[k] > l0 {
            longer = true;
        }
        k += 1;
    }
    if longer {
        return;
    }
    match r {
        Err(_) => {
            assert!(false, "sum_commitments failed although no commitment is shorter than the first");
        }
        Ok(out) => {
            let o = out.coefficients();
            assert!(o.len() == l0);
            let mut i = 0;
            while i < MAXL {
                if i < l0 {
                    let mut acc = E(0);
                    let mut k = 0;
                    while k < MAXN {
                        if k < n {
                            acc = acc + vals[k][i];
                        }
                        k += 1;
                    }
                    assert!(o[i].value() == acc);
                }
                i += 1;
            }
        }
    }
}

// The lengths are enumerated CONCRETELY (with symbolic Vec lengths CBMC did not finish in 120 s even for two
// commitments); the element values are symbolic.  Cost is ~5 s of CBMC per shape, so the shapes are spread
// over several harnesses: quick tier = all shapes with n <= 2 and len <= 3, and n == 3 with len <= 2;
// thorough tier adds n == 3 with len <= 3.
macro_rules! sumc_n3_shapes {
    ($l0:expr, $maxl:expr) => {{
        let mut l1 = 0;
        while l1 <= $maxl {
            let mut l2 = 0;
            while l2 <= $maxl {
                sumc_check(3, [$l0, l1, l2]);
                l2 += 1;
            }
            l1 += 1;
        }
    }};
}

// @harness name=sumc_n3_len2_l0_0 props=C07,C09,C10,C14 kind=bounded bound="3 commitments, first of length 0, the other two of every length <= 2 (9 shapes), all element values" tier=quick backs="sum_commitments.ensures (assumed in V): index-wise sum; Err(IncorrectNumberOfCommitments) iff empty list or a later commitment shorter than the first; longer later commitments are truncated" expect=pass
#[kani::proof]
#[kani::unwind(6)]
fn sumc_n3_len2_l0_0() {
    sumc_n3_shapes!(0, 2);
}
// @harness name=sumc_n3_len2_l0_1 props=C07,C09,C10,C14 kind=bounded bound="3 commitments, first of length 1, the other two of every length <= 2 (9 shapes), all element values" tier=quick backs="sum_commitments.ensures, as sumc_n3_len2_l0_0" expect=pass
#[kani::proof]
#[kani::unwind(6)]
fn sumc_n3_len2_l0_1() {
    sumc_n3_shapes!(1, 2);
}
// @harness name=sumc_n3_len2_l0_2 props=C07,C09,C10,C14 kind=bounded bound="3 commitments, first of length 2, the other two of every length <= 2 (9 shapes), all element values" tier=quick backs="sum_commitments.ensures, as sumc_n3_len2_l0_0" expect=pass
#[kani::proof]
#[kani::unwind(6)]
fn sumc_n3_len2_l0_2() {
    sumc_n3_shapes!(2, 2);
}

// @harness name=sumc_n3_len3_l0_0 props=C07,C09,C10,C14 kind=bounded bound="3 commitments, first of length 0, the other two of every length <= 3 (16 shapes), all element values" tier=thorough backs="sum_commitments.ensures, as sumc_n3_len2_l0_0" expect=pass
#[kani::proof]
#[kani::unwind(6)]
fn sumc_n3_len3_l0_0() {
    sumc_n3_shapes!(0, 3);
}
// @harness name=sumc_n3_len3_l0_1 props=C07,C09,C10,C14 kind=bounded bound="3 commitments, first of length 1, the other two of every length <= 3 (16 shapes), all element values" tier=thorough backs="sum_commitments.ensures, as sumc_n3_len2_l0_0" expect=pass
#[kani::proof]
#[kani::unwind(6)]
fn sumc_n3_len3_l0_1() {
    sumc_n3_shapes!(1, 3);
}
// @harness name=sumc_n3_len3_l0_2 props=C07,C09,C10,C14 kind=bounded bound="3 commitments, first of length 2, the other two of every length <= 3 (16 shapes), all element values" tier=thorough backs="sum_commitments.ensures, as sumc_n3_len2_l0_0" expect=pass
#[kani::proof]
#[kani::unwind(6)]
fn sumc_n3_len3_l0_2() {
    sumc_n3_shapes!(2, 3);
}
// @harness name=sumc_n3_len3_l0_3 props=C07,C09,C10,C14 kind=bounded bound="3 commitments, first of length 3, the other two of every length <= 3 (16 shapes), all element values" tier=thorough backs="sum_commitments.ensures, as sumc_n3_len2_l0_0" expect=pass
#[kani::proof]
#[kani::unwind(6)]
fn sumc_n3_len3_l0_3() {
    sumc_n3_shapes!(3, 3);
}

macro_rules! sumc_n2_shapes {
    ($l0a:expr, $l0b:expr) => {{
        let mut l0 = $l0a;
        while l0 <= $l0b {
            let mut l1 = 0;
            while l1 <= MAXL {
                sumc_check(2, [l0, l1, 0]);
                l1 += 1;
            }
            l0 += 1;
        }
    }};
}
// @harness name=sumc_n2_a props=C07,C09,C10,C14 kind=bounded bound="2 commitments, first of length 0..1, second of every length <= 3 (8 shapes), all element values" tier=quick backs="sum_commitments.ensures, as sumc_n3_len2_l0_0" expect=pass
#[kani::proof]
#[kani::unwind(6)]
fn sumc_n2_a() {
    sumc_n2_shapes!(0, 1);
}
// @harness name=sumc_n2_b props=C07,C09,C10,C14 kind=bounded bound="2 commitments, first of length 2..3, second of every length <= 3 (8 shapes), all element values" tier=quick backs="sum_commitments.ensures, as sumc_n3_len2_l0_0" expect=pass
#[kani::proof]
#[kani::unwind(6)]
fn sumc_n2_b() {
    sumc_n2_shapes!(2, 3);
}

// @harness name=sumc_n01 props=C07,C09,C10,C14 kind=bounded bound="0 or 1 commitments of every length <= 3, all element values" tier=quick backs="sum_commitments.ensures: empty list -> Err(IncorrectNumberOfCommitments); single commitment -> itself" expect=pass
#[kani::proof]
#[kani::unwind(6)]
fn sumc_n01() {
    let mut l0 = 0;
    while l0 <= MAXL {
        sumc_check(0, [l0, 0, 0]);
        sumc_check(1, [l0, 0, 0]);
        l0 += 1;
    }
}

// Negative control: claims a LONGER later commitment is rejected -> must FAIL (the code truncates).
// @harness name=sumc_negctl_longer_rejected props=C07,C09,C10,C14 kind=bounded bound="2 commitments of lengths 2 and 1" tier=quick backs="vacuity guard for the sumc_* harnesses: claims a shorter later commitment is accepted" expect=fail
#[kani::proof]
#[kani::unwind(5)]
fn sumc_negctl_longer_rejected() {
    let (c0, _) = sym_commitment(2);
    let (c1, _) = sym_commitment(1);
    let r = sum_commitments::<Toy251>(&[&c0, &c1]);
    assert!(r.is_ok(), "negctl");
}

// ------------------------------------------------------------------------------------------------
// coeffs
// ------------------------------------------------------------------------------------------------
const RNG_BYTES: usize = 8; // 4 draws x 2 bytes

/// Replaying RNG: hands out the bytes of a (symbolic) array in order and records the position.
/// Reading past the end panics (which Kani would report).
pub struct ReplayRng {
    pub bytes: [u8; RNG_BYTES],
    pub pos: usize,
}
impl TryRng for ReplayRng {
    type Error = Infallible;
    fn try_next_u32(&mut self) -> Result<u32, Infallible> {
        let mut b = [0u8; 4];
        self.try_fill_bytes(&mut b)?;
        Ok(u32::from_le_bytes(b))
    }
    fn try_next_u64(&mut self) -> Result<u64, Infallible> {
        let mut b = [0u8; 8];
        self.try_fill_bytes(&mut b)?;
        Ok(u64::from_le_bytes(b))
    }
    fn try_fill_bytes(&mut self, dst: &mut [u8]) -> Result<(), Infallible> {
        let mut i = 0;
        while i < dst.len() {
            dst[i] = self.bytes[self.pos];
            self.pos += 1;
            i += 1;
        }
        Ok(())
    }
}
impl TryCryptoRng for ReplayRng {}

// output[i] == Field::random of the i-th DISJOINT 2-byte segment of the stream; length == size; the RNG is
// advanced by exactly 2*size bytes (nothing else is drawn).
// @harness name=coeffs_generate_coefficients props=C16,C03,C06,C07,C10,C11 kind=bounded bound="size <= 4, all RNG byte streams" tier=quick backs="generate_coefficients.ensures (assumed in V): |out| == size, out[i] == scalar_of(stream[p+2i .. p+2i+2]), pos' == pos + 2*size" expect=pass
#[kani::proof]
#[kani::unwind(6)]
fn coeffs_generate_coefficients() {
    let size: usize = kani::any();
    kani::assume(size <= 4);
    let bytes: [u8; RNG_BYTES] = kani::any();
    let mut rng = ReplayRng { bytes, pos: 0 };
    let out = __verif::generate_coefficients::<Toy251, _>(size, &mut rng);
    assert!(out.len() == size);
    assert!(rng.pos == 2 * size);
    let mut i = 0;
    while i < 4 {
        if i < size {
            assert!(out[i] == toy251_scalar_of(bytes[2 * i], bytes[2 * i + 1]));
        }
        i += 1;
    }
}

// Negative control: claims the second coefficient is drawn from the FIRST segment (a "one coefficient
// repeated" mutant would make this true) -> must FAIL.
// @harness name=coeffs_negctl_same_segment props=C16,C03,C06,C07,C10,C11 kind=bounded bound="size == 2" tier=quick backs="vacuity guard for coeffs_generate_coefficients" expect=fail
#[kani::proof]
#[kani::unwind(6)]
fn coeffs_negctl_same_segment() {
    let bytes: [u8; RNG_BYTES] = kani::any();
    let mut rng = ReplayRng { bytes, pos: 0 };
    let out = __verif::generate_coefficients::<Toy251, _>(2, &mut rng);
    assert!(out[1] == toy251_scalar_of(bytes[0], bytes[1]), "negctl");
}

