//! Group `nopanic`, part 2 (C14): every `deserialize(bytes)` entry point on fully symbolic byte strings of
//! every length <= N returns Ok or Err — no panic, no overflow, no out-of-bounds access (Kani checks these
//! in all reachable code: frost-core, serde, serdect, postcard, alloc).  N is stated per harness.
//!
//! Decoded values are forgotten, not dropped (see codec.rs on the cost of BTreeMap drops); the decoder's own
//! error paths still drop partially built values, and those drops ARE checked.
use crate::common::*;
use crate::toy::*;
use frost_core::keys::dkg;
use frost_core::keys::{
    CoefficientCommitment, KeyPackage, PublicKeyPackage, SecretShare, SigningShare, VerifiableSecretSharingCommitment,
    VerifyingShare,
};
use frost_core::round1::{Nonce, NonceCommitment, SigningCommitments, SigningNonces};
use frost_core::round2::SignatureShare;
use frost_core::{Identifier, Signature, SigningKey, SigningPackage, VerifyingKey};

/// Call `$ty::deserialize` on `&buf[..len]` for a symbolic `len <= N`; the result is only inspected for
/// Ok/Err (returned as bool) and then forgotten.
macro_rules! de_any {
    ($ty:ty, $n:expr) => {{
        let buf: [u8; $n] = kani::any();
        let len: usize = kani::any();
        kani::assume(len <= $n);
        let r = <$ty>::deserialize(&buf[..len]);
        let ok = r.is_ok();
        core::mem::forget(r);
        ok
    }};
}

// Raw (non-postcard) entry points: all lengths 0..=3, all bytes.  Complete for Toy251 in the sense that the
// length check precedes everything else and lengths > 3 take the same wrong-length path as 2 and 3.
// @harness name=nopanic_raw_entry_points props=C14 kind=bounded bound="N = 3: all byte strings of length 0..=3" tier=quick backs="no panic in Identifier / SigningKey / VerifyingKey / SigningShare / VerifyingShare / CoefficientCommitment / Nonce / NonceCommitment / round2::SignatureShare ::deserialize" expect=pass
#[kani::proof]
#[kani::unwind(6)]
fn nopanic_raw_entry_points() {
    let _ = de_any!(Identifier<Toy251>, 3);
    let _ = de_any!(SigningKey<Toy251>, 3);
    let _ = de_any!(VerifyingKey<Toy251>, 3);
    let _ = de_any!(SigningShare<Toy251>, 3);
    let _ = de_any!(VerifyingShare<Toy251>, 3);
    let _ = de_any!(CoefficientCommitment<Toy251>, 3);
    let _ = de_any!(Nonce<Toy251>, 3);
    let _ = de_any!(NonceCommitment<Toy251>, 3);
    let _ = de_any!(SignatureShare<Toy251>, 3);
}

// Signature::deserialize checks the length first, so every length behaves like one of 0..=4; 130 covers the
// longest real signature encoding (Ed448: 114) with margin.
// @harness name=nopanic_signature_len130 props=C14 kind=bounded bound="N = 130: all byte strings of length 0..=130" tier=quick backs="no panic in Signature::deserialize (default_deserialize: get(0..NE), get(NE..NE+NS), copy_from_slice) for every length <= 130" expect=pass
#[kani::proof]
#[kani::unwind(6)]
#[kani::stub(std::fmt::format, stub_format)]
fn nopanic_signature_len130() {
    let _ = de_any!(Signature<Toy251>, 130);
}

// VerifiableSecretSharingCommitment::deserialize_whole: chunks_exact(NE) + `expect` on the generator encoding.
// @harness name=nopanic_vss_deserialize_whole props=C14 kind=bounded bound="N = 4: all byte strings of length 0..=4" tier=quick backs="no panic in VerifiableSecretSharingCommitment::deserialize_whole (expect(\"serializing the generator always works\"), chunks_exact); Ok iff every byte is a valid non-identity element" expect=pass
#[kani::proof]
#[kani::unwind(7)]
fn nopanic_vss_deserialize_whole() {
    let buf: [u8; 4] = kani::any();
    let len: usize = kani::any();
    kani::assume(len <= 4);
    let r = VerifiableSecretSharingCommitment::<Toy251>::deserialize_whole(&buf[..len]);
    let mut all_valid = true;
    let mut i = 0;
    while i < 4 {
        if i < len && (buf[i] == 0 || (buf[i] as u16) >= Q) {
            all_valid = false;
        }
        i += 1;
    }
    assert!(r.is_ok() == all_valid);
    if let Ok(c) = &r {
        assert!(c.coefficients().len() == len);
    }
}

// ---- postcard entry points, fixed-size types -------------------------------------------------------------

// @harness name=nopanic_keypackage props=C14 kind=bounded bound="N = 12 (a valid encoding has 10..12 bytes): all byte strings of length 0..=12" tier=quick backs="no panic in KeyPackage::deserialize on arbitrary bytes" expect=pass
#[kani::proof]
#[kani::unwind(8)]
#[kani::stub(zeroize::barrier::optimization_barrier, noop_barrier)]
fn nopanic_keypackage() {
    let _ = de_any!(KeyPackage<Toy251>, 12);
}

// @harness name=nopanic_signing_nonces props=C14 kind=bounded bound="N = 15 (a valid encoding has 14 bytes)" tier=quick backs="no panic in round1::SigningNonces::deserialize on arbitrary bytes" expect=pass
#[kani::proof]
#[kani::unwind(8)]
#[kani::stub(zeroize::barrier::optimization_barrier, noop_barrier)]
fn nopanic_signing_nonces() {
    let _ = de_any!(SigningNonces<Toy251>, 15);
}

// @harness name=nopanic_signing_commitments props=C14 kind=bounded bound="N = 8 (a valid encoding has 7 bytes)" tier=quick backs="no panic in round1::SigningCommitments::deserialize on arbitrary bytes" expect=pass
#[kani::proof]
#[kani::unwind(8)]
fn nopanic_signing_commitments() {
    let _ = de_any!(SigningCommitments<Toy251>, 8);
}

// @harness name=nopanic_dkg_round2_package props=C14 kind=bounded bound="N = 7 (a valid encoding has 6 bytes)" tier=quick backs="no panic in keys::dkg::round2::Package::deserialize on arbitrary bytes" expect=pass
#[kani::proof]
#[kani::unwind(8)]
#[kani::stub(zeroize::barrier::optimization_barrier, noop_barrier)]
fn nopanic_dkg_round2_package() {
    let _ = de_any!(dkg::round2::Package<Toy251>, 7);
}

// Negative control: claims KeyPackage::deserialize never succeeds on 10 arbitrary bytes -> must FAIL (there
// are valid encodings), i.e. the Ok path is reachable in nopanic_keypackage.
// @harness name=nopanic_negctl_keypackage_never_ok props=C14 kind=bounded bound="N = 10" tier=quick backs="vacuity guard for the nopanic_* harnesses: the success path is reachable" expect=fail
#[kani::proof]
#[kani::unwind(8)]
#[kani::stub(zeroize::barrier::optimization_barrier, noop_barrier)]
fn nopanic_negctl_keypackage_never_ok() {
    let ok = de_any!(KeyPackage<Toy251>, 10);
    assert!(!ok, "negctl");
}

// ---- postcard entry points, variable-size types ----------------------------------------------------------
// The element count / byte length prefixes are symbolic here, so Vec capacities and loop counts are symbolic
// (bounded by the input length, since every element consumes >= 1 byte).  These are expensive; N is what
// finishes.

// @harness name=nopanic_secret_share props=C14 kind=bounded bound="N = 9 (valid encodings: 8 + commitment length)" tier=thorough backs="no panic in SecretShare::deserialize on arbitrary bytes" expect=pass
#[kani::proof]
#[kani::unwind(12)]
#[kani::stub(zeroize::barrier::optimization_barrier, noop_barrier)]
fn nopanic_secret_share() {
    let _ = de_any!(SecretShare<Toy251>, 9);
}

// @harness name=nopanic_dkg_round1_package props=C14 kind=bounded bound="N = 10 (valid encodings: 9 + commitment length)" tier=thorough backs="no panic in keys::dkg::round1::Package::deserialize on arbitrary bytes" expect=pass
#[kani::proof]
#[kani::unwind(12)]
#[kani::stub(std::fmt::format, stub_format)]
fn nopanic_dkg_round1_package() {
    let _ = de_any!(dkg::round1::Package<Toy251>, 10);
}

// @harness name=nopanic_dkg_round1_secret_package props=C14 kind=bounded bound="N = 7 (valid encodings: 5 + coefficients + commitment)" tier=thorough backs="no panic in keys::dkg::round1::SecretPackage::deserialize on arbitrary bytes" expect=pass
#[kani::proof]
#[kani::unwind(12)]
#[kani::stub(zeroize::barrier::optimization_barrier, noop_barrier)]
fn nopanic_dkg_round1_secret_package() {
    let _ = de_any!(dkg::round1::SecretPackage<Toy251>, 7);
}

// @harness name=nopanic_dkg_round2_secret_package props=C14 kind=bounded bound="N = 6 (valid encodings: 5 + commitment length)" tier=thorough backs="no panic in keys::dkg::round2::SecretPackage::deserialize on arbitrary bytes" expect=pass
#[kani::proof]
#[kani::unwind(12)]
#[kani::stub(zeroize::barrier::optimization_barrier, noop_barrier)]
fn nopanic_dkg_round2_secret_package() {
    let _ = de_any!(dkg::round2::SecretPackage<Toy251>, 6);
}

// BTreeMap-carrying types (PublicKeyPackage, SigningPackage): NO no-panic harness is kept.  Fully symbolic input
// means symbolic map keys, the case the design (§2.5) rules out for Kani.  Tried and dropped (see README):
//   * symbolic map-length byte <= 1, everything else symbolic (N = 10 / 16): no result in 25 min;
//   * concrete map length 0 / 1, everything else symbolic (N = 10..17): CBMC out of memory after 12-18 min;
//   * well-formed one-entry frame with arbitrary value bytes, arbitrarily truncated: CBMC out of memory.
// What exists for these two decoders: codec_dec_* (every well-formed encoding within the bound decodes to the
// value) and codec_pkp_threshold_tail_lenient (arbitrary bytes after the verifying key never fail).
