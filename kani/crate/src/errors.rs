//! Group `errors` (C04, C08): `Error::culprits()` (error.rs:125-164) for every variant, at `Toy251`.
use crate::common::*;
use crate::toy::*;
use frost_core::{Error, FieldError, GroupError};

type Er = Error<Toy251>;

// Every variant without an identifier payload returns the empty list; the three payload variants return
// exactly their payload.  (The enum is #[non_exhaustive]; this list is the variant list of error.rs at the
// time of writing — a NEW variant is not covered until it is added here.)
// @harness name=culprits_all_variants props=C04,C08 kind=bounded bound="InvalidSignatureShare culprit lists of length 0, 1, 2 (all identifier values); every other variant: complete" tier=quick backs="Error::culprits(): InvalidSignatureShare{culprits} -> culprits (same order); InvalidProofOfKnowledge{culprit} -> [culprit]; InvalidSecretShare{culprit} -> [culprit] or []; all 30 other variants -> []" expect=pass
#[kani::proof]
#[kani::unwind(5)]
fn culprits_all_variants() {
    let (i, j) = (any_id(), any_id());
    // payload variants
    assert!(Er::InvalidSignatureShare { culprits: vec![] }.culprits().is_empty());
    let c1 = Er::InvalidSignatureShare { culprits: vec![i] }.culprits();
    assert!(c1.len() == 1 && c1[0] == i);
    let c2 = Er::InvalidSignatureShare { culprits: vec![i, j] }.culprits();
    assert!(c2.len() == 2 && c2[0] == i && c2[1] == j);
    let p = Er::InvalidProofOfKnowledge { culprit: i }.culprits();
    assert!(p.len() == 1 && p[0] == i);
    let s = Er::InvalidSecretShare { culprit: Some(i) }.culprits();
    assert!(s.len() == 1 && s[0] == i);
    assert!(Er::InvalidSecretShare { culprit: None }.culprits().is_empty());
    // all other variants
    let fe: bool = kani::any();
    let ge: u8 = kani::any();
    let field_err = if fe { FieldError::MalformedScalar } else { FieldError::InvalidZeroScalar };
    let group_err = match ge % 3 {
        0 => GroupError::MalformedElement,
        1 => GroupError::InvalidIdentityElement,
        _ => GroupError::InvalidNonPrimeOrderElement,
    };
    let others: [Er; 30] = [
        Er::InvalidMinSigners,
        Er::InvalidMaxSigners,
        Er::InvalidCoefficients,
        Er::MalformedIdentifier,
        Er::DuplicatedIdentifier,
        Er::UnknownIdentifier,
        Er::IncorrectNumberOfIdentifiers,
        Er::MalformedSigningKey,
        Er::MalformedVerifyingKey,
        Er::MalformedSignature,
        Er::InvalidSignature,
        Er::DuplicatedShares,
        Er::IncorrectNumberOfShares,
        Er::IdentityCommitment,
        Er::MissingCommitment,
        Er::IncorrectCommitment,
        Er::IncorrectNumberOfCommitments,
        Er::PackageNotFound,
        Er::IncorrectNumberOfPackages,
        Er::IncorrectPackage,
        Er::DKGNotSupported,
        Er::FieldError(field_err),
        Er::GroupError(group_err),
        Er::InvalidCoefficient,
        Er::IdentifierDerivationNotSupported,
        Er::SerializationError,
        Er::DeserializationError,
        // the remaining slots repeat payload-free variants so that the array type is fixed
        Er::InvalidMinSigners,
        Er::InvalidMaxSigners,
        Er::InvalidCoefficients,
    ];
    let k: usize = kani::any();
    kani::assume(k < 30);
    assert!(others[k].culprits().is_empty());
    core::mem::forget(others); // the 30-element drop loop would only raise the unwind bound
}

// Negative control: claims InvalidSecretShare{Some(i)} names nobody -> must FAIL.
// @harness name=culprits_negctl props=C04,C08 kind=complete bound="-" tier=quick backs="vacuity guard for culprits_all_variants" expect=fail
#[kani::proof]
#[kani::unwind(5)]
fn culprits_negctl() {
    let e = Er::InvalidSecretShare { culprit: Some(any_id()) };
    assert!(e.culprits().is_empty(), "negctl");
}
