//! Group `ident` (C02, trusted-base item T7): `Identifier::try_from(u16)` and `Ord for Identifier`.
use crate::common::*;
use crate::toy::*;
use core::cmp::Ordering;
use frost_core::{Error, FieldError, Identifier};

// What the code does, stated precisely: for every u16 n,
//   n mod 251 == 0 (this includes n == 0 and the 261 wrap-arounds 251, 502, ...)  =>  Err(FieldError(InvalidZeroScalar))
//   otherwise                                                                     =>  Ok(id) with id.to_scalar() == n mod 251
// (n == 0 is rejected up front; n != 0 with n ≡ 0 (mod q) is rejected by Identifier::new — same error value.)
// @harness name=ident_try_from_u16_toy251 props=C02 kind=complete bound="-" tier=quick backs="Identifier::try_from(u16).ensures: Ok(from_nat(n) mod q) / Err(InvalidZeroScalar) iff n mod q == 0; all 65536 inputs, loop bound 15 fixed by u16 width" expect=pass
#[kani::proof]
#[kani::unwind(17)]
fn ident_try_from_u16_toy251() {
    let n: u16 = kani::any();
    let r = Identifier::<Toy251>::try_from(n);
    if n % Q == 0 {
        assert!((r).is_err());
    } else {
        match r {
            Ok(id) => {
                assert!(id.to_scalar().0 as u16 == n % Q);
            }
            Err(_) => {
                assert!(false, "try_from failed on n with n mod 251 != 0");
            }
        }
    }
}

// Field with more than 2^16 elements: no wrap-around, result is n exactly; Err iff n == 0.
// @harness name=ident_try_from_u16_toy65537 props=C02 kind=complete bound="-" tier=quick backs="Identifier::try_from(u16).ensures on a field with > 2^16 elements: Err iff n == 0, else scalar == n exactly" expect=pass
#[kani::proof]
#[kani::unwind(17)]
fn ident_try_from_u16_toy65537() {
    let n: u16 = kani::any();
    let r = Identifier::<Toy65537>::try_from(n);
    if n == 0 {
        assert!((r).is_err());
    } else {
        match r {
            Ok(id) => {
                assert!(id.to_scalar().0 == n as u32);
            }
            Err(_) => {
                assert!(false, "try_from failed on non-zero n");
            }
        }
    }
}

// Negative control: claims the result is n (not n mod 251) on Toy251 -> must FAIL (e.g. n = 252).
// @harness name=ident_try_from_u16_negctl props=C02 kind=complete bound="-" tier=quick backs="vacuity guard for ident_try_from_u16_*" expect=fail
#[kani::proof]
#[kani::unwind(17)]
fn ident_try_from_u16_negctl() {
    let n: u16 = kani::any();
    kani::assume(n != 0);
    if let Ok(id) = Identifier::<Toy251>::try_from(n) {
        assert!(id.to_scalar().0 as u16 == n, "negctl");
    }
}

fn rev(o: Ordering) -> Ordering {
    match o {
        Ordering::Less => Ordering::Greater,
        Ordering::Equal => Ordering::Equal,
        Ordering::Greater => Ordering::Less,
    }
}
fn num_cmp(a: u32, b: u32) -> Ordering {
    if a < b {
        Ordering::Less
    } else if a == b {
        Ordering::Equal
    } else {
        Ordering::Greater
    }
}

/// The order laws that vstd's `laws_cmp::obeys_cmp::<K>()` (== `key_obeys_cmp_spec`) unfolds to, plus
/// "equals the numeric order of the scalar".  `na`, `nb`, `nc` are the numeric values of the scalars.
macro_rules! ord_laws {
    ($a:expr, $b:expr, $c:expr, $na:expr, $nb:expr, $nc:expr) => {{
        let (a, b, c) = ($a, $b, $c);
        let ab = a.cmp(&b);
        let ba = b.cmp(&a);
        let bc = b.cmp(&c);
        let ac = a.cmp(&c);
        // equal to numeric order of the scalar
        assert!(ab == num_cmp($na, $nb));
        assert!(bc == num_cmp($nb, $nc));
        assert!(ac == num_cmp($na, $nc));
        // consistent with == (PartialEq is the derived one on the scalar)
        assert!((ab == Ordering::Equal) == (a == b));
        assert!((a == b) == ($na == $nb));
        // reflexive
        assert!(a.cmp(&a) == Ordering::Equal);
        // antisymmetric / total: cmp(b,a) is the reverse of cmp(a,b) (exactly one of <,==,> holds)
        assert!(ba == rev(ab));
        // transitive
        if ab != Ordering::Greater && bc != Ordering::Greater {
            assert!(ac != Ordering::Greater);
        }
        if ab == Ordering::Less && bc != Ordering::Greater {
            assert!(ac == Ordering::Less);
        }
        if ab != Ordering::Greater && bc == Ordering::Less {
            assert!(ac == Ordering::Less);
        }
        if ab == Ordering::Equal && bc == Ordering::Equal {
            assert!(ac == Ordering::Equal);
        }
        // partial_cmp and the derived comparison operators agree with cmp
        assert!(a.partial_cmp(&b) == Some(ab));
        assert!((a < b) == (ab == Ordering::Less));
        assert!((a <= b) == (ab != Ordering::Greater));
        assert!((a > b) == (ab == Ordering::Greater));
        assert!((a >= b) == (ab != Ordering::Less));
        // ne is the negation of eq
        assert!((a != b) == !(a == b));
    }};
}

// @harness name=ident_ord_toy251 props=C02,C04 kind=complete bound="-" tier=quick backs="T7: laws_cmp::obeys_cmp::<Identifier<C>>() and cmp == numeric order; all triples of Toy251 identifiers, loop bound = encoding length 1" expect=pass
#[kani::proof]
#[kani::unwind(3)]
fn ident_ord_toy251() {
    let (a, b, c) = (any_id(), any_id(), any_id());
    ord_laws!(
        a,
        b,
        c,
        a.to_scalar().0 as u32,
        b.to_scalar().0 as u32,
        c.to_scalar().0 as u32
    );
}

fn any_id_w() -> Identifier<Toy65537> {
    let v: u32 = kani::any();
    kani::assume(v != 0 && v < QW);
    match Identifier::<Toy65537>::new(SW(v)) {
        Ok(i) => i,
        Err(_) => unreachable!(),
    }
}

// @harness name=ident_ord_toy65537 props=C02 kind=complete bound="-" tier=quick backs="T7: obeys_cmp and cmp == numeric order on a 4-byte-scalar field whose serialize is big-endian and little_endian_serialize little-endian; all triples, loop bound = encoding length 4" expect=pass
#[kani::proof]
#[kani::unwind(6)]
fn ident_ord_toy65537() {
    let (a, b, c) = (any_id_w(), any_id_w(), any_id_w());
    ord_laws!(a, b, c, a.to_scalar().0, b.to_scalar().0, c.to_scalar().0);
}

// Negative control: claims cmp is the byte-wise order of the BIG-endian... i.e. the order of the
// byte-reversed value (what a missing `.rev()` in `Ord::cmp` would give).  Must FAIL (e.g. 1 vs 256).
// @harness name=ident_ord_negctl props=C02 kind=complete bound="-" tier=quick backs="vacuity guard for ident_ord_*" expect=fail
#[kani::proof]
#[kani::unwind(6)]
fn ident_ord_negctl() {
    let (a, b) = (any_id_w(), any_id_w());
    let (x, y) = (a.to_scalar().0.swap_bytes(), b.to_scalar().0.swap_bytes());
    assert!(a.cmp(&b) == num_cmp(x, y), "negctl");
}

// ---------------------------------------------------------------------------------------------
// Wide scalars: Ord / PartialOrd for Identifier == numeric order of the little-endian scalar, ALL pairs.
// A defect that compares 64-bit words least-significant first is correct below 2^64 and wrong above; only a
// wide toy can see it.
// ---------------------------------------------------------------------------------------------

fn any_id_wide<const N: usize>() -> (Identifier<Wide<N>>, [u8; N]) {
    let b: [u8; N] = kani::any();
    match Identifier::<Wide<N>>::new(W(b)) {
        Ok(i) => (i, b),
        Err(_) => {
            // zero scalar: not an identifier
            kani::assume(false);
            unreachable!()
        }
    }
}

// @harness name=ident_ord_wide16 props=C01,C02 kind=complete bound="-" tier=quick backs="T7 / RFC canonical signer order: for ALL pairs of non-zero 16-byte little-endian scalars, Identifier::cmp == u128 numeric order, partial_cmp == Some(cmp), cmp == Equal iff ==; loop bound = encoding length 16" expect=pass
#[kani::proof]
#[kani::unwind(18)]
fn ident_ord_wide16() {
    let (a, ab) = any_id_wide::<16>();
    let (b, bb) = any_id_wide::<16>();
    let (x, y) = (u128::from_le_bytes(ab), u128::from_le_bytes(bb));
    let expected = if x < y {
        Ordering::Less
    } else if x == y {
        Ordering::Equal
    } else {
        Ordering::Greater
    };
    let c = a.cmp(&b);
    assert!(c == expected);
    assert!(a.partial_cmp(&b) == Some(c));
    assert!((c == Ordering::Equal) == (a == b));
    assert!(b.cmp(&a) == rev(c));
    assert!((a < b) == (x < y) && (a <= b) == (x <= y) && (a > b) == (x > y) && (a >= b) == (x >= y));
}

// Negative control: claims the order is that of the LOW 64-bit word first (the seeded defect) -> must FAIL.
// @harness name=ident_ord_wide16_negctl props=C01,C02 kind=complete bound="-" tier=quick backs="vacuity guard for ident_ord_wide16: a word-wise least-significant-first comparison is distinguishable" expect=fail
#[kani::proof]
#[kani::unwind(18)]
fn ident_ord_wide16_negctl() {
    let (a, ab) = any_id_wide::<16>();
    let (b, bb) = any_id_wide::<16>();
    let (x, y) = (u128::from_le_bytes(ab), u128::from_le_bytes(bb));
    let (xl, xh, yl, yh) = (x as u64, (x >> 64) as u64, y as u64, (y >> 64) as u64);
    let wrong = if xl != yl { num_cmp64(xl, yl) } else { num_cmp64(xh, yh) };
    assert!(a.cmp(&b) == wrong, "negctl");
}
fn num_cmp64(a: u64, b: u64) -> Ordering {
    if a < b {
        Ordering::Less
    } else if a == b {
        Ordering::Equal
    } else {
        Ordering::Greater
    }
}

// @harness name=ident_ord_wide32 props=C01,C02,C04 kind=complete bound="-" tier=quick backs="as ident_ord_wide16 for ALL pairs of non-zero 32-byte scalars (the width of five real suites): cmp == numeric order of the 256-bit little-endian value (high u128 first, then low u128)" expect=pass
#[kani::proof]
#[kani::unwind(34)]
fn ident_ord_wide32() {
    let (a, ab) = any_id_wide::<32>();
    let (b, bb) = any_id_wide::<32>();
    let mut lo = [0u8; 16];
    let mut hi = [0u8; 16];
    lo.copy_from_slice(&ab[..16]);
    hi.copy_from_slice(&ab[16..]);
    let (xl, xh) = (u128::from_le_bytes(lo), u128::from_le_bytes(hi));
    lo.copy_from_slice(&bb[..16]);
    hi.copy_from_slice(&bb[16..]);
    let (yl, yh) = (u128::from_le_bytes(lo), u128::from_le_bytes(hi));
    let expected = if xh != yh {
        if xh < yh {
            Ordering::Less
        } else {
            Ordering::Greater
        }
    } else if xl < yl {
        Ordering::Less
    } else if xl == yl {
        Ordering::Equal
    } else {
        Ordering::Greater
    };
    let c = a.cmp(&b);
    assert!(c == expected);
    assert!(a.partial_cmp(&b) == Some(c));
    assert!((c == Ordering::Equal) == (a == b));
}
