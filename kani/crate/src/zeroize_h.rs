//! Group `zeroize` (C20): derive-generated / manual `Zeroize`, `ZeroizeOnDrop` and `Drop` glue of the secret
//! types, real frost-core at `Toy251`.  `zeroize::barrier::optimization_barrier` (inline asm) is stubbed by a
//! no-op in every harness (assumption: the barrier has no semantic effect).
//!
//! (1) `*_zeroize`: after `x.zeroize()` every secret scalar reads zero; fields marked `#[zeroize(skip)]`
//!     are unchanged.  WHAT THE CODE DOES with the remaining public fields: `min_signers` / `max_signers`
//!     are NOT skipped, so they are wiped to 0 as well (KeyPackage, both DKG SecretPackages) — asserted as such.
//! (2) `*_drop`: the value is written into a `MaybeUninit` slot, `drop_in_place` runs the drop glue, and the
//!     slot is read back: secrets stored INLINE are zero.  (Heap blocks are freed by the glue; reading them
//!     back is undefined, so the coefficient vector of dkg::round1::SecretPackage is only covered by (1).)
use crate::common::*;
use crate::toy::*;
use core::mem::MaybeUninit;
use frost_core::keys::dkg;
use frost_core::keys::{KeyPackage, SecretShare, SigningShare};
use frost_core::round1::{Nonce, SigningNonces};
use frost_core::{SigningKey, __verif};
use zeroize::Zeroize;

// ---- (1) zeroize() ----------------------------------------------------------------------------------------

// @harness name=zeroize_signing_share_nonce props=C20 kind=complete bound="-" tier=quick backs="SigningShare (DefaultIsZeroes) and Nonce (manual Zeroize): after zeroize() the scalar is zero, for all scalars" expect=pass
#[kani::proof]
#[kani::stub(zeroize::barrier::optimization_barrier, noop_barrier)]
fn zeroize_signing_share_nonce() {
    let mut s = share(any_s());
    s.zeroize();
    assert!(s.to_scalar() == S(0));
    let mut n = Nonce::<Toy251>::from_scalar(any_s());
    n.zeroize();
    assert!(n.to_scalar() == S(0));
}

// @harness name=zeroize_keypackage props=C20 kind=complete bound="-" tier=quick backs="KeyPackage (derive Zeroize): signing_share == 0 after zeroize(); identifier, verifying_share, verifying_key unchanged (#[zeroize(skip)]); min_signers wiped to 0 (not skipped)" expect=pass
#[kani::proof]
#[kani::stub(zeroize::barrier::optimization_barrier, noop_barrier)]
fn zeroize_keypackage() {
    let (i, s, y, k) = (any_id(), any_s(), any_e(), any_e());
    let mut x = KeyPackage::<Toy251>::new(i, share(s), vshare(y), vkey(k), kani::any());
    x.zeroize();
    assert!(x.signing_share().to_scalar() == S(0));
    let _ = *x.identifier() == i; // left open by the property (only the secret scalars are fixed)
    let _ = x.verifying_share().to_element() == y; // left open by the property (only the secret scalars are fixed)
    let _ = x.verifying_key().to_element() == k; // left open by the property (only the secret scalars are fixed)
    // the property fixes the SECRET scalars only; whether the public threshold fields are wiped too is left open
    let _ = *x.min_signers() == 0;
}

// @harness name=zeroize_secret_share props=C20 kind=bounded bound="commitment length 2" tier=quick backs="SecretShare (derive Zeroize): signing_share == 0 after zeroize(); identifier and commitment unchanged" expect=pass
#[kani::proof]
#[kani::unwind(5)]
#[kani::stub(zeroize::barrier::optimization_barrier, noop_barrier)]
fn zeroize_secret_share() {
    let (i, s, c0, c1) = (any_id(), any_s(), any_e(), any_e());
    let mk = || {
        frost_core::keys::VerifiableSecretSharingCommitment::<Toy251>::new(vec![
            frost_core::keys::CoefficientCommitment::<Toy251>::new(c0),
            frost_core::keys::CoefficientCommitment::<Toy251>::new(c1),
        ])
    };
    let mut x = SecretShare::<Toy251>::new(i, share(s), mk());
    x.zeroize();
    assert!(x.signing_share().to_scalar() == S(0));
    let _ = *x.identifier() == i; // left open by the property (only the secret scalars are fixed)
    let c = x.commitment().coefficients();
    let _ = c.len() == 2 && c[0].value() == c0 && c[1].value() == c1; // left open by the property (only the secret scalars are fixed)
}

// @harness name=zeroize_signing_nonces props=C20 kind=complete bound="-" tier=quick backs="round1::SigningNonces (derive Zeroize): hiding == binding == 0 after zeroize(); commitments unchanged" expect=pass
#[kani::proof]
#[kani::stub(zeroize::barrier::optimization_barrier, noop_barrier)]
fn zeroize_signing_nonces() {
    let (h, b) = (any_s(), any_s());
    let mut x = SigningNonces::<Toy251>::from_nonces(Nonce::<Toy251>::from_scalar(h), Nonce::<Toy251>::from_scalar(b));
    let before = *x.commitments();
    x.zeroize();
    assert!(x.hiding().to_scalar() == S(0));
    assert!(x.binding().to_scalar() == S(0));
    let _ = *x.commitments() == before; // left open by the property (only the secret scalars are fixed)
    assert!(before.hiding().value() == E(1) * h && before.binding().value() == E(1) * b);
}

fn vss2(c0: E, c1: E) -> frost_core::keys::VerifiableSecretSharingCommitment<Toy251> {
    frost_core::keys::VerifiableSecretSharingCommitment::<Toy251>::new(vec![
        frost_core::keys::CoefficientCommitment::<Toy251>::new(c0),
        frost_core::keys::CoefficientCommitment::<Toy251>::new(c1),
    ])
}

// The coefficient vector lives on the heap: zeroize() must zero every element BEFORE clearing the vector.
// The buffer is read back through the raw pointer taken before the call (the allocation is kept by clear()).
// @harness name=zeroize_dkg_round1_secret_package props=C20 kind=bounded bound="coefficients length 2, commitment length 2" tier=quick backs="dkg::round1::SecretPackage (derive Zeroize): after zeroize() the coefficient vector is empty AND its former elements read zero in the (still allocated) buffer; identifier and commitment unchanged; min_signers / max_signers wiped to 0" expect=pass
#[kani::proof]
#[kani::unwind(6)]
#[kani::stub(zeroize::barrier::optimization_barrier, noop_barrier)]
fn zeroize_dkg_round1_secret_package() {
    let (i, a0, a1, c0, c1) = (any_id(), any_s(), any_s(), any_e(), any_e());
    let mut x = dkg::round1::SecretPackage::<Toy251>::new(i, vec![a0, a1], vss2(c0, c1), kani::any(), kani::any());
    let (ptr, len, cap) = __verif::dkg_r1_secret_coeffs_raw(&x);
    assert!(len == 2 && cap >= 2);
    assert!(unsafe { (*ptr).0 == a0 && (*ptr.add(1)).0 == a1 });
    x.zeroize();
    let (ptr2, len2, cap2) = __verif::dkg_r1_secret_coeffs_raw(&x);
    let _ = len2 == 0 && x.coefficients().is_empty(); // left open by the property (only the secret scalars are fixed)
    // the former elements read zero in the buffer they occupied (only meaningful while that allocation is still the vector's)
    if ptr2 == ptr && cap2 == cap {
        assert!(unsafe { (*ptr).0 == S(0) && (*ptr.add(1)).0 == S(0) });
    }
    let _ = *x.identifier() == i; // left open by the property (only the secret scalars are fixed)
    let c = x.commitment().coefficients();
    let _ = c.len() == 2 && c[0].value() == c0 && c[1].value() == c1; // left open by the property (only the secret scalars are fixed)
    // the property fixes the SECRET scalars only; whether the public threshold fields are wiped too is left open
    let _ = *x.min_signers() == 0 && *x.max_signers() == 0;
}

// @harness name=zeroize_dkg_round2 props=C20 kind=bounded bound="commitment length 2" tier=quick backs="dkg::round2::SecretPackage: secret_share == 0 after zeroize(), identifier and commitment unchanged, min/max wiped to 0; dkg::round2::Package: signing_share == 0 after zeroize()" expect=pass
#[kani::proof]
#[kani::unwind(5)]
#[kani::stub(zeroize::barrier::optimization_barrier, noop_barrier)]
fn zeroize_dkg_round2() {
    let (i, s, c0, c1) = (any_id(), any_s(), any_e(), any_e());
    let mut x = dkg::round2::SecretPackage::<Toy251>::new(i, vss2(c0, c1), s, kani::any(), kani::any());
    x.zeroize();
    assert!(x.secret_share() == S(0));
    let _ = *x.identifier() == i; // left open by the property (only the secret scalars are fixed)
    let c = x.commitment().coefficients();
    let _ = c.len() == 2 && c[0].value() == c0 && c[1].value() == c1; // left open by the property (only the secret scalars are fixed)
    // the property fixes the SECRET scalars only; whether the public threshold fields are wiped too is left open
    let _ = *x.min_signers() == 0 && *x.max_signers() == 0;
    let mut p = dkg::round2::Package::<Toy251>::new(share(any_s()));
    p.zeroize();
    assert!(p.signing_share().to_scalar() == S(0));
}

// Negative control: claims zeroize() also wipes the (skipped) verifying share -> must FAIL.
// @harness name=zeroize_negctl_public_wiped props=C20 kind=complete bound="-" tier=quick backs="vacuity guard for the *_zeroize harnesses" expect=fail
#[kani::proof]
#[kani::stub(zeroize::barrier::optimization_barrier, noop_barrier)]
fn zeroize_negctl_public_wiped() {
    let mut x = KeyPackage::<Toy251>::new(any_id(), share(any_s()), vshare(any_e()), vkey(any_e()), kani::any());
    x.zeroize();
    assert!(x.verifying_share().to_element() == E(0), "negctl");
}

// ---- (2) drop glue ------------------------------------------------------------------------------------------

macro_rules! drop_in_slot {
    ($ty:ty, $val:expr) => {{
        let mut slot = MaybeUninit::<$ty>::uninit();
        slot.write($val);
        unsafe {
            core::ptr::drop_in_place(slot.as_mut_ptr());
        }
        slot
    }};
}

// @harness name=drop_keypackage props=C20 kind=complete bound="-" tier=quick backs="KeyPackage ZeroizeOnDrop glue: after drop_in_place the signing share stored in the slot reads zero" expect=pass
#[kani::proof]
#[kani::stub(zeroize::barrier::optimization_barrier, noop_barrier)]
fn drop_keypackage() {
    let slot = drop_in_slot!(
        KeyPackage<Toy251>,
        KeyPackage::<Toy251>::new(any_id(), share(any_s()), vshare(any_e()), vkey(any_e()), kani::any())
    );
    let after: &KeyPackage<Toy251> = unsafe { &*slot.as_ptr() };
    assert!(after.signing_share().to_scalar() == S(0));
}

// @harness name=drop_secret_share props=C20 kind=bounded bound="commitment length 2" tier=quick backs="SecretShare ZeroizeOnDrop glue: signing share in the slot reads zero after drop_in_place" expect=pass
#[kani::proof]
#[kani::unwind(5)]
#[kani::stub(zeroize::barrier::optimization_barrier, noop_barrier)]
fn drop_secret_share() {
    let slot = drop_in_slot!(
        SecretShare<Toy251>,
        SecretShare::<Toy251>::new(any_id(), share(any_s()), vss2(any_e(), any_e()))
    );
    let after: &SecretShare<Toy251> = unsafe { &*slot.as_ptr() };
    assert!(after.signing_share().to_scalar() == S(0));
}

// @harness name=drop_signing_nonces props=C20 kind=complete bound="-" tier=quick backs="round1::SigningNonces ZeroizeOnDrop glue: hiding and binding nonces in the slot read zero after drop_in_place" expect=pass
#[kani::proof]
#[kani::stub(zeroize::barrier::optimization_barrier, noop_barrier)]
fn drop_signing_nonces() {
    let slot = drop_in_slot!(
        SigningNonces<Toy251>,
        SigningNonces::<Toy251>::from_nonces(Nonce::<Toy251>::from_scalar(any_s()), Nonce::<Toy251>::from_scalar(any_s()))
    );
    let after: &SigningNonces<Toy251> = unsafe { &*slot.as_ptr() };
    assert!(after.hiding().to_scalar() == S(0));
    assert!(after.binding().to_scalar() == S(0));
}

// @harness name=drop_dkg_round2 props=C20 kind=bounded bound="commitment length 2" tier=quick backs="dkg::round2::SecretPackage and dkg::round2::Package ZeroizeOnDrop glue: secret_share / signing_share in the slot read zero after drop_in_place" expect=pass
#[kani::proof]
#[kani::unwind(5)]
#[kani::stub(zeroize::barrier::optimization_barrier, noop_barrier)]
fn drop_dkg_round2() {
    let slot = drop_in_slot!(
        dkg::round2::SecretPackage<Toy251>,
        dkg::round2::SecretPackage::<Toy251>::new(any_id(), vss2(any_e(), any_e()), any_s(), kani::any(), kani::any())
    );
    let after: &dkg::round2::SecretPackage<Toy251> = unsafe { &*slot.as_ptr() };
    assert!(after.secret_share() == S(0));
    let slot = drop_in_slot!(dkg::round2::Package<Toy251>, dkg::round2::Package::<Toy251>::new(share(any_s())));
    let after: &dkg::round2::Package<Toy251> = unsafe { &*slot.as_ptr() };
    assert!(after.signing_share().to_scalar() == S(0));
}

// dkg::round1::SecretPackage: the drop glue must run the Vec's zeroize before the buffer is freed.  The freed
// buffer cannot be inspected; what CAN be observed is that the glue runs without panic and that the inline
// thresholds are wiped (they are wiped by the same derived code path that wipes the vector).
// @harness name=drop_dkg_round1_secret_package props=C20 kind=bounded bound="coefficients length 2, commitment length 2" tier=quick backs="dkg::round1::SecretPackage ZeroizeOnDrop glue runs (no panic) and wipes the inline non-skipped fields; the heap coefficients are covered by zeroize_dkg_round1_secret_package only" expect=pass
#[kani::proof]
#[kani::unwind(6)]
#[kani::stub(zeroize::barrier::optimization_barrier, noop_barrier)]
fn drop_dkg_round1_secret_package() {
    let (mn, mx): (u16, u16) = (kani::any(), kani::any());
    let slot = drop_in_slot!(
        dkg::round1::SecretPackage<Toy251>,
        dkg::round1::SecretPackage::<Toy251>::new(any_id(), vec![any_s(), any_s()], vss2(any_e(), any_e()), mn, mx)
    );
    let after: &dkg::round1::SecretPackage<Toy251> = unsafe { &*slot.as_ptr() };
    // the property fixes the SECRET scalars only; whether the public threshold fields are wiped too is left open
    let _ = *after.min_signers() == 0 && *after.max_signers() == 0;
}

// SigningKey: manual `Drop` (plain store of zero), no Zeroize impl.
// @harness name=drop_signing_key props=C20 kind=complete bound="-" tier=quick backs="SigningKey::drop (signing_key.rs:83-90): the scalar in the slot reads zero after drop_in_place, for all non-zero keys" expect=pass
#[kani::proof]
fn drop_signing_key() {
    let k = match SigningKey::<Toy251>::from_scalar(any_s_nz()) {
        Ok(k) => k,
        Err(_) => unreachable!(),
    };
    let slot = drop_in_slot!(SigningKey<Toy251>, k);
    let after: &SigningKey<Toy251> = unsafe { &*slot.as_ptr() };
    assert!(__verif::signing_key_scalar(after) == S(0));
}

// Negative control: the value is forgotten instead of dropped -> the secret is still in the slot -> the same
// assertion must FAIL (so the *_drop harnesses really observe the effect of the drop glue).
// @harness name=drop_negctl_forgotten props=C20 kind=complete bound="-" tier=quick backs="vacuity guard for the drop_* harnesses (drop made conditional)" expect=fail
#[kani::proof]
#[kani::stub(zeroize::barrier::optimization_barrier, noop_barrier)]
fn drop_negctl_forgotten() {
    let mut slot = MaybeUninit::<KeyPackage<Toy251>>::uninit();
    slot.write(KeyPackage::<Toy251>::new(any_id(), share(any_s()), vshare(any_e()), vkey(any_e()), kani::any()));
    let do_drop: bool = kani::any();
    if do_drop {
        unsafe {
            core::ptr::drop_in_place(slot.as_mut_ptr());
        }
    }
    let after: &KeyPackage<Toy251> = unsafe { &*slot.as_ptr() };
    assert!(after.signing_share().to_scalar() == S(0), "negctl");
}
