//! Kani harnesses for ZcashFoundation/frost (frost-core), run against a scratch copy of the working tree by
//! /verif/kani/run_kani.py.  See /verif/kani/README.md.
//!
//! Every harness is a plain `#[kani::proof]`, preceded by one `// @harness ...` metadata line that
//! run_kani.py parses (name, props, kind, bound, tier, backs, expect).
#![allow(non_snake_case)]
#![allow(dead_code)]
#![allow(unused_imports)]

pub mod toy;

#[cfg(kani)]
mod common;

#[cfg(kani)]
mod ident;
#[cfg(kani)]
mod params;
#[cfg(kani)]
mod keygen;
#[cfg(kani)]
mod codec;
#[cfg(kani)]
mod nopanic;
#[cfg(kani)]
mod scalarmul;
#[cfg(kani)]
mod zeroize_h;
